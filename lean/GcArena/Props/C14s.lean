import GcArena.Proofs.DynReach
import GcArena.Props.C14
import GcArena.Props.C02
/-!
# C14 (companion) — the DynamicRootSet slot table composed with the collector, as theorems

"An object stashed in a DynamicRootSet that is reachable from the root, and everything reachable
from it, survives every collection while at least one DynamicRoot handle for it (the original or
any clone) exists, and becomes collectable once the last such handle is dropped.  fetch returns a
pointer to the very object that was stashed …"  — quantified "for every interleaving of stash,
clone, drop, fetch across several handles, sets and arenas with collection increments in every
phase, including slot reuse after frees".

Props/C14.lean proves the slot-table half (`DynRoots`: the table holds exactly the pointers of the
live handles; foreign handles; slot reuse; handles outliving their set); the collector development
proves what happens to pointers an accessible object reports (`inv_run`, C01, C02).  Here the two
are **one system**, in two versions.

## Full strength: the general system (`GcArena.DynReach`, Proofs/DynReach.lean)

A set object may be referenced from anywhere in the heap (or from nowhere); its slot list is exactly
the image of the slot table and grows with it (no capacity); a handle may be dropped in any state of
the arena — any phase, inside or outside a callback, between `finish_marking()` and
`MarkedArena::finalize` (the `finalize` callback may fetch and stash); a set is destroyed exactly
when its object is destructed (swept, or the arena dropped); other arenas and their sets act as an
environment.  Interleaved with arbitrary collector-model ops (`GOp.gc`).

Each clause is a `def X_statement : Prop` with `theorem X : X_statement`, for X =
`coupled_run`, `set_object_mirrors_table`, `stashed_survives_while_handle`,
`stashed_survives_in_window`, `not_in_set_after_last_drop`, `collectable_after_last_drop`,
`fetch_is_the_stashed_object`, `fetch_holds`, `set_destroyed_iff_object_destructed`,
`handles_outlive_arena` (plus the corollary `stashed_survives_pinned`):

* `coupled_run` — the coupling relation `GCoupled` holds after every operation sequence; it includes
  **a set of the arena is alive in the slot-table state iff its object is allocated and
  undestructed** (`set_destroyed_iff_object_destructed`).
* `stashed_survives_while_handle` — first half; hypotheses: `h` is a live handle, and its set object
  is accessible (strongly reachable from the root, or held) *in the state in question*.  Nothing
  about slots, pinning, capacity, or the slot-table state (that the set is alive there is derived:
  accessible ⇒ allocated and undestructed ⇒ not destroyed).
* `collectable_after_last_drop` — second half, stated **across** the drop of the last handle: the
  premise (every strong path from the root to `p` uses the edge set object → `p`) is about the state
  before the drop, the conclusions about the state after it.
* `fetch_is_the_stashed_object`, `fetch_holds` — `fetch` returns the content of the set object's slot.

What this rests on, beyond the two models (see the docstring of Proofs/DynReach.lean): one arena is
modelled in detail, the others as environment ops on their own sets; two transitions of the set
object are not `Arena.step`s (growing the slot list by an empty slot; clearing a slot — both
`reslot`, proved to preserve the collector invariant `Inv` in every state); handle ops are atomic
between collector-model ops — a drop inside a destructor during a sweep step is the history with the
call split after that step, justified by `DynReach.clear_commutes_sweepOne` (clearing commutes with
a sweep step on another object); `GSys` has no dynamic tie of its own (reading + the two component
ties); `ref_count` overflow and `Weak::as_ptr` stay trusted.

## Existing ops only: the pinned system (`GcArena.DynCompose`, Proofs/DynCompose.lean) — `…_partial`

The earlier composition: every coupled operation is a `DynRoots.Op` paired with a list of *existing*
`GcArena.Op`s, so the arena is literally `(Arena.new n).run ops` and `inv_run`, `C02.exactness_run`
apply verbatim.  Its theorems carry the suffix `_partial`; they hold under **R1** one arena, no
environment; **R2** every set object is stored directly in a root slot that is never overwritten;
**R3** the arena drop is a coupled op of its own; **R4** the set object has a fixed number `cap` of
slots and a `stash` needing index `≥ cap` is not a coupled operation; **R5** no client stores into
set objects; **R6** a handle dropped between `finish_marking()` and `MarkedArena::finalize` resets
the model's `marked` flag, so exactly the histories `finish_marking → drop(handle) → finalize(..)`
are excluded (every other placement of a handle drop is covered).  `drop_outside_callback_net_effect`
ties the two systems: the op-encoded drop has exactly the effect of the general system's `clearArena`.

`closure_accessible`, `stashed_survives` are the hypothesis-carrying lemmas both versions instantiate.
-/
namespace GcArena.C14s

open GcArena GcArena.DynCompose
open GcArena.DynRoots (Handle RootSet State)

private theorem closure_accessible {a : Arena} {p j : Nat} (hp : Accessible a p)
    (hj : AccessibleC a.ctx [] [Ptr.strong p] j) : Accessible a j := by
  induction hj with
  | root t h => cases h
  | temp t h =>
    simp only [List.mem_singleton, Ptr.strong.injEq] at h
    subst h; exact hp
  | edge i t _ e ih => exact .edge i t ih e

/-- If the set object `s` is accessible (held by the root, directly or not) and reports the stashed
    pointer `p` among its traced slots, then `p` and everything strongly reachable from `p` is
    allocated, undestructed and not condemned — after every operation sequence, in every phase. -/
theorem stashed_survives (n : Nat) (ops : List Op) (halive : ((Arena.new n).run ops).alive = true)
    (s p : Nat) (o : Obj) (hs : Accessible ((Arena.new n).run ops) s)
    (ho : ((Arena.new n).run ops).ctx.heap.get s = some o) (hp : some (Ptr.strong p) ∈ o.slots) :
    ∀ j, AccessibleC ((Arena.new n).run ops).ctx [] [Ptr.strong p] j → Safe ((Arena.new n).run ops).ctx j := by
  intro j hj
  have hi := inv_run n ops halive
  have hpa : Accessible ((Arena.new n).run ops) p := .edge s p hs ⟨o, ho, hp⟩
  exact hi.safe_of_accessible (closure_accessible hpa hj)


/-! # Full strength: the general system -/

section General
open GcArena.DynReach

/-- After every operation sequence of the general coupled system — from a fresh arena with `n` root
slots and the empty slot-table state — the coupling relation holds. -/
def coupled_run_statement : Prop :=
  ∀ (n : Nat) (ops : List GOp), GCoupled ((GSys.init n).run ops)

theorem coupled_run : coupled_run_statement :=
  fun n ops => (GCoupled.init n).run ops

/-- `GCoupled`, spelled out for one alive set of the arena: the arena exists; the set object is
allocated and undestructed; its slot list has exactly the table's length; slot `i` holds `r`
strongly iff table slot `i` is `Occupied { root = r, .. }`, and is empty iff it is `Vacant`; hence
its strong slots are exactly what `Collect for Slots` reports. -/
def set_object_mirrors_table_statement : Prop :=
  ∀ (n : Nat) (ops : List GOp) (S : GSys), S = (GSys.init n).run ops →
  ∀ (s x : Nat) (rs : RootSet), S.loc[s]? = some (some x) → S.d.liveSet s = some rs →
    S.a.alive = true ∧ Inv S.a ∧
    ∃ o, S.a.ctx.heap.get x = some o ∧ o.live = true ∧ o.slots = rs.slots.slots.map img ∧
      o.slots.length = rs.slots.slots.length ∧
      (∀ i r : Nat, o.slots[i]? = some (some (Ptr.strong r)) ↔
        ∃ c, rs.slots.slots[i]? = some (DynRoots.Slot.occupied r c)) ∧
      (∀ i : Nat, o.slots[i]? = some none ↔ ∃ nf, rs.slots.slots[i]? = some (DynRoots.Slot.vacant nf)) ∧
      (∀ p, some (Ptr.strong p) ∈ o.slots ↔ p ∈ rs.slots.traced)

theorem set_object_mirrors_table : set_object_mirrors_table_statement := by
  intro n ops S hS s x rs hloc hl
  have hc : GCoupled S := by rw [hS]; exact coupled_run n ops
  obtain ⟨hal, o, ho, hlive, _, hs⟩ := hc.sets s x rs hloc hl
  refine ⟨hal, hc.inv hal, o, ho, hlive, hs, by rw [hs]; simp, ?_, ?_, ?_⟩
  · intro i r
    rw [hs, List.getElem?_map]
    cases ht : rs.slots.slots[i]? with
    | none => simp
    | some y =>
      cases y with
      | vacant nf => simp [img]
      | occupied r' c => simp [img]
  · intro i
    rw [hs, List.getElem?_map]
    cases ht : rs.slots.slots[i]? with
    | none => simp
    | some y =>
      cases y with
      | vacant nf => simp [img]
      | occupied r' c => simp [img]
  · intro p; rw [hs]; exact mem_map_img

/-- **First half of C14, at full strength.**  In every state of every history of the general
system: for a live handle `h` of a set of the arena whose set object `x` the client can reach
(`Accessible`: strongly reachable from the root, or held by the running callback, or readable from
such an object) — the stashed object is accessible too, and it and everything strongly reachable
from it is allocated, undestructed and not condemned by the running sweep.  If `x` is strongly
reachable from the root alone, so is the stashed object.  No hypothesis about the slot-table state:
that the set is alive there follows from `x` being accessible (`GCoupled.alive_of_accessible`). -/
def stashed_survives_while_handle_statement : Prop :=
  ∀ (n : Nat) (ops : List GOp) (S : GSys), S = (GSys.init n).run ops →
  ∀ (h : Handle) (x : Nat), h ∈ S.d.handles → S.loc[h.set]? = some (some x) → Accessible S.a x →
    Accessible S.a h.ptr ∧ (StrongReach S.a x → StrongReach S.a h.ptr) ∧
    ∀ j, AccessibleC S.a.ctx [] [Ptr.strong h.ptr] j → Safe S.a.ctx j

theorem stashed_survives_while_handle : stashed_survives_while_handle_statement := by
  intro n ops S hS h x hm hloc hacc
  have hc : GCoupled S := by rw [hS]; exact coupled_run n ops
  obtain ⟨_, rs, hl⟩ := hc.alive_of_accessible hloc hacc
  obtain ⟨_, hinv, o, ho, _, _, _, _, _, hmem⟩ := set_object_mirrors_table n ops S hS h.set x rs hloc hl
  have htr : h.ptr ∈ rs.slots.traced := C14.traced_while_handle S.dops S.d hc.dyn h hm rs hl
  have hp : some (Ptr.strong h.ptr) ∈ o.slots := (hmem h.ptr).2 htr
  have hpa : Accessible S.a h.ptr := .edge x h.ptr hacc ⟨o, ho, hp⟩
  exact ⟨hpa, fun hr => .edge x h.ptr hr ⟨o, ho, hp⟩,
    fun j hj => hinv.safe_of_accessible (closure_accessible hpa hj)⟩

/-- The same over a window of a history: if after `pre` and after every further prefix of `win` the
handle is live and the set object accessible, then in each of those states the stashed object and
its closure are `Safe` — it survives every collection call, increment and handle operation in the
window. -/
def stashed_survives_in_window_statement : Prop :=
  ∀ (n : Nat) (pre win : List GOp) (h : Handle) (x : Nat),
    (∀ k, k ≤ win.length →
      h ∈ ((GSys.init n).run (pre ++ win.take k)).d.handles ∧
      ((GSys.init n).run (pre ++ win.take k)).loc[h.set]? = some (some x) ∧
      Accessible ((GSys.init n).run (pre ++ win.take k)).a x) →
    ∀ k, k ≤ win.length → ∀ j,
      AccessibleC ((GSys.init n).run (pre ++ win.take k)).a.ctx [] [Ptr.strong h.ptr] j →
      Safe ((GSys.init n).run (pre ++ win.take k)).a.ctx j

theorem stashed_survives_in_window : stashed_survives_in_window_statement := by
  intro n pre win h x hwin k hk
  obtain ⟨hm, hloc, hacc⟩ := hwin k hk
  exact (stashed_survives_while_handle n _ _ rfl h x hm hloc hacc).2.2

/-- The pinned case as a corollary: a set stored directly in a root slot. -/
theorem stashed_survives_pinned (n : Nat) (ops : List GOp) (S : GSys) (hS : S = (GSys.init n).run ops)
    (h : Handle) (x k : Nat) (hm : h ∈ S.d.handles)
    (hloc : S.loc[h.set]? = some (some x)) (hroot : S.a.root[k]? = some (some (.strong x))) :
    StrongReach S.a h.ptr ∧ ∀ j, AccessibleC S.a.ctx [] [Ptr.strong h.ptr] j → Safe S.a.ctx j := by
  have hr : StrongReach S.a x := .root x (List.mem_of_getElem? hroot)
  obtain ⟨_, h2, h3⟩ := stashed_survives_while_handle n ops S hS h x hm hloc hr.accessible
  exact ⟨h2 hr, h3⟩

/-- Strongly reachable from the root by a path that does not use the edge `x → p`. -/
inductive ReachAvoiding (c : Ctx) (root : List Slot) (x p : Nat) : Nat → Prop
  | root (t) : some (Ptr.strong t) ∈ root → ReachAvoiding c root x p t
  | edge (i t) : ReachAvoiding c root x p i → StrongEdge c i t → ¬ (i = x ∧ t = p) →
      ReachAvoiding c root x p t



/-- Once no live handle of the alive set `s` has pointer `p`, the set object holds `p` in none of its
slots. -/
def not_in_set_after_last_drop_statement : Prop :=
  ∀ (n : Nat) (ops : List GOp) (S : GSys), S = (GSys.init n).run ops →
  ∀ (s p x : Nat) (rs : RootSet), S.loc[s]? = some (some x) → S.d.liveSet s = some rs →
    (∀ h ∈ S.d.handles, h.set = s → h.ptr ≠ p) →
    ∀ o, S.a.ctx.heap.get x = some o → some (Ptr.strong p) ∉ o.slots

theorem not_in_set_after_last_drop : not_in_set_after_last_drop_statement := by
  intro n ops S hS s p x rs hloc hl hnone o ho hp
  have hc : GCoupled S := by rw [hS]; exact coupled_run n ops
  obtain ⟨_, _, o', ho', _, _, _, _, _, hmem⟩ := set_object_mirrors_table n ops S hS s x rs hloc hl
  rw [ho] at ho'; cases ho'
  exact C14.untraced_after_last_drop S.dops S.d hc.dyn s p rs hl hnone ((hmem p).1 hp)

private theorem grun_snoc (ops : List GOp) (op : GOp) : ∀ S : GSys,
    (S.run ops).step op = S.run (ops ++ [op]) := by
  induction ops with
  | nil => intro S; rfl
  | cons o ops ih => intro S; simp only [List.cons_append, GSys.run]; exact ih _

/-- What the coupled `dropHandle h` of a live handle does: the slot-table side is the DynRoots step;
the arena keeps root, callback state and existence, and gains no strong edge (the set object loses
one if this was the last handle of its slot). -/
private theorem drop_step_spec (S : GSys) {h : Handle} (hm : h ∈ S.d.handles) :
    (S.step (.dropHandle h)).d = DynRoots.next S.d (.dropHandle h) ∧
    (S.step (.dropHandle h)).loc = S.loc ∧ (S.step (.dropHandle h)).a.root = S.a.root ∧
    (S.step (.dropHandle h)).a.cb = S.a.cb ∧ (S.step (.dropHandle h)).a.alive = S.a.alive ∧
    ∀ j t, StrongEdge (S.step (.dropHandle h)).a.ctx j t → StrongEdge S.a.ctx j t := by
  simp only [GSys.step, hm, if_true]
  have same : ∀ T : GSys, T = S.doD (.dropHandle h) →
      T.d = DynRoots.next S.d (.dropHandle h) ∧ T.loc = S.loc ∧ T.a.root = S.a.root ∧
      T.a.cb = S.a.cb ∧ T.a.alive = S.a.alive ∧
      ∀ j t, StrongEdge T.a.ctx j t → StrongEdge S.a.ctx j t := by
    intro T e; subst e; exact ⟨rfl, rfl, rfl, rfl, rfl, fun _ _ he => he⟩
  split
  · rename_i x rs _ _
    split
    · refine ⟨rfl, rfl, rfl, rfl, rfl, ?_⟩
      rintro j t ⟨o', ho', hp⟩
      change (Arena.setSlot S.a.ctx x h.index none).heap.get j = some o' at ho'
      rw [setSlot_get] at ho'
      split at ho'
      · exact ⟨o', ho', hp⟩
      · rename_i o ho
        by_cases hj : j = x
        · rw [if_pos hj] at ho'; cases ho'
          refine ⟨o, by rw [hj]; exact ho, ?_⟩
          rcases mem_set_slot hp with h1 | h1
          · exact h1
          · cases h1
        · rw [if_neg hj] at ho'; exact ⟨o', ho', hp⟩
    · exact same _ rfl
  · exact same _ rfl

/-- **Second half of C14, at full strength — across the drop.**  `h` is a live handle of a set of the
arena (set object `x`), and the *last* live handle of that set for the object `p = h.ptr`; the arena
exists and no callback is running.  Premise, in the state **before** the drop (where the edge
`x → p` exists if the set is alive): every strong path from the root to `p` goes through that edge.
Then in the state `S'` after `dropHandle h`: `p` is not strongly reachable from the root, and after
two `arena.finish_cycle()` calls (ops `gfc`, i.e. two `.collect .finishCycle` ops of the collector
model, each followed by `sync`) `p` is no longer an allocated undestructed object (`C02.exactness`). -/
def collectable_after_last_drop_statement : Prop :=
  ∀ (n : Nat) (ops : List GOp) (S : GSys), S = (GSys.init n).run ops →
  ∀ (h : Handle) (x : Nat), h ∈ S.d.handles → S.loc[h.set]? = some (some x) →
    (∀ h' ∈ S.d.handles.erase h, h'.set = h.set → h'.ptr ≠ h.ptr) →
    S.a.alive = true → S.a.cb = none →
    ¬ ReachAvoiding S.a.ctx S.a.root x h.ptr h.ptr →
    ¬ StrongReach (S.step (.dropHandle h)).a h.ptr ∧
    (((S.step (.dropHandle h)).step gfc).step gfc).a.ctx =
      C02.finishCycle2 (S.step (.dropHandle h)).a.ctx (S.step (.dropHandle h)).a.root ∧
    ¬ ∃ o, (((S.step (.dropHandle h)).step gfc).step gfc).a.ctx.heap.get h.ptr = some o ∧ o.live = true

theorem collectable_after_last_drop : collectable_after_last_drop_statement := by
  intro n ops S hS h x hm hloc hlast hal hcb hother
  have hc : GCoupled S := by rw [hS]; exact coupled_run n ops
  obtain ⟨d', l', r', cb', al', esub⟩ := drop_step_spec S hm
  generalize hS' : S.step (.dropHandle h) = S' at d' l' r' cb' al' esub ⊢
  have hS'run : S' = (GSys.init n).run (ops ++ [.dropHandle h]) := by
    rw [← hS', hS]; exact grun_snoc ops _ _
  have hc' : GCoupled S' := by rw [hS'run]; exact coupled_run n _
  have hal' : S'.a.alive = true := by rw [al']; exact hal
  have hcb' : S'.a.cb = none := by rw [cb']; exact hcb
  have hinv' := hc'.inv hal'
  -- in `S'` the set object does not hold `p`
  have hnoedge : ¬ StrongEdge S'.a.ctx x h.ptr := by
    rintro ⟨o, ho, hp⟩
    have hloc' : S'.loc[h.set]? = some (some x) := by rw [l']; exact hloc
    cases hl : S.d.liveSet h.set with
    | some rs =>
      -- the set is alive: it stays alive, the handle is gone, so the table no longer reports `p`
      obtain ⟨rs', hrs'⟩ := next_alive S.d (.dropHandle h) h.set rs (by intro e; cases e) hl
      rw [← d'] at hrs'
      obtain ⟨_, hdec⟩ := (C14.no_panic_slots S.dops S.d hc.dyn h.set rs hl).2 h hm rfl
      obtain ⟨sl, hsl⟩ := hdec
      have hh : S'.d.handles = S.d.handles.erase h := by
        rw [d']; simp [DynRoots.next, DynRoots.step, hm, hl, hsl]
      exact not_in_set_after_last_drop n _ S' hS'run h.set h.ptr x rs' hloc' hrs'
        (fun h' hm' => by rw [hh] at hm'; exact hlast h' hm') o ho hp
    | none =>
      -- the set was destroyed: its object is gone or a destructed shell without slots
      have hnl : S'.d.liveSet h.set = none := by
        rw [d']
        exact (C14.destroyed_forever S.d h.set
          (by rw [← hc.len]; exact (List.getElem?_eq_some_iff.1 hloc).1) hl [.dropHandle h]).1
      have hno : objLive S'.a x = false := by
        cases hv : objLive S'.a x with
        | false => rfl
        | true =>
          obtain ⟨rs, hrs⟩ := hc'.live h.set x hloc' hv
          rw [hnl] at hrs; cases hrs
      cases hlv : o.live with
      | true =>
        have : objLive S'.a x = true := objLive_iff.2 ⟨hal', o, ho, hlv⟩
        rw [hno] at this; cases this
      | false =>
        rw [hinv'.cinv.deadNoSlots x o ho hlv] at hp; cases hp
  have havoid : ∀ j, StrongReach S'.a j → ReachAvoiding S.a.ctx S.a.root x h.ptr j := by
    intro j hj
    induction hj with
    | root t ht => exact .root t (by rw [← r']; exact ht)
    | temp t ht => cases ht
    | edge i t _ e ih =>
      refine .edge i t ih (esub i t e) ?_
      rintro ⟨rfl, rfl⟩
      exact hnoedge e
  have hunreach : ¬ StrongReach S'.a h.ptr := fun hr => hother (havoid _ hr)
  obtain ⟨c1, r1, cb1, al1⟩ := hc'.finishCycle hal' hcb'
  obtain ⟨c2, _, _, _⟩ := (hc'.step gfc).finishCycle al1 cb1
  have hctx : ((S'.step gfc).step gfc).a.ctx = C02.finishCycle2 S'.a.ctx S'.a.root := by
    rw [c2, c1, r1]; rfl
  refine ⟨hunreach, hctx, ?_⟩
  rw [hctx]
  intro hex
  exact hunreach ((C02.exactness _ _ (cinv0 hinv' hcb') h.ptr).mp hex)

/-- **`fetch` returns the very object that was stashed.**  For a live handle `h` of the set `s` of the
arena that issued it, the set object `x` being accessible (the client calls `set.fetch(&h)` through
the set pointer): `fetch` answers `h.ptr`, and `h.ptr` is what slot `h.index` of the set object
holds. -/
def fetch_is_the_stashed_object_statement : Prop :=
  ∀ (n : Nat) (ops : List GOp) (S : GSys), S = (GSys.init n).run ops →
  ∀ (s x : Nat) (h : Handle), S.loc[s]? = some (some x) → Accessible S.a x →
    h ∈ S.d.handles → h.set = s →
    DynRoots.step S.d (.fetch s h) = .ok S.d (.ptr h.ptr) ∧
    ∃ o, S.a.ctx.heap.get x = some o ∧ o.slots[h.index]? = some (some (.strong h.ptr))

theorem fetch_is_the_stashed_object : fetch_is_the_stashed_object_statement := by
  intro n ops S hS s x h hloc hacc hm hs
  have hc : GCoupled S := by rw [hS]; exact coupled_run n ops
  obtain ⟨_, rs, hl⟩ := hc.alive_of_accessible hloc hacc
  obtain ⟨hf, _, _, hocc, _⟩ := (C14.fetch_identity S.dops S.d hc.dyn s rs h hl hm).1 hs
  obtain ⟨_, _, o, ho, _, _, _, hiff, _, _⟩ := set_object_mirrors_table n ops S hS s x rs hloc hl
  exact ⟨hf, o, ho, (hiff h.index h.ptr).2 hocc⟩

/-- The coupled `fetch` inside a callback (of any kind, `finalize` included) that holds the set
pointer: the read is accepted and returns the stashed pointer, which the callback then holds — hence
it is `Safe`; heap, root and tables are unchanged. -/
def fetch_holds_statement : Prop :=
  ∀ (n : Nat) (ops : List GOp) (S : GSys), S = (GSys.init n).run ops →
  ∀ (s x : Nat) (h : Handle), S.loc[s]? = some (some x) → h ∈ S.d.handles → h.set = s →
    S.a.alive = true → S.a.cb ≠ none → S.a.holds (.strong x) = true →
    (S.step (.fetch s h)).a.holds (.strong h.ptr) = true ∧
    (S.step (.fetch s h)).a.ctx = S.a.ctx ∧ (S.step (.fetch s h)).a.root = S.a.root ∧
    (S.step (.fetch s h)).d = S.d ∧ Safe (S.step (.fetch s h)).a.ctx h.ptr

theorem fetch_holds : fetch_holds_statement := by
  intro n ops S hS s x h hloc hm hs hal hcb hx
  have hc : GCoupled S := by rw [hS]; exact coupled_run n ops
  have hacc : Accessible S.a x := .temp x ((holds_iff _ _).1 hx)
  obtain ⟨_, rs, hl⟩ := hc.alive_of_accessible hloc hacc
  obtain ⟨_, o, ho, hslot⟩ := fetch_is_the_stashed_object n ops S hS s x h hloc hacc hm hs
  have hcs : S.a.cb.isSome = true := by cases hx : S.a.cb <;> simp_all
  have hcont : DynRoots.containsB s h = true := by simp [DynRoots.containsB, hs]
  have e : S.step (.fetch s h) =
      ({ S with a := (S.a.step (.read x h.index)).1 } : GSys).doD (.fetch s h) := by
    simp [GSys.step, GSys.fetchLike, hloc, hal, hcs, hx, hm, hl, hcont]
  have hc' : GCoupled (S.step (.fetch s h)) := hc.step _
  have e1 := step_read (a := S.a) (x := x) (i := h.index) (o := o) (q := .strong h.ptr) hal hcb hx ho hslot
  obtain ⟨c1, c2, _, _, _, c6, _, _⟩ := ({ S.a with marked := false } : Arena).push_spec (.strong h.ptr)
  rw [e] at hc' ⊢
  have hh : (S.a.step (.read x h.index)).1.holds (.strong h.ptr) = true := by
    rw [e1]; exact holds_push_self _ _
  refine ⟨hh, ?_, ?_, DynRoots.next_fetch _ _ _, ?_⟩
  · show (S.a.step (.read x h.index)).1.ctx = S.a.ctx
    rw [e1, c1]
  · show (S.a.step (.read x h.index)).1.root = S.a.root
    rw [e1, c2]
  · have hal' : (S.a.step (.read x h.index)).1.alive = true := by rw [e1, c6]; exact hal
    exact (hc'.inv hal').ptrOK_of_holds (p := .strong h.ptr) hh

/-- **A set of the arena is alive in the slot-table state iff its object is allocated and
undestructed** (and the arena exists); and a collector-model op that destructs the object of a set
(a sweep step reaching it, or the arena drop) destroys the set in the same step of the general
system. -/
def set_destroyed_iff_object_destructed_statement : Prop :=
  ∀ (n : Nat) (ops : List GOp) (S : GSys), S = (GSys.init n).run ops →
  ∀ (s x : Nat), S.loc[s]? = some (some x) →
    ((∃ rs, S.d.liveSet s = some rs) ↔ objLive S.a x = true) ∧
    (S.d.liveSet s = none ↔ objLive S.a x = false) ∧
    (∀ op, S.allowed op = true → objLive (S.a.step op).1 x = false →
      (S.step (.gc op)).d.liveSet s = none)

theorem set_destroyed_iff_object_destructed : set_destroyed_iff_object_destructed_statement := by
  intro n ops S hS s x hloc
  have hc : GCoupled S := by rw [hS]; exact coupled_run n ops
  have hiff := hc.alive_iff hloc
  refine ⟨hiff, ?_, ?_⟩
  · constructor
    · intro hn
      cases hv : objLive S.a x with
      | false => rfl
      | true => obtain ⟨rs, hrs⟩ := hiff.2 hv; rw [hn] at hrs; cases hrs
    · intro hv
      cases hl : S.d.liveSet s with
      | none => rfl
      | some rs => rw [hiff.1 ⟨rs, hl⟩] at hv; cases hv
  · intro op hal hdead
    have hc' : GCoupled (S.step (.gc op)) := hc.step _
    have e : S.step (.gc op) = ({ S with a := (S.a.step op).1 } : GSys).sync := by
      simp [GSys.step, hal]
    have hloc' : (S.step (.gc op)).loc[s]? = some (some x) := by
      rw [e]; unfold GSys.sync; rw [(GSys.doDs_spec _ _).2.1]; exact hloc
    have ha : (S.step (.gc op)).a = (S.a.step op).1 := by rw [e, GSys.sync_a]
    cases hl : (S.step (.gc op)).d.liveSet s with
    | none => rfl
    | some rs =>
      have := (hc'.alive_iff hloc').1 ⟨rs, hl⟩
      rw [ha, hdead] at this; cases this

/-- Handles outlive their arena harmlessly: once the arena has been dropped, no set of the arena is
alive, so cloning or dropping a handle of such a set only adds / removes the handle, and `fetch`
on such a set is not a call a client can make. -/
def handles_outlive_arena_statement : Prop :=
  ∀ (n : Nat) (ops : List GOp) (S : GSys), S = (GSys.init n).run ops →
  S.a.alive = false → ∀ (h : Handle) (x : Nat), h ∈ S.d.handles → S.loc[h.set]? = some (some x) →
    S.d.liveSet h.set = none ∧
    DynRoots.step S.d (.clone h) = .ok { S.d with handles := h :: S.d.handles } (.handle h) ∧
    DynRoots.step S.d (.dropHandle h) = .ok { S.d with handles := S.d.handles.erase h } .unit ∧
    DynRoots.step S.d (.fetch h.set h) = .illFormed

theorem handles_outlive_arena : handles_outlive_arena_statement := by
  intro n ops S hS hdead h x hm hloc
  have hc : GCoupled S := by rw [hS]; exact coupled_run n ops
  have hnone : S.d.liveSet h.set = none := by
    cases hl : S.d.liveSet h.set with
    | none => rfl
    | some rs =>
      obtain ⟨hal, _⟩ := hc.sets h.set x rs hloc hl
      rw [hdead] at hal; cases hal
  obtain ⟨h1, h2⟩ := C14.outlive S.d h hm hnone
  exact ⟨hnone, h1, h2, by simp [DynRoots.step, hm, hnone]⟩

/-! ### Non-vacuity of the general system (evaluated by the kernel) -/

/-- Root → object 0 → set object 1 (the set is **not** in a root slot); object 2 stashed (the slot list
grows from `[]`); `finish_marking` keeping the `MarkedArena`; the only handle of object 2 is dropped
**while the `MarkedArena` is outstanding**; the `finalize` callback reads its way to the set, stashes
a fresh white object 3 into the black set (slot 0 is reused) and fetches it; two `finish_cycle`
calls; then the set is unlinked from object 0 and two more `finish_cycle` calls sweep it. -/
def gdemo : List GOp := [
  .gc (.enter .mutateRoot), .gc (.alloc true [none]), .gc (.rootStore 0 (some (.strong 0))),
  .newSet, .gc (.store .write 0 0 (some (.strong 1))),
  .gc (.alloc true [none]), .stash 0 2, .gc .leave,
  .gc (.collect .finishMarking .finalize none none),
  .dropHandle ⟨0, 0, 2, 0⟩,
  .gc (.enter .finalize), .gc (.readRoot 0), .gc (.read 0 0), .gc (.alloc true [none]), .stash 0 3,
  .fetch 0 ⟨0, 0, 3, 1⟩, .gc .leave,
  gfc, gfc,
  .gc (.enter .mutate), .gc (.readRoot 0), .gc (.store .write 0 0 none), .gc .leave,
  gfc, gfc]

/-- growth: the set object starts with no slot and has one after the first stash -/
example : ((GSys.init 1).run (gdemo.take 4)).a.ctx.heap.get 1 = some ⟨.white, true, true, []⟩ ∧
    ((GSys.init 1).run (gdemo.take 7)).a.ctx.heap.get 1 =
      some ⟨.white, true, true, [some (.strong 2)]⟩ ∧
    ((GSys.init 1).run (gdemo.take 7)).a.root = [some (.strong 0)] := by decide

/-- the drop while the `MarkedArena` is outstanding: the slot is cleared, `marked` stays set, phase
`Mark`, everything black -/
example : ((GSys.init 1).run (gdemo.take 10)).a.marked = true ∧
    ((GSys.init 1).run (gdemo.take 10)).a.ctx.heap.get 1 = some ⟨.black, true, true, [none]⟩ ∧
    ((GSys.init 1).run (gdemo.take 10)).d.handles = [] := by decide

/-- the `finalize` callback is accepted and stashes / fetches: slot 0 is reused for object 3, the
black set object is re-grayed by the barrier, the fetched pointer is held -/
example : ((GSys.init 1).run (gdemo.take 16)).a.cb = some .finalize ∧
    ((GSys.init 1).run (gdemo.take 16)).a.ctx.heap.get 1 =
      some ⟨.gray, true, true, [some (.strong 3)]⟩ ∧
    ((GSys.init 1).run (gdemo.take 16)).a.temps = [.strong 3, .strong 1, .strong 0] ∧
    ((GSys.init 1).run (gdemo.take 16)).d.handles = [⟨0, 0, 3, 1⟩] := by decide

/-- two `finish_cycle` calls: object 2 (last handle dropped) is destructed and released; object 3
(handle alive, set reachable through object 0) survives -/
example : ((GSys.init 1).run (gdemo.take 19)).a.ctx.heap.get 2 = none ∧
    ((GSys.init 1).run (gdemo.take 19)).a.ctx.log = [.freed 2, .dropped 2] ∧
    ((GSys.init 1).run (gdemo.take 19)).a.ctx.heap.get 3 = some ⟨.white, true, true, [none]⟩ := by
  decide

/-- once the set is unlinked, the next cycles sweep the set object: the set is destroyed in that
step; the handle outlives it; the stashed object 3 goes with the set -/
example : ((GSys.init 1).run gdemo).a.ctx.heap.get 1 = none ∧
    ((GSys.init 1).run gdemo).a.ctx.heap.get 3 = none ∧
    ((GSys.init 1).run gdemo).d.liveSet 0 = none ∧
    ((GSys.init 1).run gdemo).d.handles = [⟨0, 0, 3, 1⟩] ∧
    ((GSys.init 1).run gdemo).a.ctx.err = none := by decide

/-- `stashed_survives_while_handle` applies in the state after the `finalize` callback's stash: the
set object 1 is reachable (root → 0 → 1), not pinned; object 3 is white, the set was black. -/
example : Safe ((GSys.init 1).run (gdemo.take 15)).a.ctx 3 :=
  (stashed_survives_while_handle 1 (gdemo.take 15) _ rfl ⟨0, 0, 3, 1⟩ 1 (by decide) (by decide)
    (.temp 1 (by decide))).2.2 3 (.temp 3 (by simp))

/-- The state before the drop of the only handle of object 2 (`gdemo` op 10): root → 0 → set object 1
→ 2, the `MarkedArena` outstanding. -/
def beforeDrop : GSys := (GSys.init 1).run (gdemo.take 9)

/-- In `beforeDrop` every strong path from the root to object 2 goes through the edge 1 → 2. -/
theorem beforeDrop_only_via_set : ¬ ReachAvoiding beforeDrop.a.ctx beforeDrop.a.root 1 2 2 := by
  have key : ∀ j, ReachAvoiding beforeDrop.a.ctx beforeDrop.a.root 1 2 j → j = 0 ∨ j = 1 := by
    intro j hj
    induction hj with
    | root t ht =>
      have : beforeDrop.a.root = [some (.strong 0)] := by decide
      rw [this] at ht; simp at ht; exact .inl ht
    | edge i t _ e hne ih =>
      obtain ⟨o, ho, hp⟩ := e
      rcases ih with rfl | rfl
      · have : beforeDrop.a.ctx.heap.get 0 = some ⟨.black, true, true, [some (.strong 1)]⟩ := by decide
        rw [this] at ho; cases ho; simp at hp; exact .inr hp
      · have : beforeDrop.a.ctx.heap.get 1 = some ⟨.black, true, true, [some (.strong 2)]⟩ := by decide
        rw [this] at ho; cases ho; simp at hp
        exact absurd ⟨rfl, hp⟩ hne
  intro h
  rcases key 2 h with h | h <;> cases h

/-- `collectable_after_last_drop` applies across that drop: afterwards object 2 is not strongly
reachable, and two `finish_cycle` calls leave it neither allocated nor undestructed. -/
example :
    ¬ ∃ o, (((beforeDrop.step (.dropHandle ⟨0, 0, 2, 0⟩)).step gfc).step gfc).a.ctx.heap.get 2 = some o ∧
      o.live = true :=
  (collectable_after_last_drop 1 (gdemo.take 9) beforeDrop rfl ⟨0, 0, 2, 0⟩ 1 (by decide) (by decide)
    (by decide) (by decide) (by decide) beforeDrop_only_via_set).2.2

/-- environment: a set of another arena, a stash into it, a foreign handle presented to this arena's
set is refused (`C14.fetch_identity`), and the relation is unaffected -/
example :
    let S := (GSys.init 1).run (gdemo.take 8 ++ [.envNewSet, .envStash 1 77])
    S.loc = [some 1, none] ∧ S.d.handles = [⟨1, 0, 77, 1⟩, ⟨0, 0, 2, 0⟩] ∧
    DynRoots.step S.d (.fetch 0 ⟨1, 0, 77, 1⟩) = .panic .mismatchedRootSet ∧
    S.a.ctx.heap.get 1 = some ⟨.white, true, true, [some (.strong 2)]⟩ := by decide

end General

/-! # Existing ops only: the pinned system (`…_partial`, restrictions R1–R6) -/

/-! ## The coupling relation is an invariant -/

/-- **`coupled_run_partial`.**  After every coupled operation sequence from the initial coupled state (a
fresh arena with `n` root slots, `DynRoots.State.init`, no sets — sets are created by the coupled
op `newSet`, which allocates the set object and stores it in a root slot): both sides are runs of
the two existing models, and every set object mirrors its slot table.
Restricted form — pinned system of Proofs/DynCompose.lean, restrictions R1–R6 of the module docstring; full strength: `coupled_run`. -/
theorem coupled_run_partial (n : Nat) (ops : List COp) : Coupled n ((Sys.init n).run ops) :=
  (Coupled.init n).run ops

/-- `Coupled`, spelled out for one alive set: the root slot holds the set object; the set object is
allocated, undestructed, has `cap` slots; **slot `i` is `some (strong r)` iff table slot `i` is
`Occupied { root = r, .. }`**, else `none`; hence its strong slots are exactly `Slots.traced`.
Restricted form — pinned system of Proofs/DynCompose.lean, restrictions R1–R6 of the module docstring; full strength: `set_object_mirrors_table`. -/
theorem set_object_mirrors_table_partial (n : Nat) (ops : List COp) (S : Sys) (hS : S = (Sys.init n).run ops)
    (s : Nat) (rs : RootSet) (hl : S.d.liveSet s = some rs) :
    ∃ l o, S.loc[s]? = some l ∧ S.a.root[l.slot]? = some (some (.strong l.id)) ∧
      S.a.ctx.heap.get l.id = some o ∧ o.live = true ∧ o.slots.length = l.cap ∧
      rs.slots.slots.length ≤ l.cap ∧
      (∀ i r : Nat, o.slots[i]? = some (some (Ptr.strong r)) ↔
        ∃ c, rs.slots.slots[i]? = some (DynRoots.Slot.occupied r c)) ∧
      (∀ i : Nat, i < l.cap →
        (o.slots[i]? = some none ↔ ∀ r c, rs.slots.slots[i]? ≠ some (DynRoots.Slot.occupied r c))) ∧
      (∀ p, some (Ptr.strong p) ∈ o.slots ↔ p ∈ rs.slots.traced) := by
  subst hS
  have hc := (coupled_run_partial n ops).live_of_liveSet hl
  obtain ⟨hsets, _⟩ := DynRoots.liveSet_eq_some.1 hl
  have hlt : s < ((Sys.init n).run ops).loc.length := by
    rw [hc.len]; exact (List.getElem?_eq_some_iff.1 hsets).1
  obtain ⟨hh, hle⟩ := hc.sets s _ rs (List.getElem?_eq_getElem hlt) hsets
  obtain ⟨o, ho, hlive, _, hslots⟩ := hh.obj
  refine ⟨_, o, List.getElem?_eq_getElem hlt, hh.root, ho, hlive, by rw [hslots, mirror_length], hle,
    ?_, ?_, ?_⟩
  · intro i r
    rw [hslots]
    constructor
    · intro hi
      have hic : i < (((Sys.init n).run ops).loc[s]).cap := by
        have := (List.getElem?_eq_some_iff.1 hi).1; rwa [mirror_length] at this
      rw [mirror_get hic] at hi
      cases ht : rs.slots.slots[i]? with
      | none => rw [ht] at hi; simp [image] at hi
      | some x =>
        rw [ht] at hi
        cases x with
        | vacant nf => simp [image] at hi
        | occupied r' c => simp [image] at hi; subst hi; exact ⟨c, rfl⟩
    · rintro ⟨c, hv⟩
      have hil : i < rs.slots.slots.length := (List.getElem?_eq_some_iff.1 hv).1
      rw [mirror_get (by omega), hv]; rfl
  · intro i hi
    rw [hslots, mirror_get hi]
    cases ht : rs.slots.slots[i]? with
    | none => simp [image]
    | some x =>
      cases x with
      | vacant nf => simp [image]
      | occupied r' c => simp [image]
  · intro p; rw [hslots]; exact mem_mirror hle

/-! ## First half: a stashed object survives while a handle exists -/

/-- While the arena exists, every set object is strongly reachable from the root (restriction R2
makes this hold by construction; it is the property's premise "a DynamicRootSet that is reachable
from the root").
Restricted form — pinned system of Proofs/DynCompose.lean, restrictions R1–R6 of the module docstring. -/
theorem set_reachable_partial (n : Nat) (ops : List COp) (S : Sys) (hS : S = (Sys.init n).run ops)
    (halive : S.a.alive = true) (s : Nat) (l : SetLoc) (hl : S.loc[s]? = some l) :
    StrongReach S.a l.id := by
  subst hS
  have hc := (coupled_run_partial n ops).live halive
  have hs : s < ((Sys.init n).run ops).d.sets.length := by
    rw [← hc.len]; exact (List.getElem?_eq_some_iff.1 hl).1
  exact (hc.sets s l _ hl (List.getElem?_eq_getElem hs)).1.reach

/-- **`stashed_survives_while_handle_partial`.**  In every state of every coupled history — any
interleaving of `newSet` / `stash` / `clone` / `dropHandle` / `fetch` with allocation, stores,
barriers and collection calls of every kind, in every phase: if `h` is a live handle of an alive
set, then the stashed object `h.ptr` is strongly reachable from the root, and it and everything
strongly reachable from it is allocated, undestructed and not condemned by the running sweep.
No hypothesis about slots: that the set object holds `h.ptr` is `Coupled` + `C14.traced_while_handle`.
Restricted form — pinned system of Proofs/DynCompose.lean, restrictions R1–R6 of the module docstring; full strength: `stashed_survives_while_handle`. -/
theorem stashed_survives_while_handle_partial (n : Nat) (ops : List COp) (S : Sys)
    (hS : S = (Sys.init n).run ops) (h : Handle) (hm : h ∈ S.d.handles) (rs : RootSet)
    (hl : S.d.liveSet h.set = some rs) :
    StrongReach S.a h.ptr ∧ ∀ j, AccessibleC S.a.ctx [] [Ptr.strong h.ptr] j → Safe S.a.ctx j := by
  obtain ⟨l, o, hloc, _, ho, _, _, _, _, _, hmem⟩ := set_object_mirrors_table_partial n ops S hS h.set rs hl
  have hc : Live n S := (show Coupled n S by rw [hS]; exact coupled_run_partial n ops).live_of_liveSet hl
  have htr : h.ptr ∈ rs.slots.traced := C14.traced_while_handle S.dops S.d hc.dyn h hm rs hl
  have hp : some (Ptr.strong h.ptr) ∈ o.slots := (hmem h.ptr).2 htr
  have hreach := set_reachable_partial n ops S hS hc.alive h.set l hloc
  refine ⟨.edge l.id h.ptr hreach ⟨o, ho, hp⟩, ?_⟩
  have harena := hc.arena
  have halive : ((Arena.new n).run S.aops).alive = true := by rw [← harena]; exact hc.alive
  have := stashed_survives n S.aops halive l.id h.ptr o
    (by rw [← harena]; exact hreach.accessible) (by rw [← harena]; exact ho) hp
  rw [← harena] at this
  exact this

/-! ## Second half: collectable once the last handle is dropped -/

/-- Once no live handle of set `s` has pointer `p`, the set object holds `p` in none of its slots
(`C14.untraced_after_last_drop` + `Coupled`).
Restricted form — pinned system of Proofs/DynCompose.lean, restrictions R1–R6 of the module docstring; full strength: `not_in_set_after_last_drop`. -/
theorem not_in_set_after_last_drop_partial (n : Nat) (ops : List COp) (S : Sys) (hS : S = (Sys.init n).run ops)
    (s p : Nat) (rs : RootSet) (hl : S.d.liveSet s = some rs)
    (hnone : ∀ h ∈ S.d.handles, h.set = s → h.ptr ≠ p) (l : SetLoc) (hloc : S.loc[s]? = some l)
    (o : Obj) (ho : S.a.ctx.heap.get l.id = some o) : some (Ptr.strong p) ∉ o.slots := by
  obtain ⟨l', o', hloc', _, ho', _, _, _, _, _, hmem⟩ := set_object_mirrors_table_partial n ops S hS s rs hl
  rw [hloc] at hloc'; cases hloc'
  rw [ho] at ho'; cases ho'
  have hc : Live n S := (show Coupled n S by rw [hS]; exact coupled_run_partial n ops).live_of_liveSet hl
  intro hp
  exact C14.untraced_after_last_drop S.dops S.d hc.dyn s p rs hl hnone ((hmem p).1 hp)

/-- **`collectable_after_last_drop_partial`.**  Outside callbacks, once no live handle of set `s` has pointer
`p`: if `p` is not strongly reachable from the root by any route other than the edge
"set object of `s` → `p`", then `p` is not strongly reachable at all, and after two
`arena.finish_cycle()` calls (the coupled ops `fc`, i.e. two `.collect .finishCycle` ops of the
collector model) `p` is no longer an allocated undestructed object (`C02.exactness_run`); the two
calls touch neither the slot tables nor the handles.
Restricted form — pinned system of Proofs/DynCompose.lean, restrictions R1–R6 of the module docstring; full strength: `collectable_after_last_drop`. -/
theorem collectable_after_last_drop_partial (n : Nat) (ops : List COp) (S : Sys) (hS : S = (Sys.init n).run ops)
    (s p : Nat) (rs : RootSet) (hl : S.d.liveSet s = some rs)
    (hnone : ∀ h ∈ S.d.handles, h.set = s → h.ptr ≠ p) (l : SetLoc) (hloc : S.loc[s]? = some l)
    (hcb : S.a.cb = none) (hother : ¬ ReachAvoiding S.a.ctx S.a.root l.id p p) :
    ¬ StrongReach S.a p ∧
    ((S.step fc).step fc).a =
      S.a.run [.collect .finishCycle .drop none none, .collect .finishCycle .drop none none] ∧
    ((S.step fc).step fc).d = S.d ∧
    ¬ ∃ o, ((S.step fc).step fc).a.ctx.heap.get p = some o ∧ o.live = true := by
  have hc : Live n S := (show Coupled n S by rw [hS]; exact coupled_run_partial n ops).live_of_liveSet hl
  have hnot := not_in_set_after_last_drop_partial n ops S hS s p rs hl hnone l hloc
  have havoid : ∀ j, StrongReach S.a j → ReachAvoiding S.a.ctx S.a.root l.id p j := by
    intro j hj
    induction hj with
    | root t ht => exact .root t ht
    | temp t ht => cases ht
    | edge i t _ e ih =>
      refine .edge i t ih e ?_
      rintro ⟨rfl, rfl⟩
      obtain ⟨o, ho, hp⟩ := e
      exact hnot o ho hp
  have hunreach : ¬ StrongReach S.a p := fun hr => hother (havoid p hr)
  have ha : ((S.step fc).step fc).a =
      S.a.run [.collect .finishCycle .drop none none, .collect .finishCycle .drop none none] := by
    simp [Sys.step, fc, Sys.allowed, Sys.doA, Arena.run]
  have hd : ((S.step fc).step fc).d = S.d := by
    simp [Sys.step, fc, Sys.allowed, Sys.doA]
  refine ⟨hunreach, ha, hd, ?_⟩
  rw [ha]
  have harena := hc.arena
  have hex := C02.exactness_run n S.aops
  simp only at hex
  rw [← harena] at hex
  intro hlive
  exact hunreach (((hex hc.alive hcb).2.2 p).mp hlive)

/-! ## fetch -/

/-- **`fetch_is_the_stashed_object_partial`.**  For a live handle `h` of the alive set `s` that issued it:
`fetch` answers `h.ptr`, and `h.ptr` is what slot `h.index` of the set object holds
(`C14.fetch_identity` + `Coupled`).
Restricted form — pinned system of Proofs/DynCompose.lean, restrictions R1–R6 of the module docstring; full strength: `fetch_is_the_stashed_object`. -/
theorem fetch_is_the_stashed_object_partial (n : Nat) (ops : List COp) (S : Sys) (hS : S = (Sys.init n).run ops)
    (s : Nat) (rs : RootSet) (h : Handle) (hl : S.d.liveSet s = some rs) (hm : h ∈ S.d.handles)
    (hs : h.set = s) :
    DynRoots.step S.d (.fetch s h) = .ok S.d (.ptr h.ptr) ∧
    ∃ l o, S.loc[s]? = some l ∧ S.a.ctx.heap.get l.id = some o ∧
      o.slots[h.index]? = some (some (.strong h.ptr)) := by
  have hc : Live n S := (show Coupled n S by rw [hS]; exact coupled_run_partial n ops).live_of_liveSet hl
  obtain ⟨hf, _, _, hocc, _⟩ := (C14.fetch_identity S.dops S.d hc.dyn s rs h hl hm).1 hs
  obtain ⟨l, o, hloc, _, ho, _, _, _, hiff, _, _⟩ := set_object_mirrors_table_partial n ops S hS s rs hl
  exact ⟨hf, l, o, hloc, ho, (hiff h.index h.ptr).2 hocc⟩

/-- The coupled `fetch` inside a callback: both reads of its encoding are accepted, the second one
returns the stashed pointer (the client observes `s<h.ptr>`), that pointer is held by the callback
afterwards — hence accessible and `Safe` — and neither the heap, the root nor the tables change.
Restricted form — pinned system of Proofs/DynCompose.lean, restrictions R1–R6 of the module docstring; full strength: `fetch_holds`. -/
theorem fetch_holds_partial (n : Nat) (ops : List COp) (S : Sys) (hS : S = (Sys.init n).run ops)
    (s : Nat) (rs : RootSet) (h : Handle) (hl : S.d.liveSet s = some rs) (hm : h ∈ S.d.handles)
    (hs : h.set = s) (hcb : S.a.cb ≠ none) :
    (S.step (.fetch s h)).a.holds (.strong h.ptr) = true ∧
    (S.step (.fetch s h)).a.ctx = S.a.ctx ∧ (S.step (.fetch s h)).a.root = S.a.root ∧
    (S.step (.fetch s h)).d = S.d ∧
    (∃ l, S.loc[s]? = some l ∧
      ((S.a.step (.readRoot l.slot)).1.step (.read l.id h.index)).2 = Arena.showPtr (.strong h.ptr)) ∧
    Safe (S.step (.fetch s h)).a.ctx h.ptr := by
  have hc : Live n S := (show Coupled n S by rw [hS]; exact coupled_run_partial n ops).live_of_liveSet hl
  obtain ⟨hsets, _⟩ := DynRoots.liveSet_eq_some.1 hl
  obtain ⟨_, l, o, hloc, ho, hslot⟩ := fetch_is_the_stashed_object_partial n ops S hS s rs h hl hm hs
  obtain ⟨hh, _⟩ := hc.sets s l rs hloc hsets
  have hq : (mirror l.cap rs.slots.slots)[h.index]? = some (some (.strong h.ptr)) := by
    obtain ⟨o', ho', _, _, hs'⟩ := hh.obj
    rw [ho] at ho'; cases ho'
    rw [← hs']; exact hslot
  obtain ⟨f1, f2, _, _, f5, _, f7⟩ := fetch_net hc.alive hcb hh hq
  have hcs : S.a.cb.isSome = true := by cases hx : S.a.cb <;> simp_all
  have hcont : DynRoots.containsB s h = true := by simp [DynRoots.containsB, hs]
  have e : S.step (.fetch s h) = (S.doA (fetchOps l h)).doD (.fetch s h) := by
    simp [Sys.step, Sys.fetchLike, hloc, hc.alive, hcs, hm, hl, hcont]
  have hc' : Live n (S.step (.fetch s h)) := hc.step _ (by intro e; cases e)
  rw [e] at hc' ⊢
  refine ⟨f5, f1, f2, DynRoots.next_fetch _ _ _, ⟨l, hloc, f7⟩, ?_⟩
  exact hc'.inv.ptrOK_of_holds (p := .strong h.ptr) f5

/-! ## What the encodings do to the arena -/

/-- Dropping the last handle of a slot **outside any callback** (in particular between two
collection increments, in any phase): the collector-side encoding — a pointer-free `mutate`
callback doing a barrier-less `.raw` store of `None` — is accepted, and its net effect on the arena
is exactly clearing that slot of the set object: colours, gray queues, phase, metrics, root, cover
and callback state are unchanged. -/
theorem drop_outside_callback_net_effect (n : Nat) (ops : List COp) (S : Sys)
    (hS : S = (Sys.init n).run ops) (h : Handle) (hm : h ∈ S.d.handles) (rs : RootSet) (r : Nat)
    (hl : S.d.liveSet h.set = some rs) (hv : rs.slots.slots[h.index]? = some (.occupied r 0))
    (hcb : S.a.cb = none) :
    ∃ l, S.loc[h.set]? = some l ∧
      (S.step (.dropHandle h)).a =
        { S.a with marked := false, ctx := Arena.setSlot S.a.ctx l.id h.index none } ∧
      (S.step (.dropHandle h)).d = DynRoots.next S.d (.dropHandle h) := by
  have hc : Live n S := (show Coupled n S by rw [hS]; exact coupled_run_partial n ops).live_of_liveSet hl
  obtain ⟨hsets, _⟩ := DynRoots.liveSet_eq_some.1 hl
  have hlt : h.set < S.loc.length := by
    rw [hc.len]; exact (List.getElem?_eq_some_iff.1 hsets).1
  have hloc := List.getElem?_eq_getElem hlt
  obtain ⟨hh, hle⟩ := hc.sets h.set _ rs hloc hsets
  have hidx : h.index < rs.slots.slots.length := (List.getElem?_eq_some_iff.1 hv).1
  refine ⟨_, hloc, ?_, ?_⟩
  · have e : (S.step (.dropHandle h)).a = S.a.run (clearOps S.a S.loc[h.set] h.index) := by
      simp [Sys.step, hm, hloc, hl, hv, Sys.doA, Sys.doD]
    rw [e]
    exact clear_net_outside hc.inv hcb hh (by rw [mirror_length]; omega)
  · simp [Sys.step, hm, hloc, hl, hv, Sys.doA, Sys.doD]

/-- `stash` inside a callback holding `r`, within capacity: the three collector-side ops are accepted
(the `.raw` store is licensed by the cover the barrier has just issued) and their net effect on the
context is `backward_barrier(set, Some(r))` followed by the slot store. -/
theorem stash_net_effect (n : Nat) (ops : List COp) (S : Sys) (hS : S = (Sys.init n).run ops)
    (s r idx : Nat) (rs : RootSet) (sl : DynRoots.Slots) (l : SetLoc) (hloc : S.loc[s]? = some l)
    (hl : S.d.liveSet s = some rs) (ha : rs.slots.add r = .ok (sl, idx)) (hcb : S.a.cb ≠ none)
    (hr : S.a.holds (.strong r) = true) (hidx : idx < l.cap) :
    (S.step (.stash s r)).a.ctx =
      Arena.setSlot (S.a.ctx.backwardBarrier l.id (some r)) l.id idx (some (.strong r)) ∧
    (S.step (.stash s r)).a.root = S.a.root ∧
    (S.step (.stash s r)).a.cover = .pair l.id r :: S.a.cover ∧
    (S.step (.stash s r)).d = DynRoots.next S.d (.stash s r) := by
  have hc : Live n S := (show Coupled n S by rw [hS]; exact coupled_run_partial n ops).live_of_liveSet hl
  obtain ⟨hsets, _⟩ := DynRoots.liveSet_eq_some.1 hl
  obtain ⟨hh, _⟩ := hc.sets s l rs hloc hsets
  obtain ⟨nctx, nroot, _, _, ncover, _⟩ :=
    stash_net hc.alive hcb hh hr (idx := idx) (by rw [mirror_length]; exact hidx)
  have hcs : S.a.cb.isSome = true := by cases hx : S.a.cb <;> simp_all
  have e : S.step (.stash s r) = (S.doA (stashOps l r idx)).doD (.stash s r) := by
    simp [Sys.step, hloc, hl, ha, hc.alive, hcs, hr, hidx]
  rw [e]
  exact ⟨nctx, nroot, ncover, rfl⟩


/-! ## Arena drop -/

/-- Dropping the arena (outside callbacks) is coupled with `destroySet` for every set: afterwards
the arena is gone and no set is alive; the handles are untouched.
Restricted form — pinned system of Proofs/DynCompose.lean, restrictions R1–R6 of the module docstring. -/
theorem arena_drop_destroys_sets_partial (n : Nat) (ops : List COp) (S : Sys) (hS : S = (Sys.init n).run ops)
    (halive : S.a.alive = true) (hcb : S.a.cb = none) :
    (S.step .dropArena).a.alive = false ∧ (∀ s, (S.step .dropArena).d.liveSet s = none) ∧
    (S.step .dropArena).d = DynRoots.run S.d (destroyOps S.d.sets.length) ∧
    (S.step .dropArena).d.handles = S.d.handles := by
  have hc : Live n S := (show Coupled n S by rw [hS]; exact coupled_run_partial n ops).live halive
  have e : S.step .dropArena = (S.doA [.dropArena]).doDs (destroyOps S.d.sets.length) := by
    simp [Sys.step, halive, hcb]
  have hd := hc.dropArena hcb
  rw [e]
  obtain ⟨_, _, _, s4, _⟩ := (S.doA [.dropArena]).doDs_spec (destroyOps S.d.sets.length)
  refine ⟨hd.dead, hd.sets, s4, ?_⟩
  rw [s4]
  show (DynRoots.run S.d _).handles = S.d.handles
  have : ∀ (l : List Nat) (d : State), (DynRoots.run d (l.map .destroySet)).handles = d.handles := by
    intro l
    induction l with
    | nil => intro d; rfl
    | cons x l ih =>
      intro d
      simp only [List.map_cons, DynRoots.run]
      rw [ih]
      unfold DynRoots.next
      simp only [DynRoots.step]
      cases d.liveSet x <;> rfl
  exact this (List.range S.d.sets.length) S.d

/-- Handles outlive their arena harmlessly: in every coupled state whose arena has been dropped, no
set is alive, so cloning or dropping any live handle only adds / removes the handle (no table is
touched, nothing can panic), `fetch` / `try_fetch` / `contains` have no alive set to be called on,
and every collector-model op is refused.
Restricted form — pinned system of Proofs/DynCompose.lean, restrictions R1–R6 of the module docstring; full strength: `handles_outlive_arena`. -/
theorem handles_outlive_arena_partial (n : Nat) (ops : List COp) (S : Sys) (hS : S = (Sys.init n).run ops)
    (hdead : S.a.alive = false) (h : Handle) (hm : h ∈ S.d.handles) :
    (∀ s, S.d.liveSet s = none) ∧
    DynRoots.step S.d (.clone h) = .ok { S.d with handles := h :: S.d.handles } (.handle h) ∧
    DynRoots.step S.d (.dropHandle h) = .ok { S.d with handles := S.d.handles.erase h } .unit ∧
    (∀ s, DynRoots.step S.d (.fetch s h) = .illFormed) ∧
    (∀ op, (S.a.step op).1 = S.a) := by
  have hc : Coupled n S := by rw [hS]; exact coupled_run_partial n ops
  have hnone := hc.dead hdead
  obtain ⟨h1, h2⟩ := C14.outlive S.d h hm (hnone h.set)
  refine ⟨hnone, h1, h2, fun s => ?_, fun op => step_dead hdead op⟩
  simp [DynRoots.step, hm, hnone s]

/-! ## Non-vacuity: concrete coupled runs (evaluated by the kernel) -/

/-- Set 0 (object 0, two slots) in root slot 0; object 1 stashed; `finish_marking` (everything black,
phase `Mark`, nothing gray: "Marked"); then, in a `mutate` callback, a fresh white object 2 is stashed
into the **black** set; the callback ends; the only handle of object 1 is dropped **between two
collection calls, outside any callback**, while the re-grayed set object is still queued; two
`finish_cycle` calls. -/
def demo : List COp := [
  .gc (.enter .mutateRoot), .newSet 0 2, .gc (.alloc true [none]), .stash 0 1, .gc .leave,
  .gc (.collect .finishMarking .drop none none),
  .gc (.enter .mutate), .gc (.alloc true [none]), .stash 0 2, .gc .leave,
  .dropHandle ⟨0, 0, 1, 0⟩,
  fc, fc]

/-- after `finish_marking`: "Marked", the set object is black and holds object 1 in slot 0 -/
example : ((Sys.init 1).run (demo.take 6)).a.collectionPhase = "Marked" ∧
    ((Sys.init 1).run (demo.take 6)).a.ctx.heap.get 0 =
      some ⟨.black, true, true, [some (.strong 1), none]⟩ := by decide

/-- the stash into the black set: the backward barrier re-grays the set object (so the white object 2
will be traced), the raw store is accepted, the table and the object agree -/
example : ((Sys.init 1).run (demo.take 9)).a.ctx.heap.get 0 =
      some ⟨.gray, true, true, [some (.strong 1), some (.strong 2)]⟩ ∧
    ((Sys.init 1).run (demo.take 9)).a.ctx.heap.get 2 = some ⟨.white, true, true, [none]⟩ ∧
    ((Sys.init 1).run (demo.take 9)).a.ctx.grayAgain = [0] ∧
    ((Sys.init 1).run (demo.take 9)).a.cover = [.pair 0 2] ∧
    ((Sys.init 1).run (demo.take 9)).d.sets =
      [⟨true, ⟨[.occupied 1 0, .occupied 2 0], DynRoots.nullIndex⟩⟩] ∧
    ((Sys.init 1).run (demo.take 9)).d.handles = [⟨0, 1, 2, 1⟩, ⟨0, 0, 1, 0⟩] := by decide

/-- The state right after the last handle of object 1 was dropped. -/
def afterDrop : Sys := (Sys.init 1).run (demo.take 11)

/-- the drop of the last handle of object 1, outside any callback, still in phase `Mark`: slot 0 of the
set object is cleared and vacated in the table; colours and queues are as before -/
example : afterDrop.a.ctx.heap.get 0 = some ⟨.gray, true, true, [none, some (.strong 2)]⟩ ∧
    afterDrop.a.ctx.heap.get 1 = some ⟨.black, true, true, [none]⟩ ∧
    afterDrop.a.ctx.phase = .mark ∧ afterDrop.a.ctx.grayAgain = [0] ∧
    afterDrop.a.cb = none ∧ afterDrop.a.temps = [] ∧
    afterDrop.d.sets = [⟨true, ⟨[.vacant DynRoots.nullIndex, .occupied 2 0], 0⟩⟩] ∧
    afterDrop.d.handles = [⟨0, 1, 2, 1⟩] := by decide

/-- two `finish_cycle` calls later object 1 has been destructed and released; the set object and the
still-stashed object 2 are alive -/
example : ((Sys.init 1).run demo).a.ctx.heap.get 1 = none ∧
    ((Sys.init 1).run demo).a.ctx.log = [.freed 1, .dropped 1] ∧
    ((Sys.init 1).run demo).a.ctx.heap.get 2 = some ⟨.white, true, true, [none]⟩ ∧
    ((Sys.init 1).run demo).a.ctx.heap.get 0 = some ⟨.white, true, true, [none, some (.strong 2)]⟩ ∧
    ((Sys.init 1).run demo).a.ctx.err = none := by decide

/-- the collector-model ops the coupled run executed (the encodings, in order) -/
example : ((Sys.init 1).run demo).aops = [
    .enter .mutateRoot, .alloc true [none, none], .rootStore 0 (some (.strong 0)), .alloc true [none],
    .readRoot 0, .barrier (.bb 0 (some 1)), .store .raw 0 0 (some (.strong 1)), .leave,
    .collect .finishMarking .drop none none,
    .enter .mutate, .alloc true [none],
    .readRoot 0, .barrier (.bb 0 (some 2)), .store .raw 0 1 (some (.strong 2)), .leave,
    .enter .mutate, .readRoot 0, .store .raw 0 0 none, .leave,
    .collect .finishCycle .drop none none, .collect .finishCycle .drop none none] := rfl

/-- The hypotheses of `collectable_after_last_drop_partial` hold in `afterDrop` for set 0 and object 1: no
handle of object 1 is left, and object 1 is reachable by no route avoiding the edge 0 → 1 … -/
theorem afterDrop_only_via_set : ¬ ReachAvoiding afterDrop.a.ctx afterDrop.a.root 0 1 1 := by
  have key : ∀ j, ReachAvoiding afterDrop.a.ctx afterDrop.a.root 0 1 j → j = 0 ∨ j = 2 := by
    intro j hj
    induction hj with
    | root t ht =>
      have : afterDrop.a.root = [some (.strong 0)] := by decide
      rw [this] at ht; simp at ht; exact .inl ht
    | edge i t _ e _ ih =>
      obtain ⟨o, ho, hp⟩ := e
      rcases ih with rfl | rfl
      · have : afterDrop.a.ctx.heap.get 0 = some ⟨.gray, true, true, [none, some (.strong 2)]⟩ := by
          decide
        rw [this] at ho; cases ho; simp at hp; exact .inr hp
      · have : afterDrop.a.ctx.heap.get 2 = some ⟨.white, true, true, [none]⟩ := by decide
        rw [this] at ho; cases ho; simp at hp
  intro h
  rcases key 1 h with h | h <;> cases h

/-- … so the theorem applies: two `finish_cycle` calls leave object 1 neither allocated nor
undestructed (and the kernel evaluation above shows it is in fact destructed and released). -/
example : ¬ ∃ o, ((afterDrop.step fc).step fc).a.ctx.heap.get 1 = some o ∧ o.live = true :=
  (collectable_after_last_drop_partial 1 (demo.take 11) afterDrop rfl 0 1
    ⟨true, ⟨[.vacant DynRoots.nullIndex, .occupied 2 0], 0⟩⟩ (by decide) (by decide) ⟨0, 0, 2⟩ (by decide)
    (by decide) afterDrop_only_via_set).2.2.2

/-- `stashed_survives_while_handle_partial` applies in `afterDrop` to the remaining handle (object 2, still
white, stashed into a set that was black): it is `Safe`. -/
example : Safe afterDrop.a.ctx 2 :=
  (stashed_survives_while_handle_partial 1 (demo.take 11) afterDrop rfl ⟨0, 1, 2, 1⟩ (by decide)
    ⟨true, ⟨[.vacant DynRoots.nullIndex, .occupied 2 0], 0⟩⟩ (by decide)).2 2 (.temp 2 (by simp))

/-- `fetch` inside a callback: the two reads of the encoding put the stashed pointer among the held
pointers. -/
example : ((Sys.init 1).run (demo.take 5 ++ [.gc (.enter .mutate), .fetch 0 ⟨0, 0, 1, 0⟩])).a.temps =
    [.strong 1, .strong 0] := by decide

/-- Slot reuse: after the drop, a new stash reuses table slot 0, and slot 0 of the set object holds
the new pointer; the older handle (index 1) still resolves to object 2. -/
example :
    let S := (Sys.init 1).run (demo.take 11 ++
      [.gc (.enter .mutate), .gc (.alloc true [none]), .stash 0 3, .gc .leave])
    S.d.handles = [⟨0, 0, 3, 2⟩, ⟨0, 1, 2, 1⟩] ∧
    S.a.ctx.heap.get 0 = some ⟨.gray, true, true, [some (.strong 3), some (.strong 2)]⟩ := by decide

/-- Restriction R4 at work: a set object with capacity 1 accepts one stash; the second (index 1) is
not a coupled operation and changes neither side. -/
example :
    let S := (Sys.init 1).run [.gc (.enter .mutateRoot), .newSet 0 1, .gc (.alloc true [none]),
      .gc (.alloc true [none]), .stash 0 1, .stash 0 2]
    S.d.handles = [⟨0, 0, 1, 0⟩] ∧
    S.a.ctx.heap.get 0 = some ⟨.white, true, true, [some (.strong 1)]⟩ := by decide

/-- A clone keeps the slot occupied when the original is dropped (no arena-side op at all). -/
example :
    let S := (Sys.init 1).run (demo.take 5 ++ [.clone ⟨0, 0, 1, 0⟩, .dropHandle ⟨0, 0, 1, 0⟩])
    S.d.handles = [⟨0, 0, 1, 0⟩] ∧ S.d.sets = [⟨true, ⟨[.occupied 1 0], DynRoots.nullIndex⟩⟩] ∧
    S.a.ctx.heap.get 0 = some ⟨.white, true, true, [some (.strong 1), none]⟩ ∧
    S.aops.length = 8 := by decide

/-- Arena drop: the set is destroyed; the surviving handle can still be cloned and dropped, without
touching the (dead) table. -/
example :
    let S := (Sys.init 1).run (demo ++ [.dropArena, .clone ⟨0, 1, 2, 1⟩, .dropHandle ⟨0, 1, 2, 1⟩])
    S.a.alive = false ∧ S.d.liveSet 0 = none ∧ S.d.handles = [⟨0, 1, 2, 1⟩] ∧
    S.d.sets = [⟨false, ⟨[.vacant DynRoots.nullIndex, .occupied 2 0], 0⟩⟩] ∧
    S.dops.length = 7 := by decide

end GcArena.C14s
