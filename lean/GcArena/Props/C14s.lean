import GcArena.Proofs.DynCompose
import GcArena.Props.C14
import GcArena.Props.C02
/-!
# C14 (companion) — the DynamicRootSet slot table composed with the collector, as theorems

"An object stashed in a DynamicRootSet that is reachable from the root, and everything reachable
from it, survives every collection while at least one DynamicRoot handle for it (the original or
any clone) exists, and becomes collectable once the last such handle is dropped."

Props/C14.lean proves the slot-table half (`DynRoots`: the table holds exactly the pointers of the
live handles); the collector development proves what happens to pointers an accessible object
reports (`inv_run`, C01, C02).  Here the two are **one system** (`GcArena.DynCompose.Sys`,
Proofs/DynCompose.lean): an arena, a slot-table state, and for every set the heap object that is its
`Gc<Inner>`; every coupled operation (`COp`) is a `DynRoots.Op` paired with a list of existing
`GcArena.Op`s — `stash` = `backward_barrier(set, Some(r))` + raw slot store, dropping the last
handle of a slot = a barrier-free, pointer-free clearing of the slot (outside any callback, also
between two collection increments), interleaved with arbitrary collector-model ops.

* `coupled_run` — the coupling relation `Coupled` (the set object is allocated, undestructed, and
  its slot `i` holds `r` strongly iff table slot `i` is occupied by `r`) holds after **every**
  coupled operation sequence, and both sides are runs of the two existing models.
* `stashed_survives_while_handle` — first half of the property, with no hypothesis about slots.
* `not_in_set_after_last_drop`, `collectable_after_last_drop` — second half.
* `fetch_is_the_stashed_object`, `fetch_holds` — `fetch` returns the content of the set object's slot.
* `drop_outside_callback_net_effect`, `stash_net_effect` — what the encodings do to the arena.
* `arena_drop_destroys_sets`, `handles_outlive_arena` — the arena drop, coupled with `destroySet`.

What is assumed / encoded — **restrictions R1–R6 of Proofs/DynCompose.lean**: one arena; every set
object is stored directly in a root slot that is never overwritten (so, while the arena exists, it
is strongly reachable from the root and never collected; `destroySet` occurs only as part of the
arena drop); the set object is allocated with a fixed number `cap` of slots and a `stash` needing
index `≥ cap` is not a coupled operation; client stores into set objects are excluded (the field is
private); a handle dropped while the client holds a `MarkedArena` forfeits the `finalize` call; in
the `Dynamic…::drop` encoding inside a running callback the set pointer joins the held pointers
(conservative).  The two theorems
`closure_accessible`, `stashed_survives` below are the earlier, hypothesis-carrying form and are
what `stashed_survives_while_handle` instantiates.
-/
namespace GcArena.C14s

open GcArena GcArena.DynCompose
open GcArena.DynRoots (Handle RootSet State)

private theorem closure_accessible {a : Arena} {p j : Nat} (hp : Accessible a p)
    (hj : AccessibleC a.ctx [] [Ptr.strong p] j) : Accessible a j := by
  induction hj with
  | root t h => cases h
  | temp t h =>
    simp only [List.mem_singleton, Ptr.strong.injEq] at h
    subst h; exact hp
  | edge i t _ e ih => exact .edge i t ih e

/-- If the set object `s` is accessible (held by the root, directly or not) and reports the stashed
    pointer `p` among its traced slots, then `p` and everything strongly reachable from `p` is
    allocated, undestructed and not condemned — after every operation sequence, in every phase. -/
theorem stashed_survives (n : Nat) (ops : List Op) (halive : ((Arena.new n).run ops).alive = true)
    (s p : Nat) (o : Obj) (hs : Accessible ((Arena.new n).run ops) s)
    (ho : ((Arena.new n).run ops).ctx.heap.get s = some o) (hp : some (Ptr.strong p) ∈ o.slots) :
    ∀ j, AccessibleC ((Arena.new n).run ops).ctx [] [Ptr.strong p] j → Safe ((Arena.new n).run ops).ctx j := by
  intro j hj
  have hi := inv_run n ops halive
  have hpa : Accessible ((Arena.new n).run ops) p := .edge s p hs ⟨o, ho, hp⟩
  exact hi.safe_of_accessible (closure_accessible hpa hj)

/-! ## The coupling relation is an invariant -/

/-- **`coupled_run`.**  After every coupled operation sequence from the initial coupled state (a
fresh arena with `n` root slots, `DynRoots.State.init`, no sets — sets are created by the coupled
op `newSet`, which allocates the set object and stores it in a root slot): both sides are runs of
the two existing models, and every set object mirrors its slot table. -/
theorem coupled_run (n : Nat) (ops : List COp) : Coupled n ((Sys.init n).run ops) :=
  (Coupled.init n).run ops

/-- `Coupled`, spelled out for one alive set: the root slot holds the set object; the set object is
allocated, undestructed, has `cap` slots; **slot `i` is `some (strong r)` iff table slot `i` is
`Occupied { root = r, .. }`**, else `none`; hence its strong slots are exactly `Slots.traced`. -/
theorem set_object_mirrors_table (n : Nat) (ops : List COp) (S : Sys) (hS : S = (Sys.init n).run ops)
    (s : Nat) (rs : RootSet) (hl : S.d.liveSet s = some rs) :
    ∃ l o, S.loc[s]? = some l ∧ S.a.root[l.slot]? = some (some (.strong l.id)) ∧
      S.a.ctx.heap.get l.id = some o ∧ o.live = true ∧ o.slots.length = l.cap ∧
      rs.slots.slots.length ≤ l.cap ∧
      (∀ i r : Nat, o.slots[i]? = some (some (Ptr.strong r)) ↔
        ∃ c, rs.slots.slots[i]? = some (DynRoots.Slot.occupied r c)) ∧
      (∀ i : Nat, i < l.cap →
        (o.slots[i]? = some none ↔ ∀ r c, rs.slots.slots[i]? ≠ some (DynRoots.Slot.occupied r c))) ∧
      (∀ p, some (Ptr.strong p) ∈ o.slots ↔ p ∈ rs.slots.traced) := by
  subst hS
  have hc := (coupled_run n ops).live_of_liveSet hl
  obtain ⟨hsets, _⟩ := DynRoots.liveSet_eq_some.1 hl
  have hlt : s < ((Sys.init n).run ops).loc.length := by
    rw [hc.len]; exact (List.getElem?_eq_some_iff.1 hsets).1
  obtain ⟨hh, hle⟩ := hc.sets s _ rs (List.getElem?_eq_getElem hlt) hsets
  obtain ⟨o, ho, hlive, _, hslots⟩ := hh.obj
  refine ⟨_, o, List.getElem?_eq_getElem hlt, hh.root, ho, hlive, by rw [hslots, mirror_length], hle,
    ?_, ?_, ?_⟩
  · intro i r
    rw [hslots]
    constructor
    · intro hi
      have hic : i < (((Sys.init n).run ops).loc[s]).cap := by
        have := (List.getElem?_eq_some_iff.1 hi).1; rwa [mirror_length] at this
      rw [mirror_get hic] at hi
      cases ht : rs.slots.slots[i]? with
      | none => rw [ht] at hi; simp [image] at hi
      | some x =>
        rw [ht] at hi
        cases x with
        | vacant nf => simp [image] at hi
        | occupied r' c => simp [image] at hi; subst hi; exact ⟨c, rfl⟩
    · rintro ⟨c, hv⟩
      have hil : i < rs.slots.slots.length := (List.getElem?_eq_some_iff.1 hv).1
      rw [mirror_get (by omega), hv]; rfl
  · intro i hi
    rw [hslots, mirror_get hi]
    cases ht : rs.slots.slots[i]? with
    | none => simp [image]
    | some x =>
      cases x with
      | vacant nf => simp [image]
      | occupied r' c => simp [image]
  · intro p; rw [hslots]; exact mem_mirror hle

/-! ## First half: a stashed object survives while a handle exists -/

/-- While the arena exists, every set object is strongly reachable from the root (restriction R2
makes this hold by construction; it is the property's premise "a DynamicRootSet that is reachable
from the root"). -/
theorem set_reachable (n : Nat) (ops : List COp) (S : Sys) (hS : S = (Sys.init n).run ops)
    (halive : S.a.alive = true) (s : Nat) (l : SetLoc) (hl : S.loc[s]? = some l) :
    StrongReach S.a l.id := by
  subst hS
  have hc := (coupled_run n ops).live halive
  have hs : s < ((Sys.init n).run ops).d.sets.length := by
    rw [← hc.len]; exact (List.getElem?_eq_some_iff.1 hl).1
  exact (hc.sets s l _ hl (List.getElem?_eq_getElem hs)).1.reach

/-- **`stashed_survives_while_handle`.**  In every state of every coupled history — any
interleaving of `newSet` / `stash` / `clone` / `dropHandle` / `fetch` with allocation, stores,
barriers and collection calls of every kind, in every phase: if `h` is a live handle of an alive
set, then the stashed object `h.ptr` is strongly reachable from the root, and it and everything
strongly reachable from it is allocated, undestructed and not condemned by the running sweep.
No hypothesis about slots: that the set object holds `h.ptr` is `Coupled` + `C14.traced_while_handle`. -/
theorem stashed_survives_while_handle (n : Nat) (ops : List COp) (S : Sys)
    (hS : S = (Sys.init n).run ops) (h : Handle) (hm : h ∈ S.d.handles) (rs : RootSet)
    (hl : S.d.liveSet h.set = some rs) :
    StrongReach S.a h.ptr ∧ ∀ j, AccessibleC S.a.ctx [] [Ptr.strong h.ptr] j → Safe S.a.ctx j := by
  obtain ⟨l, o, hloc, _, ho, _, _, _, _, _, hmem⟩ := set_object_mirrors_table n ops S hS h.set rs hl
  have hc : Live n S := (show Coupled n S by rw [hS]; exact coupled_run n ops).live_of_liveSet hl
  have htr : h.ptr ∈ rs.slots.traced := C14.traced_while_handle S.dops S.d hc.dyn h hm rs hl
  have hp : some (Ptr.strong h.ptr) ∈ o.slots := (hmem h.ptr).2 htr
  have hreach := set_reachable n ops S hS hc.alive h.set l hloc
  refine ⟨.edge l.id h.ptr hreach ⟨o, ho, hp⟩, ?_⟩
  have harena := hc.arena
  have halive : ((Arena.new n).run S.aops).alive = true := by rw [← harena]; exact hc.alive
  have := stashed_survives n S.aops halive l.id h.ptr o
    (by rw [← harena]; exact hreach.accessible) (by rw [← harena]; exact ho) hp
  rw [← harena] at this
  exact this

/-! ## Second half: collectable once the last handle is dropped -/

/-- Strongly reachable from the root by a path that does not use the edge `x → p`. -/
inductive ReachAvoiding (c : Ctx) (root : List Slot) (x p : Nat) : Nat → Prop
  | root (t) : some (Ptr.strong t) ∈ root → ReachAvoiding c root x p t
  | edge (i t) : ReachAvoiding c root x p i → StrongEdge c i t → ¬ (i = x ∧ t = p) →
      ReachAvoiding c root x p t

/-- Once no live handle of set `s` has pointer `p`, the set object holds `p` in none of its slots
(`C14.untraced_after_last_drop` + `Coupled`). -/
theorem not_in_set_after_last_drop (n : Nat) (ops : List COp) (S : Sys) (hS : S = (Sys.init n).run ops)
    (s p : Nat) (rs : RootSet) (hl : S.d.liveSet s = some rs)
    (hnone : ∀ h ∈ S.d.handles, h.set = s → h.ptr ≠ p) (l : SetLoc) (hloc : S.loc[s]? = some l)
    (o : Obj) (ho : S.a.ctx.heap.get l.id = some o) : some (Ptr.strong p) ∉ o.slots := by
  obtain ⟨l', o', hloc', _, ho', _, _, _, _, _, hmem⟩ := set_object_mirrors_table n ops S hS s rs hl
  rw [hloc] at hloc'; cases hloc'
  rw [ho] at ho'; cases ho'
  have hc : Live n S := (show Coupled n S by rw [hS]; exact coupled_run n ops).live_of_liveSet hl
  intro hp
  exact C14.untraced_after_last_drop S.dops S.d hc.dyn s p rs hl hnone ((hmem p).1 hp)

/-- **`collectable_after_last_drop`.**  Outside callbacks, once no live handle of set `s` has pointer
`p`: if `p` is not strongly reachable from the root by any route other than the edge
"set object of `s` → `p`", then `p` is not strongly reachable at all, and after two
`arena.finish_cycle()` calls (the coupled ops `fc`, i.e. two `.collect .finishCycle` ops of the
collector model) `p` is no longer an allocated undestructed object (`C02.exactness_run`); the two
calls touch neither the slot tables nor the handles. -/
theorem collectable_after_last_drop (n : Nat) (ops : List COp) (S : Sys) (hS : S = (Sys.init n).run ops)
    (s p : Nat) (rs : RootSet) (hl : S.d.liveSet s = some rs)
    (hnone : ∀ h ∈ S.d.handles, h.set = s → h.ptr ≠ p) (l : SetLoc) (hloc : S.loc[s]? = some l)
    (hcb : S.a.cb = none) (hother : ¬ ReachAvoiding S.a.ctx S.a.root l.id p p) :
    ¬ StrongReach S.a p ∧
    ((S.step fc).step fc).a =
      S.a.run [.collect .finishCycle .drop none none, .collect .finishCycle .drop none none] ∧
    ((S.step fc).step fc).d = S.d ∧
    ¬ ∃ o, ((S.step fc).step fc).a.ctx.heap.get p = some o ∧ o.live = true := by
  have hc : Live n S := (show Coupled n S by rw [hS]; exact coupled_run n ops).live_of_liveSet hl
  have hnot := not_in_set_after_last_drop n ops S hS s p rs hl hnone l hloc
  have havoid : ∀ j, StrongReach S.a j → ReachAvoiding S.a.ctx S.a.root l.id p j := by
    intro j hj
    induction hj with
    | root t ht => exact .root t ht
    | temp t ht => cases ht
    | edge i t _ e ih =>
      refine .edge i t ih e ?_
      rintro ⟨rfl, rfl⟩
      obtain ⟨o, ho, hp⟩ := e
      exact hnot o ho hp
  have hunreach : ¬ StrongReach S.a p := fun hr => hother (havoid p hr)
  have ha : ((S.step fc).step fc).a =
      S.a.run [.collect .finishCycle .drop none none, .collect .finishCycle .drop none none] := by
    simp [Sys.step, fc, Sys.allowed, Sys.doA, Arena.run]
  have hd : ((S.step fc).step fc).d = S.d := by
    simp [Sys.step, fc, Sys.allowed, Sys.doA]
  refine ⟨hunreach, ha, hd, ?_⟩
  rw [ha]
  have harena := hc.arena
  have hex := C02.exactness_run n S.aops
  simp only at hex
  rw [← harena] at hex
  intro hlive
  exact hunreach (((hex hc.alive hcb).2.2 p).mp hlive)

/-! ## fetch -/

/-- **`fetch_is_the_stashed_object`.**  For a live handle `h` of the alive set `s` that issued it:
`fetch` answers `h.ptr`, and `h.ptr` is what slot `h.index` of the set object holds
(`C14.fetch_identity` + `Coupled`). -/
theorem fetch_is_the_stashed_object (n : Nat) (ops : List COp) (S : Sys) (hS : S = (Sys.init n).run ops)
    (s : Nat) (rs : RootSet) (h : Handle) (hl : S.d.liveSet s = some rs) (hm : h ∈ S.d.handles)
    (hs : h.set = s) :
    DynRoots.step S.d (.fetch s h) = .ok S.d (.ptr h.ptr) ∧
    ∃ l o, S.loc[s]? = some l ∧ S.a.ctx.heap.get l.id = some o ∧
      o.slots[h.index]? = some (some (.strong h.ptr)) := by
  have hc : Live n S := (show Coupled n S by rw [hS]; exact coupled_run n ops).live_of_liveSet hl
  obtain ⟨hf, _, _, hocc, _⟩ := (C14.fetch_identity S.dops S.d hc.dyn s rs h hl hm).1 hs
  obtain ⟨l, o, hloc, _, ho, _, _, _, hiff, _, _⟩ := set_object_mirrors_table n ops S hS s rs hl
  exact ⟨hf, l, o, hloc, ho, (hiff h.index h.ptr).2 hocc⟩

/-- The coupled `fetch` inside a callback: both reads of its encoding are accepted, the second one
returns the stashed pointer (the client observes `s<h.ptr>`), that pointer is held by the callback
afterwards — hence accessible and `Safe` — and neither the heap, the root nor the tables change. -/
theorem fetch_holds (n : Nat) (ops : List COp) (S : Sys) (hS : S = (Sys.init n).run ops)
    (s : Nat) (rs : RootSet) (h : Handle) (hl : S.d.liveSet s = some rs) (hm : h ∈ S.d.handles)
    (hs : h.set = s) (hcb : S.a.cb ≠ none) :
    (S.step (.fetch s h)).a.holds (.strong h.ptr) = true ∧
    (S.step (.fetch s h)).a.ctx = S.a.ctx ∧ (S.step (.fetch s h)).a.root = S.a.root ∧
    (S.step (.fetch s h)).d = S.d ∧
    (∃ l, S.loc[s]? = some l ∧
      ((S.a.step (.readRoot l.slot)).1.step (.read l.id h.index)).2 = Arena.showPtr (.strong h.ptr)) ∧
    Safe (S.step (.fetch s h)).a.ctx h.ptr := by
  have hc : Live n S := (show Coupled n S by rw [hS]; exact coupled_run n ops).live_of_liveSet hl
  obtain ⟨hsets, _⟩ := DynRoots.liveSet_eq_some.1 hl
  obtain ⟨_, l, o, hloc, ho, hslot⟩ := fetch_is_the_stashed_object n ops S hS s rs h hl hm hs
  obtain ⟨hh, _⟩ := hc.sets s l rs hloc hsets
  have hq : (mirror l.cap rs.slots.slots)[h.index]? = some (some (.strong h.ptr)) := by
    obtain ⟨o', ho', _, _, hs'⟩ := hh.obj
    rw [ho] at ho'; cases ho'
    rw [← hs']; exact hslot
  obtain ⟨f1, f2, _, _, f5, _, f7⟩ := fetch_net hc.alive hcb hh hq
  have hcs : S.a.cb.isSome = true := by cases hx : S.a.cb <;> simp_all
  have hcont : DynRoots.containsB s h = true := by simp [DynRoots.containsB, hs]
  have e : S.step (.fetch s h) = (S.doA (fetchOps l h)).doD (.fetch s h) := by
    simp [Sys.step, Sys.fetchLike, hloc, hc.alive, hcs, hm, hl, hcont]
  have hc' : Live n (S.step (.fetch s h)) := hc.step _ (by intro e; cases e)
  rw [e] at hc' ⊢
  refine ⟨f5, f1, f2, DynRoots.next_fetch _ _ _, ⟨l, hloc, f7⟩, ?_⟩
  exact hc'.inv.ptrOK_of_holds (p := .strong h.ptr) f5

/-! ## What the encodings do to the arena -/

/-- Dropping the last handle of a slot **outside any callback** (in particular between two
collection increments, in any phase): the collector-side encoding — a pointer-free `mutate`
callback doing a barrier-less `.raw` store of `None` — is accepted, and its net effect on the arena
is exactly clearing that slot of the set object: colours, gray queues, phase, metrics, root, cover
and callback state are unchanged. -/
theorem drop_outside_callback_net_effect (n : Nat) (ops : List COp) (S : Sys)
    (hS : S = (Sys.init n).run ops) (h : Handle) (hm : h ∈ S.d.handles) (rs : RootSet) (r : Nat)
    (hl : S.d.liveSet h.set = some rs) (hv : rs.slots.slots[h.index]? = some (.occupied r 0))
    (hcb : S.a.cb = none) :
    ∃ l, S.loc[h.set]? = some l ∧
      (S.step (.dropHandle h)).a =
        { S.a with marked := false, ctx := Arena.setSlot S.a.ctx l.id h.index none } ∧
      (S.step (.dropHandle h)).d = DynRoots.next S.d (.dropHandle h) := by
  have hc : Live n S := (show Coupled n S by rw [hS]; exact coupled_run n ops).live_of_liveSet hl
  obtain ⟨hsets, _⟩ := DynRoots.liveSet_eq_some.1 hl
  have hlt : h.set < S.loc.length := by
    rw [hc.len]; exact (List.getElem?_eq_some_iff.1 hsets).1
  have hloc := List.getElem?_eq_getElem hlt
  obtain ⟨hh, hle⟩ := hc.sets h.set _ rs hloc hsets
  have hidx : h.index < rs.slots.slots.length := (List.getElem?_eq_some_iff.1 hv).1
  refine ⟨_, hloc, ?_, ?_⟩
  · have e : (S.step (.dropHandle h)).a = S.a.run (clearOps S.a S.loc[h.set] h.index) := by
      simp [Sys.step, hm, hloc, hl, hv, Sys.doA, Sys.doD]
    rw [e]
    exact clear_net_outside hc.inv hcb hh (by rw [mirror_length]; omega)
  · simp [Sys.step, hm, hloc, hl, hv, Sys.doA, Sys.doD]

/-- `stash` inside a callback holding `r`, within capacity: the three collector-side ops are accepted
(the `.raw` store is licensed by the cover the barrier has just issued) and their net effect on the
context is `backward_barrier(set, Some(r))` followed by the slot store. -/
theorem stash_net_effect (n : Nat) (ops : List COp) (S : Sys) (hS : S = (Sys.init n).run ops)
    (s r idx : Nat) (rs : RootSet) (sl : DynRoots.Slots) (l : SetLoc) (hloc : S.loc[s]? = some l)
    (hl : S.d.liveSet s = some rs) (ha : rs.slots.add r = .ok (sl, idx)) (hcb : S.a.cb ≠ none)
    (hr : S.a.holds (.strong r) = true) (hidx : idx < l.cap) :
    (S.step (.stash s r)).a.ctx =
      Arena.setSlot (S.a.ctx.backwardBarrier l.id (some r)) l.id idx (some (.strong r)) ∧
    (S.step (.stash s r)).a.root = S.a.root ∧
    (S.step (.stash s r)).a.cover = .pair l.id r :: S.a.cover ∧
    (S.step (.stash s r)).d = DynRoots.next S.d (.stash s r) := by
  have hc : Live n S := (show Coupled n S by rw [hS]; exact coupled_run n ops).live_of_liveSet hl
  obtain ⟨hsets, _⟩ := DynRoots.liveSet_eq_some.1 hl
  obtain ⟨hh, _⟩ := hc.sets s l rs hloc hsets
  obtain ⟨nctx, nroot, _, _, ncover, _⟩ :=
    stash_net hc.alive hcb hh hr (idx := idx) (by rw [mirror_length]; exact hidx)
  have hcs : S.a.cb.isSome = true := by cases hx : S.a.cb <;> simp_all
  have e : S.step (.stash s r) = (S.doA (stashOps l r idx)).doD (.stash s r) := by
    simp [Sys.step, hloc, hl, ha, hc.alive, hcs, hr, hidx]
  rw [e]
  exact ⟨nctx, nroot, ncover, rfl⟩


/-! ## Arena drop -/

/-- Dropping the arena (outside callbacks) is coupled with `destroySet` for every set: afterwards
the arena is gone and no set is alive; the handles are untouched. -/
theorem arena_drop_destroys_sets (n : Nat) (ops : List COp) (S : Sys) (hS : S = (Sys.init n).run ops)
    (halive : S.a.alive = true) (hcb : S.a.cb = none) :
    (S.step .dropArena).a.alive = false ∧ (∀ s, (S.step .dropArena).d.liveSet s = none) ∧
    (S.step .dropArena).d = DynRoots.run S.d (destroyOps S.d.sets.length) ∧
    (S.step .dropArena).d.handles = S.d.handles := by
  have hc : Live n S := (show Coupled n S by rw [hS]; exact coupled_run n ops).live halive
  have e : S.step .dropArena = (S.doA [.dropArena]).doDs (destroyOps S.d.sets.length) := by
    simp [Sys.step, halive, hcb]
  have hd := hc.dropArena hcb
  rw [e]
  obtain ⟨_, _, _, s4, _⟩ := (S.doA [.dropArena]).doDs_spec (destroyOps S.d.sets.length)
  refine ⟨hd.dead, hd.sets, s4, ?_⟩
  rw [s4]
  show (DynRoots.run S.d _).handles = S.d.handles
  have : ∀ (l : List Nat) (d : State), (DynRoots.run d (l.map .destroySet)).handles = d.handles := by
    intro l
    induction l with
    | nil => intro d; rfl
    | cons x l ih =>
      intro d
      simp only [List.map_cons, DynRoots.run]
      rw [ih]
      unfold DynRoots.next
      simp only [DynRoots.step]
      cases d.liveSet x <;> rfl
  exact this (List.range S.d.sets.length) S.d

/-- Handles outlive their arena harmlessly: in every coupled state whose arena has been dropped, no
set is alive, so cloning or dropping any live handle only adds / removes the handle (no table is
touched, nothing can panic), `fetch` / `try_fetch` / `contains` have no alive set to be called on,
and every collector-model op is refused. -/
theorem handles_outlive_arena (n : Nat) (ops : List COp) (S : Sys) (hS : S = (Sys.init n).run ops)
    (hdead : S.a.alive = false) (h : Handle) (hm : h ∈ S.d.handles) :
    (∀ s, S.d.liveSet s = none) ∧
    DynRoots.step S.d (.clone h) = .ok { S.d with handles := h :: S.d.handles } (.handle h) ∧
    DynRoots.step S.d (.dropHandle h) = .ok { S.d with handles := S.d.handles.erase h } .unit ∧
    (∀ s, DynRoots.step S.d (.fetch s h) = .illFormed) ∧
    (∀ op, (S.a.step op).1 = S.a) := by
  have hc : Coupled n S := by rw [hS]; exact coupled_run n ops
  have hnone := hc.dead hdead
  obtain ⟨h1, h2⟩ := C14.outlive S.d h hm (hnone h.set)
  refine ⟨hnone, h1, h2, fun s => ?_, fun op => step_dead hdead op⟩
  simp [DynRoots.step, hm, hnone s]

/-! ## Non-vacuity: concrete coupled runs (evaluated by the kernel) -/

/-- Set 0 (object 0, two slots) in root slot 0; object 1 stashed; `finish_marking` (everything black,
phase `Mark`, nothing gray: "Marked"); then, in a `mutate` callback, a fresh white object 2 is stashed
into the **black** set; the callback ends; the only handle of object 1 is dropped **between two
collection calls, outside any callback**, while the re-grayed set object is still queued; two
`finish_cycle` calls. -/
def demo : List COp := [
  .gc (.enter .mutateRoot), .newSet 0 2, .gc (.alloc true [none]), .stash 0 1, .gc .leave,
  .gc (.collect .finishMarking .drop none none),
  .gc (.enter .mutate), .gc (.alloc true [none]), .stash 0 2, .gc .leave,
  .dropHandle ⟨0, 0, 1, 0⟩,
  fc, fc]

/-- after `finish_marking`: "Marked", the set object is black and holds object 1 in slot 0 -/
example : ((Sys.init 1).run (demo.take 6)).a.collectionPhase = "Marked" ∧
    ((Sys.init 1).run (demo.take 6)).a.ctx.heap.get 0 =
      some ⟨.black, true, true, [some (.strong 1), none]⟩ := by decide

/-- the stash into the black set: the backward barrier re-grays the set object (so the white object 2
will be traced), the raw store is accepted, the table and the object agree -/
example : ((Sys.init 1).run (demo.take 9)).a.ctx.heap.get 0 =
      some ⟨.gray, true, true, [some (.strong 1), some (.strong 2)]⟩ ∧
    ((Sys.init 1).run (demo.take 9)).a.ctx.heap.get 2 = some ⟨.white, true, true, [none]⟩ ∧
    ((Sys.init 1).run (demo.take 9)).a.ctx.grayAgain = [0] ∧
    ((Sys.init 1).run (demo.take 9)).a.cover = [.pair 0 2] ∧
    ((Sys.init 1).run (demo.take 9)).d.sets =
      [⟨true, ⟨[.occupied 1 0, .occupied 2 0], DynRoots.nullIndex⟩⟩] ∧
    ((Sys.init 1).run (demo.take 9)).d.handles = [⟨0, 1, 2, 1⟩, ⟨0, 0, 1, 0⟩] := by decide

/-- The state right after the last handle of object 1 was dropped. -/
def afterDrop : Sys := (Sys.init 1).run (demo.take 11)

/-- the drop of the last handle of object 1, outside any callback, still in phase `Mark`: slot 0 of the
set object is cleared and vacated in the table; colours and queues are as before -/
example : afterDrop.a.ctx.heap.get 0 = some ⟨.gray, true, true, [none, some (.strong 2)]⟩ ∧
    afterDrop.a.ctx.heap.get 1 = some ⟨.black, true, true, [none]⟩ ∧
    afterDrop.a.ctx.phase = .mark ∧ afterDrop.a.ctx.grayAgain = [0] ∧
    afterDrop.a.cb = none ∧ afterDrop.a.temps = [] ∧
    afterDrop.d.sets = [⟨true, ⟨[.vacant DynRoots.nullIndex, .occupied 2 0], 0⟩⟩] ∧
    afterDrop.d.handles = [⟨0, 1, 2, 1⟩] := by decide

/-- two `finish_cycle` calls later object 1 has been destructed and released; the set object and the
still-stashed object 2 are alive -/
example : ((Sys.init 1).run demo).a.ctx.heap.get 1 = none ∧
    ((Sys.init 1).run demo).a.ctx.log = [.freed 1, .dropped 1] ∧
    ((Sys.init 1).run demo).a.ctx.heap.get 2 = some ⟨.white, true, true, [none]⟩ ∧
    ((Sys.init 1).run demo).a.ctx.heap.get 0 = some ⟨.white, true, true, [none, some (.strong 2)]⟩ ∧
    ((Sys.init 1).run demo).a.ctx.err = none := by decide

/-- the collector-model ops the coupled run executed (the encodings, in order) -/
example : ((Sys.init 1).run demo).aops = [
    .enter .mutateRoot, .alloc true [none, none], .rootStore 0 (some (.strong 0)), .alloc true [none],
    .readRoot 0, .barrier (.bb 0 (some 1)), .store .raw 0 0 (some (.strong 1)), .leave,
    .collect .finishMarking .drop none none,
    .enter .mutate, .alloc true [none],
    .readRoot 0, .barrier (.bb 0 (some 2)), .store .raw 0 1 (some (.strong 2)), .leave,
    .enter .mutate, .readRoot 0, .store .raw 0 0 none, .leave,
    .collect .finishCycle .drop none none, .collect .finishCycle .drop none none] := rfl

/-- The hypotheses of `collectable_after_last_drop` hold in `afterDrop` for set 0 and object 1: no
handle of object 1 is left, and object 1 is reachable by no route avoiding the edge 0 → 1 … -/
theorem afterDrop_only_via_set : ¬ ReachAvoiding afterDrop.a.ctx afterDrop.a.root 0 1 1 := by
  have key : ∀ j, ReachAvoiding afterDrop.a.ctx afterDrop.a.root 0 1 j → j = 0 ∨ j = 2 := by
    intro j hj
    induction hj with
    | root t ht =>
      have : afterDrop.a.root = [some (.strong 0)] := by decide
      rw [this] at ht; simp at ht; exact .inl ht
    | edge i t _ e _ ih =>
      obtain ⟨o, ho, hp⟩ := e
      rcases ih with rfl | rfl
      · have : afterDrop.a.ctx.heap.get 0 = some ⟨.gray, true, true, [none, some (.strong 2)]⟩ := by
          decide
        rw [this] at ho; cases ho; simp at hp; exact .inr hp
      · have : afterDrop.a.ctx.heap.get 2 = some ⟨.white, true, true, [none]⟩ := by decide
        rw [this] at ho; cases ho; simp at hp
  intro h
  rcases key 1 h with h | h <;> cases h

/-- … so the theorem applies: two `finish_cycle` calls leave object 1 neither allocated nor
undestructed (and the kernel evaluation above shows it is in fact destructed and released). -/
example : ¬ ∃ o, ((afterDrop.step fc).step fc).a.ctx.heap.get 1 = some o ∧ o.live = true :=
  (collectable_after_last_drop 1 (demo.take 11) afterDrop rfl 0 1
    ⟨true, ⟨[.vacant DynRoots.nullIndex, .occupied 2 0], 0⟩⟩ (by decide) (by decide) ⟨0, 0, 2⟩ (by decide)
    (by decide) afterDrop_only_via_set).2.2.2

/-- `stashed_survives_while_handle` applies in `afterDrop` to the remaining handle (object 2, still
white, stashed into a set that was black): it is `Safe`. -/
example : Safe afterDrop.a.ctx 2 :=
  (stashed_survives_while_handle 1 (demo.take 11) afterDrop rfl ⟨0, 1, 2, 1⟩ (by decide)
    ⟨true, ⟨[.vacant DynRoots.nullIndex, .occupied 2 0], 0⟩⟩ (by decide)).2 2 (.temp 2 (by simp))

/-- `fetch` inside a callback: the two reads of the encoding put the stashed pointer among the held
pointers. -/
example : ((Sys.init 1).run (demo.take 5 ++ [.gc (.enter .mutate), .fetch 0 ⟨0, 0, 1, 0⟩])).a.temps =
    [.strong 1, .strong 0] := by decide

/-- Slot reuse: after the drop, a new stash reuses table slot 0, and slot 0 of the set object holds
the new pointer; the older handle (index 1) still resolves to object 2. -/
example :
    let S := (Sys.init 1).run (demo.take 11 ++
      [.gc (.enter .mutate), .gc (.alloc true [none]), .stash 0 3, .gc .leave])
    S.d.handles = [⟨0, 0, 3, 2⟩, ⟨0, 1, 2, 1⟩] ∧
    S.a.ctx.heap.get 0 = some ⟨.gray, true, true, [some (.strong 3), some (.strong 2)]⟩ := by decide

/-- Restriction R4 at work: a set object with capacity 1 accepts one stash; the second (index 1) is
not a coupled operation and changes neither side. -/
example :
    let S := (Sys.init 1).run [.gc (.enter .mutateRoot), .newSet 0 1, .gc (.alloc true [none]),
      .gc (.alloc true [none]), .stash 0 1, .stash 0 2]
    S.d.handles = [⟨0, 0, 1, 0⟩] ∧
    S.a.ctx.heap.get 0 = some ⟨.white, true, true, [some (.strong 1)]⟩ := by decide

/-- A clone keeps the slot occupied when the original is dropped (no arena-side op at all). -/
example :
    let S := (Sys.init 1).run (demo.take 5 ++ [.clone ⟨0, 0, 1, 0⟩, .dropHandle ⟨0, 0, 1, 0⟩])
    S.d.handles = [⟨0, 0, 1, 0⟩] ∧ S.d.sets = [⟨true, ⟨[.occupied 1 0], DynRoots.nullIndex⟩⟩] ∧
    S.a.ctx.heap.get 0 = some ⟨.white, true, true, [some (.strong 1), none]⟩ ∧
    S.aops.length = 8 := by decide

/-- Arena drop: the set is destroyed; the surviving handle can still be cloned and dropped, without
touching the (dead) table. -/
example :
    let S := (Sys.init 1).run (demo ++ [.dropArena, .clone ⟨0, 1, 2, 1⟩, .dropHandle ⟨0, 1, 2, 1⟩])
    S.a.alive = false ∧ S.d.liveSet 0 = none ∧ S.d.handles = [⟨0, 1, 2, 1⟩] ∧
    S.d.sets = [⟨false, ⟨[.vacant DynRoots.nullIndex, .occupied 2 0], 0⟩⟩] ∧
    S.dops.length = 7 := by decide

end GcArena.C14s
