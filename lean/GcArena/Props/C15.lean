import GcArena.Proofs.DeriveLemmas
/-!
# C15 — `derive(Collect)` traces every field and rejects unsound uses (property theorems)

Model: `GcArena.Model.Derive` (hand-written from `/repo/derive/src/lib.rs`, `src/collect.rs`
`Trace::trace`, `src/no_drop.rs`), tied to the real proc-macro by the shape differential of
`/verif/harness_collect` (`lib/eng_collect.py`).  All theorems quantify over ALL declarations
(any number of variants and fields, any nesting of provided containers and derived ADTs, any
attribute lists) and all values; they are proved by structural induction, none by enumeration.

`*_generic` versions are about a generic declaration instantiated at an arbitrary exact
environment `ρ` (dictionary passing); the unsuffixed ones are the closed case `ρ = []`.

Naming.  `X_statement : Prop` = a clause of the property at full strength that is NOT proved
(reported as pending by lib/vcheck.py); `X_partial` = the part of it that is proved, under a
restriction the property text does not have.  `X_literal : Prop` with `X_literal_false : ¬ X_literal`
= a clause that, read literally, is FALSE of the derive (concrete witness, checked by `decide`, and
listed in /verif/known_findings.txt); `X_partial` again is what holds.  Theorems without a suffix
are proved exactly as stated.

Rejection theorems: `Rejected x` = the check fails with some error; `RejectedByMacro x` = it fails
inside the macro (`panic!` or `compile_error!`, see `Reject.stage`).  Where the error class is
determined the theorem names it.
-/
namespace GcArena.C15

open GcArena.Derive

/-! ## Exactness of the generated `trace` -/

/-- Generic form: for an accepted derive at an instantiation whose parameters are exact, the
generated `Collect::trace` of a well-typed value reports exactly (as a list, in declaration order)
the `Gc`/`GcWeak` pointers the value holds — every field of the active variant, `require_static`
fields being `'static` hence pointer-free (hypothesis inside `HasTypeIn`). -/
theorem exact_generic_list (ρ : List Sem) (hρ : EnvGood ρ) (d : Decl) (v : Val)
    (hc : deriveCheckIn ρ d = .ok ()) (ht : HasTypeIn ρ v d) : traceIn ρ d v = ptrsOf v :=
  traceR_eq ρ d.resolveDef (d.resolve ρ) (Decl.resolve_good d ρ hρ) hc v ht

theorem exact_generic (ρ : List Sem) (hρ : EnvGood ρ) (d : Decl) (v : Val)
    (hc : deriveCheckIn ρ d = .ok ()) (ht : HasTypeIn ρ v d) : (traceIn ρ d v).Perm (ptrsOf v) := by
  rw [exact_generic_list ρ hρ d v hc ht]

/-- C15, first sentence, at full strength (literal): for every accepted shape and every value of
that shape, the derived `trace` reports every `Gc` / `GcWeak` held in every field of the active
variant except the fields marked `require_static` — with NO assumption on what `'static` parts
hide.  PENDING, and not provable inside this model: `heldInTracedFields` includes pointers hidden
in `require_static` fields of NESTED derived types and in the fields of a type-level
`require_static` type, which the generated code deliberately skips because such parts are
`'static`; the clause is true of the implementation exactly if a `'static` type cannot hold an
arena pointer (the brand property, C12).  The proved part is `exact_partial`, where that
assumption is the explicit hypothesis inside `HasType`. -/
def exact_statement : Prop :=
  ∀ (d : Decl) (v : Val), deriveCheck d = .ok () → HasShape v d →
    (traceDerived d v).Perm (heldInTracedFields d v)

/-- C15, first half, proved part: `deriveCheck d = ok → HasType v d → traceDerived d v ~ ptrsOf v`
(`HasType` = `HasShape` + "`require_static` fields / `require_static` types are `'static`, hence
pointer-free", so `ptrsOf v` is exactly what the traced fields hold). -/
theorem exact_partial (d : Decl) (v : Val) (hc : deriveCheck d = .ok ()) (ht : HasType v d) :
    (traceDerived d v).Perm (ptrsOf v) :=
  exact_generic [] envGood_nil d v hc ht

/-- A generic declaration instantiated at ANY closed type arguments of the universe (no semantic
hypothesis left: the arguments' exactness is `Ty.sems_good`). -/
theorem exact_instantiated (d : Decl) (args : List Ty) (v : Val)
    (hc : deriveCheckIn (Ty.sems [] args) d = .ok ()) (ht : HasTypeIn (Ty.sems [] args) v d) :
    (traceIn (Ty.sems [] args) d v).Perm (ptrsOf v) :=
  exact_generic _ (Ty.sems_good args [] envGood_nil) d v hc ht

/-- The same through `Trace::trace` (with the `NEEDS_TRACE` short-circuit), which is how a derived
value is visited when it is a field of something else or the pointee of a `Gc`. -/
theorem exact_through_trace (ρ : List Sem) (hρ : EnvGood ρ) (d : Decl) (v : Val)
    (hc : deriveCheckIn ρ d = .ok ()) (ht : HasTypeIn ρ v d) :
    ((Decl.sem ρ d).visit v).Perm (ptrsOf v) := by
  have hg : Good (Decl.sem ρ d) := good_derived ρ d.resolveDef (d.resolve ρ) (Decl.resolve_good d ρ hρ)
  have hcol : (Decl.sem ρ d).collect = true := by
    simp only [Decl.sem, derivedSem]
    unfold deriveCheckIn at hc
    rw [hc]; rfl
  rw [hg hcol v ht]

/-- Every type of the universe — arbitrary nesting of provided containers, derived ADTs (accepted
by the derive), pointers and leaves — is traced exactly by `Trace::trace`. -/
theorem every_type_exact (t : Ty) (ρ : List Sem) (hρ : EnvGood ρ) (hcol : (t.sem ρ).collect = true)
    (v : Val) (hv : (t.sem ρ).check v = true) : ((t.sem ρ).visit v).Perm (ptrsOf v) := by
  rw [Ty.sem_good t ρ hρ hcol v hv]

/-! ## `NEEDS_TRACE` -/

/-- C15, second half: the generated `NEEDS_TRACE` is `true` exactly when the derive is in a tracing
mode and some field that survives the `require_static` filter — in ANY variant — has a type whose
`NEEDS_TRACE` is `true`. -/
theorem needs_trace_exact_generic (ρ : List Sem) (d : Decl) :
    needsTraceIn ρ d = true ↔
      (∃ o m, parseTypeAttrs d.attrs = .ok o ∧ o.mode = some m ∧ m ≠ .requireStatic) ∧
      ∃ f ∈ d.fields, f.traced = true ∧ (f.ty.sem ρ).needsTrace = true := by
  unfold needsTraceIn
  constructor
  · intro h
    cases hm : modeOf (d.resolve ρ) with
    | none => simp [needsTraceR, hm] at h
    | some m =>
      by_cases hrs : m = .requireStatic
      · subst hrs; rw [needsTraceR_requireStatic _ hm] at h; cases h
      · rw [needsTraceR_eq_any _ m hm hrs, List.any_eq_true] at h
        obtain ⟨rf, hrf, hn⟩ := h
        rw [List.mem_filter, Decl.resolve_fields, List.mem_map] at hrf
        obtain ⟨⟨f, hf, hfe⟩, hk⟩ := hrf
        subst hfe
        refine ⟨?_, f, hf, by simpa using hk, by simpa using hn⟩
        unfold modeOf at hm
        simp only [Decl.resolve_attrs] at hm
        cases hp : parseTypeAttrs d.attrs with
        | error e => simp [hp] at hm
        | ok o => simp only [hp] at hm; exact ⟨o, m, rfl, hm, hrs⟩
  · rintro ⟨⟨o, m, hp, hm, hrs⟩, f, hf, hk, hn⟩
    have hmode : modeOf (d.resolve ρ) = some m := by
      simp [modeOf, hp, hm]
    rw [needsTraceR_eq_any _ m hmode hrs, List.any_eq_true]
    refine ⟨f.resolve ρ, ?_, by simpa using hn⟩
    rw [List.mem_filter, Decl.resolve_fields]
    exact ⟨List.mem_map.mpr ⟨f, hf, rfl⟩, by simpa using hk⟩

theorem needs_trace_exact (d : Decl) :
    needsTraceDerived d = true ↔
      (∃ o m, parseTypeAttrs d.attrs = .ok o ∧ o.mode = some m ∧ m ≠ .requireStatic) ∧
      ∃ f ∈ d.fields, f.traced = true ∧ (f.ty.sem []).needsTrace = true :=
  needs_trace_exact_generic [] d

/-- One traced field whose type needs tracing is enough: the generated constant is `true` whatever
the other fields are, in whichever variant and position the field sits, and however its type is
spelled. -/
theorem needs_trace_of_traced_field (ρ : List Sem) (d : Decl) (o : Opts) (m : Mode)
    (hp : parseTypeAttrs d.attrs = .ok o) (hm : o.mode = some m) (hne : m ≠ .requireStatic)
    (f : Field) (hf : f ∈ d.fields) (hk : f.traced = true)
    (hn : (f.ty.sem ρ).needsTrace = true) : needsTraceIn ρ d = true :=
  (needs_trace_exact_generic ρ d).mpr ⟨⟨o, m, hp, hm, hne⟩, f, hf, hk, hn⟩

/-- Pointer types need tracing regardless of their pointee (`Gc<'gc, Self>`, `GcWeak<'gc, Self>`,
`Gc<'gc, RefLock<Self>>` are `Ty.gc` / `Ty.weak`), and every provided container of a type that
needs tracing does (`Option<Gc<'gc, Self>>`, `Vec<Gc<'gc, Self>>`, `[Option<Gc<'gc, Self>>; 2]`). So a
recursive node whose only pointer fields are links to `Self` still has `NEEDS_TRACE = true`. -/
theorem pointer_types_need_trace (ρ : List Sem) :
    (Ty.gc.sem ρ).needsTrace = true ∧ (Ty.weak.sem ρ).needsTrace = true ∧
    ∀ (c : Con) (args : List Ty), (∃ a ∈ args, (a.sem ρ).needsTrace = true) →
      ((Ty.con c args).sem ρ).needsTrace = true := by
  refine ⟨by simp [Ty.sem, Sem.gc], by simp [Ty.sem, Sem.weak], ?_⟩
  rintro c args ⟨a, ha, hn⟩
  simp only [Ty.sem, Sem.con, Ty.sems_eq, List.any_eq_true]
  exact ⟨a.sem ρ, List.mem_map.mpr ⟨a, ha, rfl⟩, hn⟩

/-- `NEEDS_TRACE = false` is sound: a well-typed value of an accepted derive whose generated
constant is `false` holds no arena pointer at all (so skipping it in `Trace::trace` loses nothing). -/
theorem needs_trace_sound_generic (ρ : List Sem) (hρ : EnvGood ρ) (d : Decl) (v : Val)
    (hc : deriveCheckIn ρ d = .ok ()) (ht : HasTypeIn ρ v d) (hn : needsTraceIn ρ d = false) :
    ptrsOf v = [] := by
  rw [← exact_generic_list ρ hρ d v hc ht]
  exact traceR_nil_of_not_needs _ hn v

theorem needs_trace_sound (d : Decl) (v : Val) (hc : deriveCheck d = .ok ()) (ht : HasType v d)
    (hn : needsTraceDerived d = false) : ptrsOf v = [] :=
  needs_trace_sound_generic [] envGood_nil d v hc ht hn

/-! ## Rejections performed by the macro itself -/

/-- Missing mode (no `#[collect]` attribute at all, or one without `require_static` / `no_drop` /
`unsafe_drop`): the macro `panic!`s. -/
theorem rejects_missing_mode (ρ : List Sem) (d : Decl) (o : Opts)
    (hp : parseTypeAttrs d.attrs = .ok o) (hm : o.mode = none) :
    deriveCheckIn ρ d = .error .missingMode ∧ Reject.missingMode.stage = .macroPanic := by
  refine ⟨?_, rfl⟩
  apply deriveCheckR_of_macro_error
  simp [macroCheck, hp, hm]

/-- No `#[collect(...)]` attribute at all. -/
theorem rejects_no_attribute (ρ : List Sem) (d : Decl) (h : d.attrs = []) :
    deriveCheckIn ρ d = .error .missingMode :=
  (rejects_missing_mode ρ d {} (by rw [h]; rfl) rfl).1

/-- Two or more `#[collect]` attributes on the type: `compile_error!`. -/
theorem rejects_duplicate_attr (ρ : List Sem) (d : Decl) (h : 2 ≤ d.attrs.length) :
    deriveCheckIn ρ d = .error .duplicateAttr ∧ Reject.duplicateAttr.stage = .compileError := by
  refine ⟨?_, rfl⟩
  apply deriveCheckR_of_parse_error
  simp only [Decl.resolve_attrs]
  match hd : d.attrs, h with
  | _ :: _ :: _, _ => rfl

/-- Any failure of the type-level option parser is the result of the check, and is a
`compile_error!`. -/
theorem rejects_type_attr_error (ρ : List Sem) (d : Decl) (e : Reject)
    (h : parseTypeAttrs d.attrs = .error e) :
    deriveCheckIn ρ d = .error e ∧ e.stage = .compileError :=
  ⟨deriveCheckR_of_parse_error ρ _ _ e (by simpa using h), parseTypeAttrs_error_stage _ e h⟩

theorem rejected_of_parse_not_ok (ρ : List Sem) (d : Decl)
    (h : ∀ o, parseTypeAttrs d.attrs ≠ .ok o) : RejectedByMacro (deriveCheckIn ρ d) := by
  cases hp : parseTypeAttrs d.attrs with
  | ok o => exact absurd hp (h o)
  | error e =>
    obtain ⟨h1, h2⟩ := rejects_type_attr_error ρ d e hp
    exact ⟨e, h1, by rw [h2]; decide⟩

/-- Two or more modes in the attribute (`#[collect(no_drop, unsafe_drop)]`, also the same mode
twice): `compile_error!`. -/
theorem rejects_multiple_modes (ρ : List Sem) (d : Decl) (a : Attr) (h : d.attrs = [a])
    (h2 : 2 ≤ (a.filter Opt.isMode).length) : RejectedByMacro (deriveCheckIn ρ d) := by
  apply rejected_of_parse_not_ok
  intro o hp
  rw [h] at hp
  have := parseOpts_modes a {} o (by simpa [parseTypeAttrs, findCollectMeta] using hp)
  omega

/-- Two or more `bound = "…"` options: `compile_error!`. -/
theorem rejects_multiple_bounds (ρ : List Sem) (d : Decl) (a : Attr) (h : d.attrs = [a])
    (h2 : 2 ≤ (a.filter Opt.isBound).length) : RejectedByMacro (deriveCheckIn ρ d) := by
  apply rejected_of_parse_not_ok
  intro o hp
  rw [h] at hp
  have := parseOpts_bounds a {} o (by simpa [parseTypeAttrs, findCollectMeta] using hp)
  omega

/-- Two or more `gc_lifetime = …` options: `compile_error!`. -/
theorem rejects_multiple_gc_lifetimes (ρ : List Sem) (d : Decl) (a : Attr) (h : d.attrs = [a])
    (h2 : 2 ≤ (a.filter Opt.isGcLifetime).length) : RejectedByMacro (deriveCheckIn ρ d) := by
  apply rejected_of_parse_not_ok
  intro o hp
  rw [h] at hp
  have := parseOpts_gcLifetimes a {} o (by simpa [parseTypeAttrs, findCollectMeta] using hp)
  omega

/-- An option that is neither a mode nor `bound` nor `gc_lifetime`: `compile_error!`. -/
theorem rejects_unknown_option (ρ : List Sem) (d : Decl) (a : Attr) (h : d.attrs = [a])
    (h2 : Opt.unknown ∈ a) : RejectedByMacro (deriveCheckIn ρ d) := by
  apply rejected_of_parse_not_ok
  intro o hp
  rw [h] at hp
  exact parseOpts_no_unknown a {} o (by simpa [parseTypeAttrs, findCollectMeta] using hp) h2

/-- Shared shape of the macro-level rejections that happen after the options parsed. -/
theorem rejected_by_macro_of (ρ : List Sem) (d : Decl)
    (hmode : ∀ o, parseTypeAttrs d.attrs = .ok o → o.mode ≠ some .requireStatic)
    (hbad : ∀ o, parseTypeAttrs d.attrs = .ok o →
      (o.gcLifetime.isNone && decide (2 ≤ d.lifetimes)) = true ∨
      (∃ e, fieldErrors (d.resolve ρ) = some e) ∨ (∃ e, variantErrors (d.resolve ρ) = some e)) :
    RejectedByMacro (deriveCheckIn ρ d) := by
  cases hp : parseTypeAttrs d.attrs with
  | error e =>
    obtain ⟨h1, h2⟩ := rejects_type_attr_error ρ d e hp
    exact ⟨e, h1, by rw [h2]; decide⟩
  | ok o =>
    cases hm : o.mode with
    | none => exact ⟨_, (rejects_missing_mode ρ d o hp hm).1, by decide⟩
    | some m =>
      have hne : m ≠ .requireStatic := by
        intro h; subst h; exact hmode o hp hm
      obtain ⟨e, he, hs⟩ := macroCheck_error_of (d.resolve ρ) o m (by simpa using hp) hm hne
        (by simpa using hbad o hp)
      exact ⟨e, deriveCheckR_of_macro_error ρ _ _ e he, hs⟩

/-- A field attribute other than exactly `#[collect(require_static)]` (another option, several
options, or several `#[collect]` attributes on the field), in a tracing mode: `compile_error!`.
(In type-level `require_static` mode the macro does not look at fields.) -/
theorem rejects_field_attr (ρ : List Sem) (d : Decl)
    (hmode : ∀ o, parseTypeAttrs d.attrs = .ok o → o.mode ≠ some .requireStatic)
    (f : Field) (hf : f ∈ d.fields) (hbad : fieldAttrError f.attrs ≠ none) :
    RejectedByMacro (deriveCheckIn ρ d) := by
  apply rejected_by_macro_of ρ d hmode
  intro o _
  right; left
  cases hfe : fieldAttrError f.attrs with
  | none => exact absurd hfe hbad
  | some e =>
    obtain ⟨e', h1, _⟩ := firstSome_some_of_mem
      ((d.resolve ρ).fields.map (fun f => fieldAttrError f.attrs)) e (by
        rw [Decl.resolve_fields, List.map_map, List.mem_map]
        exact ⟨f, hf, by simpa using hfe⟩)
    exact ⟨e', h1⟩

/-- The property's clause "the derive refuses to compile `require_static` on an enum variant",
literally: every enum with a `#[collect(..)]` attribute on a variant is rejected. -/
def rejects_variant_attr_literal : Prop :=
  ∀ (ρ : List Sem) (d : Decl), d.isEnum = true → (∃ v ∈ d.variants, v.attrs ≠ []) →
    Rejected (deriveCheckIn ρ d)

/-- The literal clause is FALSE of the derive (known finding
`derive-require-static-mode-accepts-variant-attr`): in type-level `require_static` mode the macro
inspects no inner attribute, `#[collect(require_static)] enum E { #[collect(require_static)] A(u8) }`
compiles (probe `require_static_mode_ignores_variant_attr.accepted`). -/
theorem rejects_variant_attr_literal_false : ¬ rejects_variant_attr_literal := by
  intro h
  have hok : deriveCheckIn [] Examples.staticModeVariantAttr = .ok () := by decide
  obtain ⟨e, he⟩ := h [] Examples.staticModeVariantAttr (by decide)
    ⟨.mk .tuple [[.mode .requireStatic]] [.mk [] .leaf], List.mem_cons_self, by decide⟩
  rw [hok] at he
  cases he

/-- Proved part: `#[collect(require_static)]` (or any `#[collect]`) on an enum VARIANT is refused
with a `compile_error!` in the tracing modes (`no_drop`, `unsafe_drop`). -/
theorem rejects_variant_attr_partial (ρ : List Sem) (d : Decl)
    (hmode : ∀ o, parseTypeAttrs d.attrs = .ok o → o.mode ≠ some .requireStatic)
    (he : d.isEnum = true) (v : Variant) (hv : v ∈ d.variants) (hbad : v.attrs ≠ []) :
    RejectedByMacro (deriveCheckIn ρ d) := by
  apply rejected_by_macro_of ρ d hmode
  intro o _
  right; right
  refine ⟨.variantAttr, ?_⟩
  unfold variantErrors
  have : (d.resolve ρ).variants.any (fun v => !v.attrs.isEmpty) = true := by
    rw [List.any_eq_true]
    refine ⟨v.resolve ρ, ?_, ?_⟩
    · rw [Decl.resolve_variants]; exact List.mem_map.mpr ⟨v, hv, rfl⟩
    · simpa [List.isEmpty_iff] using hbad
  simp only [Decl.resolve_isEnum, he, this, Bool.and_self, if_true]

/-- The property's clause "the derive refuses to compile several lifetime parameters without an
explicit `gc_lifetime`", literally: every declaration with two or more lifetime parameters and no
`gc_lifetime` option is refused by the macro. -/
def rejects_multiple_lifetimes_literal : Prop :=
  ∀ (ρ : List Sem) (d : Decl) (o : Opts), parseTypeAttrs d.attrs = .ok o → o.gcLifetime = none →
    2 ≤ d.lifetimes → RejectedByMacro (deriveCheckIn ρ d)

/-- The literal clause is FALSE of the derive (known finding
`derive-require-static-mode-accepts-two-lifetimes`): in type-level `require_static` mode the macro
never counts lifetimes, `#[collect(require_static)] struct S<'a, 'b>(&'a u8, &'b u8);` derives
`impl<'gc> Collect<'gc> for S<'a, 'b> where Self: 'static` without `gc_lifetime` (probe
`require_static_mode_two_lifetimes.accepted`).  (In the model every lifetime ARGUMENT is
non-`'static`, so the instantiation is then refused by the other clause, `Self: 'static` — a rustc
error, not the macro's refusal; at `S<'static, 'static>` rustc accepts.) -/
theorem rejects_multiple_lifetimes_literal_false : ¬ rejects_multiple_lifetimes_literal := by
  intro h
  have hr : deriveCheckIn [] Examples.staticModeTwoLifetimes = .error .notStatic := by decide
  obtain ⟨e, he, hs⟩ := h [] Examples.staticModeTwoLifetimes { mode := some .requireStatic } rfl rfl
    (by decide)
  rw [hr] at he
  cases he
  exact hs (by decide)

/-- Proved part: two or more lifetime parameters without `gc_lifetime = …`, in a tracing mode: the
macro `panic!`s (this is what the user sees even if field attributes are wrong too). -/
theorem rejects_multiple_lifetimes_partial (ρ : List Sem) (d : Decl) (o : Opts) (m : Mode)
    (hp : parseTypeAttrs d.attrs = .ok o) (hm : o.mode = some m) (hne : m ≠ .requireStatic)
    (hg : o.gcLifetime = none) (hl : 2 ≤ d.lifetimes) :
    deriveCheckIn ρ d = .error .multipleLifetimes ∧ Reject.multipleLifetimes.stage = .macroPanic := by
  refine ⟨?_, rfl⟩
  apply deriveCheckR_of_macro_error
  simp [macroCheck, hp, hm, hne, hg, hl]

/-! ## Rejections raised by rustc on the generated impls -/

/-- `no_drop` on a type that implements `Drop`: the generated `impl __MustNotImplDrop for T`
conflicts with the blanket `impl<T: Drop> __MustNotImplDrop for T` (E0119). If the macro itself
accepts the declaration, that is the error. -/
theorem rejects_drop_with_no_drop (ρ : List Sem) (d : Decl) (hd : d.hasDrop = true)
    (hm : ∀ o, parseTypeAttrs d.attrs = .ok o → o.mode = some .noDrop) :
    Rejected (deriveCheckIn ρ d) ∧
    (∀ o m, macroCheck (d.resolve ρ) = .ok (o, m) → deriveCheckIn ρ d = .error .dropConflict) := by
  have key : ∀ o m, macroCheck (d.resolve ρ) = .ok (o, m) →
      rustcDef o m d.resolveDef = .error .dropConflict := by
    intro o m hmc
    obtain ⟨h1, h2⟩ := macroCheck_mode _ o m hmc
    have hmo := hm o (by simpa using h2)
    have : m = .noDrop := by
      unfold modeOf at h1; simp only [h2, hmo, Option.some.injEq] at h1; exact h1.symm
    subst this
    simp [rustcDef, Decl.resolveDef, hd, firstErr]
  constructor
  · apply rejected_of_def
    intro o m hmc
    exact ⟨_, key o m hmc⟩
  · intro o m hmc
    simp [deriveCheckIn, deriveCheckR, hmc, key o m hmc]

/-- The clause "the derive refuses `require_static` on a non-`'static` type" for a FIELD attribute,
at full strength: whatever the type-level mode.  PENDING: in type-level `require_static` mode the
field attribute is ignored and the refusal comes from `Self: 'static` instead (a non-`'static`
field type makes `Self` non-`'static`), which needs lifetime scoping of field types that the model
does not have.  Proved: `rejects_require_static_not_static_partial` (tracing modes) and
`rejects_require_static_type_not_static` (the type-level attribute). -/
def rejects_require_static_not_static_statement : Prop :=
  ∀ (ρ : List Sem) (d : Decl) (f : Field), f ∈ d.fields → attrsStatic f.attrs = true →
    (f.ty.sem ρ).static = false → Rejected (deriveCheckIn ρ d)

/-- Proved part: `#[collect(require_static)]` on a field whose type is not `'static`, in a tracing
mode: the generated where-predicate `FieldTy: 'static` fails (region error). -/
theorem rejects_require_static_not_static_partial (ρ : List Sem) (d : Decl)
    (hmode : ∀ o, parseTypeAttrs d.attrs = .ok o → o.mode ≠ some .requireStatic)
    (f : Field) (hf : f ∈ d.fields) (hs : attrsStatic f.attrs = true)
    (hns : (f.ty.sem ρ).static = false) : Rejected (deriveCheckIn ρ d) := by
  apply rejected_of_use
  intro o m hmc
  obtain ⟨h1, h2⟩ := macroCheck_mode _ o m hmc
  have hne : ¬ ((m == Mode.requireStatic) = true) := by
    intro h
    have : m = .requireStatic := by simpa using h
    subst this
    unfold modeOf at h1; simp only [h2] at h1
    exact hmode o (by simpa using h2) h1
  unfold rustcUse
  rw [if_neg hne]
  apply firstErr_error _ ((f.ty.sem ρ).static, Reject.notStatic) _ hns
  refine List.mem_append_right _ (List.mem_append_left _ (List.mem_append_right _ ?_))
  rw [List.mem_map]
  refine ⟨f.resolve ρ, ?_, by simp⟩
  rw [List.mem_filter, Decl.resolve_fields]
  exact ⟨List.mem_map.mpr ⟨f, hf, rfl⟩, by simpa [RField.isStatic] using hs⟩

/-- Type-level `#[collect(require_static)]` on a type that is not `'static` (it has a lifetime
parameter, or a type argument that is not `'static`): the generated `where Self: 'static` fails. -/
theorem rejects_require_static_type_not_static (ρ : List Sem) (d : Decl)
    (hmode : ∀ o, parseTypeAttrs d.attrs = .ok o → o.mode = some .requireStatic)
    (hns : d.lifetimes ≠ 0 ∨ ∃ s ∈ ρ, s.static = false) : Rejected (deriveCheckIn ρ d) := by
  apply rejected_of_use
  intro o m hmc
  obtain ⟨h1, h2⟩ := macroCheck_mode _ o m hmc
  have hm : m = .requireStatic := by
    have := hmode o (by simpa using h2)
    unfold modeOf at h1; simp only [h2, this, Option.some.injEq] at h1; exact h1.symm
  subst hm
  unfold rustcUse
  simp only [beq_self_eq_true, if_true]
  apply firstErr_error _ (((d.resolve ρ).lifetimes == 0 && ρ.all (·.static)), Reject.notStatic)
  · exact List.mem_append_right _ List.mem_cons_self
  · simp only [Decl.resolve_lifetimes, Bool.and_eq_false_iff, beq_eq_false_iff_ne, ne_eq]
    rcases hns with h | ⟨s, hs, hst⟩
    · left; exact h
    · right
      rw [List.all_eq_false]
      exact ⟨s, hs, by simp [hst]⟩

/-- A traced field (one that survives the `require_static` filter) whose type is not `Collect`:
`FieldTy: Collect<'gc>` required by `cc.trace(bi)` / `<FieldTy as Collect>::NEEDS_TRACE` fails
(E0277).

Quantified over EVERY type shape of the model, i.e. every `Ty` constructor (coverage of the probe
corpus: `probe_corpus_covers_every_constructor`).  How the syntactic forms a field type can have
(`syn::Type`) map to `Ty`: `Path` → `leaf` / `gc` / `weak` / `opaque` / `param` / `con` (provided
container applied to arguments) / `adt`; `Reference` (`&'lt T`, `&'lt mut T`) → `ref` (`Collect`
iff `'lt = 'static` and `T: 'static`; `reference_is_collect_iff`, `rejects_reference_field`);
`Tuple` → `con tuple`; `Array` → `con (array n)`; `Slice` (behind `Box`/`Rc`/`&`) → `con vec`;
`Paren` / `Group` → the inner type; `Ptr` (`*const T`, `*mut T`), `BareFn`, `TraitObject` (other
than `dyn DynCollect`), `Never` → `opaque` (no provided `Collect` impl).  `ImplTrait`, `Infer`,
`Macro`, `Verbatim` cannot be field types (rustc rejects them before the derive matters).  The
derive itself never inspects the form (`needs_trace_expr`, `trace_body` and `filter` look only at
attributes), which is what `macroCheck` / `traceR` model. -/
theorem rejects_field_not_collect (ρ : List Sem) (d : Decl)
    (hmode : ∀ o, parseTypeAttrs d.attrs = .ok o → o.mode ≠ some .requireStatic)
    (f : Field) (hf : f ∈ d.fields) (hk : f.traced = true)
    (hnc : (f.ty.sem ρ).collect = false) : Rejected (deriveCheckIn ρ d) := by
  apply rejected_of_use
  intro o m hmc
  obtain ⟨h1, h2⟩ := macroCheck_mode _ o m hmc
  have hne : ¬ ((m == Mode.requireStatic) = true) := by
    intro h
    have : m = .requireStatic := by simpa using h
    subst this
    unfold modeOf at h1; simp only [h2] at h1
    exact hmode o (by simpa using h2) h1
  unfold rustcUse
  rw [if_neg hne]
  apply firstErr_error _ ((f.ty.sem ρ).collect, Reject.notCollect) _ hnc
  refine List.mem_append_right _ (List.mem_append_right _ ?_)
  rw [List.mem_map]
  refine ⟨f.resolve ρ, ?_, by simp⟩
  rw [List.mem_filter, Decl.resolve_fields]
  exact ⟨List.mem_map.mpr ⟨f, hf, rfl⟩, by simpa using hk⟩

/-- A reference type is `Collect` exactly when it is `&'static T` with `T: 'static` (the referent
need not be `Collect`); it never needs tracing. -/
theorem reference_is_collect_iff (ρ : List Sem) (st : Bool) (t : Ty) :
    ((Ty.ref st t).sem ρ).collect = (st && (t.sem ρ).static) ∧
    ((Ty.ref st t).sem ρ).needsTrace = false := by
  simp [Ty.sem, Sem.ref]

/-- A traced field of reference type whose lifetime is not `'static` (`view: &'gc T` obtained from
`Gc::as_ref`, `&'a T`, `&'gc mut T`) or whose referent is not `'static` is refused in the tracing
modes, in every variant and position. -/
theorem rejects_reference_field (ρ : List Sem) (d : Decl)
    (hmode : ∀ o, parseTypeAttrs d.attrs = .ok o → o.mode ≠ some .requireStatic)
    (f : Field) (hf : f ∈ d.fields) (hk : f.traced = true) (st : Bool) (t : Ty)
    (hty : f.ty = .ref st t) (hns : (st && (t.sem ρ).static) = false) :
    Rejected (deriveCheckIn ρ d) := by
  apply rejects_field_not_collect ρ d hmode f hf hk
  rw [hty, (reference_is_collect_iff ρ st t).1, hns]

/-- Lower bound on the probe corpus: the not-`Collect` field types of the rejection probes and the
`Collect` control twins (mirrored in `Examples.probeNotCollectFieldTypes` /
`probeCollectFieldTypes`; lib/eng_collect.py re-checks the same census on the descriptions it
actually sends) together exhibit EVERY constructor of `Ty` as the outermost constructor of a field type,
every not-`Collect` entry is indeed not `Collect` in the model and every control is. -/
theorem probe_corpus_covers_every_constructor :
    (List.range Ty.nctors).all (fun c =>
      (Examples.probeNotCollectFieldTypes ++ Examples.probeCollectFieldTypes).any (fun t => t.ctor == c)) = true ∧
    Examples.probeNotCollectFieldTypes.all (fun t => !(t.sem [Sem.abstractParam false false]).collect) = true ∧
    Examples.probeCollectFieldTypes.all (fun t => (t.sem [Sem.abstractParam true false]).collect) = true := by
  decide

/-- Conversely, an accepted derive in a tracing mode has no such field: every field is either
traced with a `Collect` type or filtered with a `'static` type — nothing is silently skipped. -/
theorem accepted_fields_covered (ρ : List Sem) (d : Decl) (hc : deriveCheckIn ρ d = .ok ())
    (hmode : ∀ o, parseTypeAttrs d.attrs = .ok o → o.mode ≠ some .requireStatic)
    (f : Field) (hf : f ∈ d.fields) :
    (f.traced = true ∧ (f.ty.sem ρ).collect = true) ∨
    (attrsStatic f.attrs = true ∧ (f.ty.sem ρ).static = true) := by
  by_cases hk : f.traced = true
  · left
    refine ⟨hk, ?_⟩
    cases hcol : (f.ty.sem ρ).collect with
    | true => rfl
    | false => exact absurd hc (rejected_not_ok (rejects_field_not_collect ρ d hmode f hf hk hcol))
  · right
    have hs : attrsStatic f.attrs = true := by
      simpa [Field.traced, attrsKept] using hk
    refine ⟨hs, ?_⟩
    cases hst : (f.ty.sem ρ).static with
    | true => rfl
    | false =>
      exact absurd hc (rejected_not_ok (rejects_require_static_not_static_partial ρ d hmode f hf hs hst))

/-! ## Non-vacuity: the declarations of `tests/tests.rs::derive_collect` and `tests/ui/*.rs` -/

section Examples
open GcArena.Derive.Examples

example : deriveCheck test1 = .ok () := by decide
example : needsTraceDerived test1 = true := by decide
example : HasType (.adt 0 [.leaf, .gc 7]) test1 := by decide
example : traceDerived test1 (.adt 0 [.leaf, .gc 7]) = [(7, false)] := by decide
example : deriveCheck test3 = .ok () ∧ needsTraceDerived test3 = true := by decide
-- the inactive variant's pointer type still makes NEEDS_TRACE true; the active arm reports nothing
example : HasType (.adt 1 [.leaf]) test3 ∧ traceDerived test3 (.adt 1 [.leaf]) = [] := by decide
example : deriveCheck test7 = .ok () ∧ needsTraceDerived test7 = false := by decide
example : HasType (.adt 0 [.opaque []]) test7 := by decide
-- the explicit hypothesis: a `require_static` field hiding a pointer is NOT well-typed
example : ¬ HasType (.adt 0 [.opaque [(1, false)]]) test7 := by decide
example : deriveCheckIn [Sem.gc] test9 = .ok () ∧ needsTraceIn [Sem.gc] test9 = true := by decide
example : deriveCheckIn [Sem.leaf] test9 = .ok () ∧ needsTraceIn [Sem.leaf] test9 = false := by decide
example : deriveCheckIn [Sem.opaque true] test9 = .error .boundUnsatisfied := by decide
example : deriveCheckIn (Ty.sems [] [.con .vec [.weak]]) test9 = .ok () ∧
    HasTypeIn (Ty.sems [] [.con .vec [.weak]]) (.adt 0 [.con [(0, .weak 4), (0, .weak 2)]]) test9 ∧
    traceIn (Ty.sems [] [.con .vec [.weak]]) test9 (.adt 0 [.con [(0, .weak 4), (0, .weak 2)]])
      = [(4, true), (2, true)] := by decide
example : deriveCheck outer = .ok () ∧ HasType outerVal outer := by decide
example : traceDerived outer outerVal = [(1, false), (2, true), (3, false)] := by decide
example : ptrsOf outerVal = [(1, false), (2, true), (3, false)] := by decide

-- a list node whose only pointer field is the link to `Self`:
-- `struct Node<'gc> { value: u32, #[collect(require_static)] token: Token, next: Option<Gc<'gc, Self>> }`
example : deriveCheck selfNode = .ok () ∧ needsTraceDerived selfNode = true := by decide
example : HasType (.adt 0 [.leaf, .opaque [], .con [(0, .gc 5)]]) selfNode ∧
    traceDerived selfNode (.adt 0 [.leaf, .opaque [], .con [(0, .gc 5)]]) = [(5, false)] := by decide
-- `enum Tree<'gc> { Empty, Leaf(#[collect(require_static)] Token, u32), Branch { #[collect(require_static)]
-- token: Token, children: Vec<Gc<'gc, Self>> } }`: the inactive variants do not hide the link
example : deriveCheck selfTree = .ok () ∧ needsTraceDerived selfTree = true ∧
    traceDerived selfTree (.adt 2 [.opaque [], .con [(0, .gc 1), (0, .gc 2)]]) = [(1, false), (2, false)] := by
  decide

-- `exact_statement` vs `exact_partial`: a value whose nested `require_static` field hides a pointer has
-- the SHAPE of a `Holder` but is not well-typed; the generated code (correctly, the field being
-- `'static`) reports nothing, while the literal clause counts the hidden pointer as "held in a field
-- not marked require_static" — the literal clause holds exactly if `'static` data cannot hide one
example : HasShape (.adt 0 [.adt 0 [.opaque [(1, false)]]]) holder ∧
    ¬ HasType (.adt 0 [.adt 0 [.opaque [(1, false)]]]) holder ∧
    traceDerived holder (.adt 0 [.adt 0 [.opaque [(1, false)]]]) = [] ∧
    heldInTracedFields holder (.adt 0 [.adt 0 [.opaque [(1, false)]]]) = [(1, false)] := by decide
-- on well-typed values the two right-hand sides coincide
example : HasShape outerVal outer ∧ heldInTracedFields outer outerVal = ptrsOf outerVal := by decide

-- the borrowed view: `#[collect(no_drop)] struct View<'gc> { serial: u32, view: &'gc Tracked }` is refused,
-- `&'static Tracked` is accepted, never traced, NEEDS_TRACE false
example : deriveCheck (strct [[.mode .noDrop]] 1 0 false .named [fld .leaf, fld (.ref false .leaf)])
    = .error .notCollect := by decide
example : deriveCheck (strct [[.mode .noDrop]] 0 0 false .named [fld .leaf, fld (.ref true (.opaque true))])
    = .ok () ∧
    needsTraceDerived (strct [[.mode .noDrop]] 0 0 false .named [fld .leaf, fld (.ref true (.opaque true))])
    = false := by decide

-- tests/ui/bad_collect_bound.rs
example : deriveCheck (strct [[.mode .noDrop]] 0 0 false .named [fld (.opaque true)])
    = .error .notCollect := by decide
-- tests/ui/invalid_collect_field.rs
example : deriveCheck (strct [[.mode .noDrop]] 0 0 false .named [.mk [[.unknown]] .leaf])
    = .error .fieldAttrNotRequireStatic := by decide
-- tests/ui/multiple_require_static.rs
example : deriveCheck (strct [[.mode .noDrop]] 0 0 false .named
    [.mk [[.mode .requireStatic], [.mode .requireStatic]] .leaf]) = .error .duplicateAttr := by decide
-- tests/ui/no_drop_and_drop_impl.rs
example : deriveCheck (strct [[.mode .noDrop]] 0 0 true .named []) = .error .dropConflict := by decide
-- tests/ui/require_static_enum_variant.rs
example : deriveCheck (.mk true [[.mode .noDrop]] 0 0 false
    [.mk .named [[.mode .requireStatic]] [fld .leaf]]) = .error .variantAttr := by decide
-- tests/ui/require_static_not_static.rs
example : deriveCheck (strct [[.mode .noDrop]] 1 0 false .named [sfld (.opaque false)])
    = .error .notStatic := by decide
-- missing / duplicated mode, unknown option, multiple bounds, two lifetimes
example : deriveCheck (strct [] 0 0 false .unit []) = .error .missingMode := by decide
example : deriveCheck (strct [[.bound []]] 0 0 false .unit []) = .error .missingMode := by decide
example : deriveCheck (strct [[.mode .noDrop, .mode .unsafeDrop]] 0 0 false .unit [])
    = .error .multipleModes := by decide
example : deriveCheck (strct [[.mode .noDrop], [.mode .noDrop]] 0 0 false .unit [])
    = .error .duplicateAttr := by decide
example : deriveCheck (strct [[.unknown]] 0 0 false .unit []) = .error .unknownOption := by decide
example : deriveCheck (strct [[.mode .noDrop, .bound [], .bound []]] 0 0 false .unit [])
    = .error .multipleBounds := by decide
example : deriveCheck (strct [[.mode .noDrop]] 2 0 false .tuple [fld .gc])
    = .error .multipleLifetimes := by decide
-- `Test5<'gc, 'a>` with `gc_lifetime = 'gc` is accepted
example : deriveCheck (strct [[.mode .noDrop, .gcLifetime 0]] 2 0 false .tuple [fld .gc]) = .ok () := by
  decide
-- `bound = ""` with a traced field of parameter type: rejected at the definition site
example : deriveCheckIn [Sem.gc] (strct [[.mode .noDrop, .bound []]] 1 1 false .tuple [fld (.param 0)])
    = .error .notCollect := by decide
-- `unsafe_drop` with a `Drop` impl is accepted; type-level `require_static` yields `false`
example : deriveCheck (strct [[.mode .unsafeDrop]] 1 0 true .tuple [fld .gc]) = .ok () := by decide
example : deriveCheck (strct [[.mode .requireStatic]] 0 0 false .tuple [fld (.opaque true)]) = .ok () ∧
    needsTraceDerived (strct [[.mode .requireStatic]] 0 0 false .tuple [fld (.opaque true)]) = false := by
  decide

end Examples

end GcArena.C15
