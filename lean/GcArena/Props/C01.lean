import GcArena.Proofs.Events
/-!
# C01 — No strongly reachable value is ever dropped or freed (GC safety)

Model: `GcArena.Model.{Context,Driver,Arena}` (src/context.rs, src/arena.rs, the mutator API of
src/gc.rs / gc_weak.rs / lock.rs).  Every statement quantifies over **all** operation sequences
`ops : List Op` — every interleaving of mutator steps (allocation, stores through every barrier
path, root replacement, downgrade / upgrade, resurrection) with collection calls of every method,
every `RunUntil` / `Stop`, every pacing and debt (self-driven) or any sequence of enabled
micro-steps (oracle-driven), with a `trace` unwinding at any position.

`Accessible a i`: the client can name object `i` — it is held by the root or by the running
callback, or can be read out of an object it can name.  No colours, phases or queues occur in the
statements; they live in the invariant `Inv` (Spec/Inv.lean) proved by `inv_run`.
-/
namespace GcArena.C01

open GcArena

/-- Whatever the client can name is allocated and its value has not been destructed. -/
theorem safety (n : Nat) (ops : List Op) (halive : ((Arena.new n).run ops).alive = true) (i : Nat)
    (hi : Accessible ((Arena.new n).run ops) i) :
    ∃ o, ((Arena.new n).run ops).ctx.heap.get i = some o ∧ o.live = true := by
  obtain ⟨o, ho, hl, _⟩ := (inv_run n ops halive).safe_of_accessible hi
  exact ⟨o, ho, hl⟩

/-- … and the sweep in progress (if any) will neither destruct nor release it: it lies in front of
    the sweep cursor or is marked black. -/
theorem not_condemned (n : Nat) (ops : List Op) (halive : ((Arena.new n).run ops).alive = true)
    (i : Nat) (hi : Accessible ((Arena.new n).run ops) i) :
    Safe ((Arena.new n).run ops).ctx i :=
  (inv_run n ops halive).safe_of_accessible hi

/-- No run ever touches a released block, trips a `debug_assert!` of context.rs, or reaches an
    `unreachable!()` / failing `assert!`: the model's sticky fault flag stays clear. -/
theorem no_internal_fault (n : Nat) (ops : List Op) (halive : ((Arena.new n).run ops).alive = true) :
    ((Arena.new n).run ops).ctx.err = none :=
  (inv_run n ops halive).cinv.noErr

/-- One collector micro-step destructs / releases only an object that no client can name at
    that moment. -/
theorem step_spares_reachable {c c' : Ctx} {root : List Slot} (h : CInv c root []) (m : Micro)
    (hs : c.micro root m = some c') :
    ∃ evs, NewEvents c c' evs ∧ ∀ e, e ∈ evs → ¬ StrongReachC c root e.target :=
  micro_events h m hs

/-- A whole collection call — any sequence of enabled micro-steps — destructs / releases only
    objects that were not strongly reachable when it began, and leaves everything that was
    strongly reachable reachable. -/
theorem call_spares_reachable {root : List Slot} (ms : List Micro) {c c' : Ctx} (h : CInv c root [])
    (hs : c.micros root ms = some c') :
    (∃ evs, NewEvents c c' evs ∧ ∀ e, e ∈ evs → ¬ StrongReachC c root e.target) ∧
    (∀ i, StrongReachC c root i → StrongReachC c' root i) :=
  micros_events ms h hs

/-- The self-driven driver loop (`Context::do_collection` with any `RunUntil`, `Stop`, fault
    position and any pacing / debt) is such a sequence of enabled micro-steps. -/
theorem do_collection_is_micro_steps {c : Ctx} {root : List Slot} (ru : RunUntil) (stop : Stop)
    (fault : TraceFault) (h : CInv c root []) :
    ∃ ms, c.micros root ms = some (c.doCollection root ru stop fault).1 :=
  doCollection_reaches h

/-- Reading a slot returns the pointer last stored there. -/
theorem deref_reads_stored (c : Ctx) (p i : Nat) (v : Slot) (o : Obj) (ho : c.heap.get p = some o)
    (hi : i < o.slots.length) : Arena.slotOf (Arena.setSlot c p i v) p i = some v := by
  simp [Arena.slotOf, Arena.setSlot, ho, hi]

/-! ### Non-vacuity: a concrete history reaching the states the hypotheses talk about -/

/-- root → 1 → 0, object 2 garbage; full mark, sweep started, one sweep step (2 released), then a
    callback that reads its way down the graph while the sweep is half done. -/
def demo : List Op := [
  .enter .mutateRoot, .alloc true [none, none], .alloc true [some (.strong 0), none],
  .rootStore 0 (some (.strong 1)), .alloc true [none, none], .leave,
  .collect .finishMarking .sweep none
    (some [.wake, .markStep none, .markStep none, .markStep none, .markBreak, .toSweep]),
  .collect .collectDebt .drop none (some [.sweepStep]),
  .enter .mutate, .readRoot 0, .read 1 0 ]

example : ((Arena.new 2).run demo).alive = true := by decide
example : ((Arena.new 2).run demo).ctx.phase = .sweep := by decide
example : ((Arena.new 2).run demo).temps = [.strong 0, .strong 1] := by decide
example : ((Arena.new 2).run demo).ctx.log = [.freed 2, .dropped 2] := by decide
example : Accessible ((Arena.new 2).run demo) 0 := .temp 0 (by decide)

end GcArena.C01
