import GcArena.Proofs.Events
import GcArena.Proofs.SlotFrame
/-!
# C01 — No strongly reachable value is ever dropped or freed (GC safety)

Model: `GcArena.Model.{Context,Driver,Arena}` (src/context.rs, src/arena.rs, the mutator API of
src/gc.rs / gc_weak.rs / lock.rs).  Every statement quantifies over **all** operation sequences
`ops : List Op` — every interleaving of mutator steps (allocation, stores through every barrier
path, root replacement, downgrade / upgrade, resurrection) with collection calls of every method,
every `RunUntil` / `Stop`, every pacing and debt (self-driven) or any sequence of enabled
micro-steps (oracle-driven), with a `trace` unwinding at any position.

`Accessible a i`: the client can name object `i` — it is held by the root or by the running
callback, or can be read out of an object it can name.  No colours, phases or queues occur in the
statements; they live in the invariant `Inv` (Spec/Inv.lean) proved by `inv_run`.
-/
namespace GcArena.C01

open GcArena

/-- Whatever the client can name is allocated and its value has not been destructed. -/
theorem safety (n : Nat) (ops : List Op) (halive : ((Arena.new n).run ops).alive = true) (i : Nat)
    (hi : Accessible ((Arena.new n).run ops) i) :
    ∃ o, ((Arena.new n).run ops).ctx.heap.get i = some o ∧ o.live = true := by
  obtain ⟨o, ho, hl, _⟩ := (inv_run n ops halive).safe_of_accessible hi
  exact ⟨o, ho, hl⟩

/-- … and the sweep in progress (if any) will neither destruct nor release it: it lies in front of
    the sweep cursor or is marked black. -/
theorem not_condemned (n : Nat) (ops : List Op) (halive : ((Arena.new n).run ops).alive = true)
    (i : Nat) (hi : Accessible ((Arena.new n).run ops) i) :
    Safe ((Arena.new n).run ops).ctx i :=
  (inv_run n ops halive).safe_of_accessible hi

/-- No run ever touches a released block, trips a `debug_assert!` of context.rs, or reaches an
    `unreachable!()` / failing `assert!`: the model's sticky fault flag stays clear. -/
theorem no_internal_fault (n : Nat) (ops : List Op) (halive : ((Arena.new n).run ops).alive = true) :
    ((Arena.new n).run ops).ctx.err = none :=
  (inv_run n ops halive).cinv.noErr

/-- One collector micro-step destructs / releases only an object that no client can name at
    that moment. -/
theorem step_spares_reachable {c c' : Ctx} {root : List Slot} (h : CInv c root []) (m : Micro)
    (hs : c.micro root m = some c') :
    ∃ evs, NewEvents c c' evs ∧ ∀ e, e ∈ evs → ¬ StrongReachC c root e.target :=
  micro_events h m hs

/-- A whole collection call — any sequence of enabled micro-steps — destructs / releases only
    objects that were not strongly reachable when it began, and leaves everything that was
    strongly reachable reachable. -/
theorem call_spares_reachable {root : List Slot} (ms : List Micro) {c c' : Ctx} (h : CInv c root [])
    (hs : c.micros root ms = some c') :
    (∃ evs, NewEvents c c' evs ∧ ∀ e, e ∈ evs → ¬ StrongReachC c root e.target) ∧
    (∀ i, StrongReachC c root i → StrongReachC c' root i) :=
  micros_events ms h hs

/-- The self-driven driver loop (`Context::do_collection` with any `RunUntil`, `Stop`, fault
    position and any pacing / debt) is such a sequence of enabled micro-steps. -/
theorem do_collection_is_micro_steps {c : Ctx} {root : List Slot} (ru : RunUntil) (stop : Stop)
    (fault : TraceFault) (h : CInv c root []) :
    ∃ ms, c.micros root ms = some (c.doCollection root ru stop fault).1 :=
  doCollection_reaches h

/-- Reading a slot returns the pointer last stored there. -/
theorem deref_reads_stored (c : Ctx) (p i : Nat) (v : Slot) (o : Obj) (ho : c.heap.get p = some o)
    (hi : i < o.slots.length) : Arena.slotOf (Arena.setSlot c p i v) p i = some v := by
  simp [Arena.slotOf, Arena.setSlot, ho, hi]

/-! ### A dereference reads the value that was stored -/

/-- **Frame for collector steps**: a collector micro-step leaves the slots of every object that is
    allocated and undestructed afterwards exactly as they were (and such an object was
    undestructed before). -/
theorem collector_step_keeps_slots {c c' : Ctx} {root : List Slot} (h : CInv c root []) (m : Micro)
    (hs : c.micro root m = some c') (i : Nat) (o o' : Obj) (ho : c.heap.get i = some o)
    (ho' : c'.heap.get i = some o') (hl : o'.live = true) : o'.slots = o.slots ∧ o.live = true := by
  obtain ⟨o2, ho2, hl2, s⟩ := micro_liveFrame h m hs i o' ho' hl
  rw [ho] at ho2; cases ho2
  exact ⟨s, hl2⟩

/-- The same for a whole `Context::do_collection` call — any `RunUntil`, `Stop`, pacing, debt and
    fault position. -/
theorem collection_call_keeps_slots {c : Ctx} {root : List Slot} (h : CInv c root []) (ru : RunUntil)
    (stop : Stop) (fault : TraceFault) (i : Nat) (o o' : Obj) (ho : c.heap.get i = some o)
    (ho' : (c.doCollection root ru stop fault).1.heap.get i = some o') (hl : o'.live = true) :
    o'.slots = o.slots ∧ o.live = true := by
  obtain ⟨o2, ho2, hl2, s⟩ := doCollection_liveFrame h ru stop fault i o' ho' hl
  rw [ho] at ho2; cases ho2
  exact ⟨s, hl2⟩

/-- The same for every collection op of the API, on every state an arena can reach: every method,
    continuation (`drop` / `finalize` / `start_sweeping`), fault position, self- or oracle-driven. -/
theorem collect_op_keeps_slots (n : Nat) (pre : List Op) (m : Method) (k : Cont) (f : TraceFault)
    (oracle : Option (List Micro)) :
    let a := (Arena.new n).run pre
    a.alive = true →
    ∀ i o o', a.ctx.heap.get i = some o → (a.step (.collect m k f oracle)).1.ctx.heap.get i = some o' →
      o'.live = true → o'.slots = o.slots ∧ o.live = true := by
  intro a halive i o o' ho ho' hl
  obtain ⟨o2, ho2, hl2, s⟩ := step_collect_liveFrame (inv_run n pre halive) m k f oracle i o' ho' hl
  rw [ho] at ho2; cases ho2
  exact ⟨s, hl2⟩

/-- **Slots change only by stores into them.**  On any state an arena can reach: if slot `k` of
    object `i` reads `v` (because it was just stored there, or because `i` was allocated with it),
    then after any further operations none of which is a store into `(i, k)` — allocations, stores
    into other objects and into other slots of `i`, barriers, upgrades, resurrections, root
    replacement, callbacks ending and beginning, collection calls of every kind — it still reads
    `v`, for as long as `i` has not been destructed. -/
theorem slot_reads_back_run (n : Nat) (pre : List Op) (i k : Nat) (v : Slot) (ops : List Op) :
    let a := (Arena.new n).run pre
    a.alive = true → Arena.slotOf a.ctx i k = some v →
    (∀ op, op ∈ ops → op.writesSlot i k = false) →
    (a.run ops).alive = true →
    (∃ o', (a.run ops).ctx.heap.get i = some o' ∧ o'.live = true) →
    Arena.slotOf (a.run ops).ctx i k = some v := by
  intro a halive hv hops hal hl
  exact slot_reads_back (inv_run n pre halive) i k v ops hv hops hal hl

/-- **A dereference reads the last value stored.**  On any state an arena can reach, after an
    accepted store of `v` into slot `k` of object `i` (through any write path) and any further
    operations none of which stores into `(i, k)`, a read of that slot through a held `Gc` pointer
    returns `v`.  (Holding the pointer implies `i` is still undestructed: C01 `safety`.) -/
theorem deref_reads_last_store (n : Nat) (pre : List Op) (path : StorePath) (i k : Nat) (v : Slot)
    (ops : List Op) :
    let a := (Arena.new n).run pre
    let b := (a.step (.store path i k v)).1.run ops
    a.alive = true → (a.step (.store path i k v)).2 = "ok" →
    (∀ op, op ∈ ops → op.writesSlot i k = false) →
    b.alive = true → b.cb ≠ none → b.holds (.strong i) = true →
    (b.step (.read i k)).2 = Arena.showSlot v := by
  intro a b halive hok hops hbal hcb hh
  have h : Inv a := inv_run n pre halive
  have hal1 : (a.step (.store path i k v)).1.alive = true := alive_of_run_alive hbal
  have h1 : Inv (a.step (.store path i k v)).1 := inv_step h _ hal1
  have hb : Inv b := inv_run_from ops h1 hbal
  have hsafe : Safe b.ctx i := hb.ptrOK_of_holds hh
  obtain ⟨o', ho', hl', _⟩ := hsafe
  have hv := slot_reads_back h1 i k v ops (store_sets_slot path i k v hok) hops hbal ⟨o', ho', hl'⟩
  exact read_returns_slot hbal hcb hh hv

/-! ### Non-vacuity: a concrete history reaching the states the hypotheses talk about -/

/-- root → 1 → 0, object 2 garbage; full mark, sweep started, one sweep step (2 released), then a
    callback that reads its way down the graph while the sweep is half done. -/
def demo : List Op := [
  .enter .mutateRoot, .alloc true [none, none], .alloc true [some (.strong 0), none],
  .rootStore 0 (some (.strong 1)), .alloc true [none, none], .leave,
  .collect .finishMarking .sweep none
    (some [.wake, .markStep none, .markStep none, .markStep none, .markBreak, .toSweep]),
  .collect .collectDebt .drop none (some [.sweepStep]),
  .enter .mutate, .readRoot 0, .read 1 0 ]

example : ((Arena.new 2).run demo).alive = true := by decide
example : ((Arena.new 2).run demo).ctx.phase = .sweep := by decide
example : ((Arena.new 2).run demo).temps = [.strong 0, .strong 1] := by decide
example : ((Arena.new 2).run demo).ctx.log = [.freed 2, .dropped 2] := by decide
example : Accessible ((Arena.new 2).run demo) 0 := .temp 0 (by decide)

/-- `deref_reads_last_store` on a concrete history: root → 0; `strong 1` is stored into slot 0 of
    object 0; then the callback ends, a whole cycle runs in three collection calls (marking,
    sweeping started, the rest), interleaved with a callback that allocates and stores into slot 1
    of the same object; a later callback reads slot 0 and gets `s1`. -/
def storeDemoPre : List Op := [
  .enter .mutateRoot, .alloc true [none, none], .rootStore 0 (some (.strong 0)), .alloc true [none] ]

def storeDemoOps : List Op := [
  .leave,
  .collect .finishMarking .sweep none none,
  .enter .mutate, .readRoot 0, .alloc true [none], .store .write 0 1 (some (.strong 2)), .leave,
  .collect .finishCycle .drop none none,
  .enter .mutate, .readRoot 0 ]

example : (((((Arena.new 1).run storeDemoPre).step (.store .write 0 0 (some (.strong 1)))).1.run storeDemoOps).step
    (.read 0 0)).2 = "s1" :=
  deref_reads_last_store 1 storeDemoPre .write 0 0 (some (.strong 1)) storeDemoOps (by decide) (by decide)
    (by decide) (by decide) (by decide) (by decide)

end GcArena.C01
