import GcArena.Proofs.DynRootsLemmas
/-!
# C14 — DynamicRootSet keeps stashed objects alive exactly while a handle exists

"An object stashed in a DynamicRootSet that is reachable from the root, and everything reachable
from it, survives every collection while at least one DynamicRoot handle for it (the original or any
clone) exists, and becomes collectable once the last such handle is dropped. fetch returns a pointer
to the very object that was stashed, a handle is accepted only by the set that issued it (try_fetch
fails, contains is false and fetch panics for a handle from another set, another arena or a
destroyed arena), slot reuse never changes what a live handle resolves to, and handles may outlive
their arena harmlessly."

The theorems below are about the literal model `GcArena.Model.DynRoots` of `src/dynamic_roots.rs`
(slot table with per-slot reference count and free list, handles, several sets, destroyed sets) and
hold after **every history** of `newSet / stash / clone / dropHandle / fetch / tryFetch / contains /
destroySet` calls — any interleaving, any number of sets, with slot reuse after frees
(`GcArena.DynRoots.inv_run`, induction over the operation list).

Division of labour.  The *set object* is an ordinary heap object of the collector model: its traced
slots are the occupied entries (`Slots.traced`), and `stash` is `backward_barrier(set, Some(root))`
followed by the slot store (`Op.barrier (.bb set (some root))`, `Op.store .raw …` of
Model/Context.lean).  By `traced` the set object reports exactly the pointers of the live handles, so
"survives while a handle exists / collectable afterwards" is C01 + C06 + C02 of the collector
development (`GcArena.inv_run`) applied to that object.  What is proved *here* is the part the
collector model takes for granted: the table really contains `h.ptr` for every live handle `h`,
nothing else, and none of its internal panics can fire.

Trusted (DESIGN §9): `Weak::as_ptr` of a dropped `Rc` never equals `Rc::as_ptr` of a live one —
modelled as set ids that are never reused; `usize` reference counts do not overflow.
The model is tied to the code by the correspondence check `lib/eng_dynroots.py`
(`harness_dynroots` drives the real crate, `dynmodel` runs these very definitions).
-/
namespace GcArena.C14

open GcArena.DynRoots

/-! ## refine — the slot table refines the multiset of live handles -/

/-- After every history: for every live handle `h` whose set is alive, slot `h.index` of that set
is `Occupied { root = h.ptr, ref_count }` with `ref_count + 1` = the number of live handles with
that set and index; and two live handles have the same (set, index) pair **iff** they stem from
the same `stash` call — slot reuse never retargets a live handle. -/
theorem refine (ops : List Op) (st : State) (hst : st = run State.init ops) :
    (∀ h ∈ st.handles, ∀ rs, st.liveSet h.set = some rs →
      ∃ c, rs.slots.slots[h.index]? = some (.occupied h.ptr c) ∧
        c + 1 = (st.handles.filter
                  (fun h' => decide (h'.set = h.set ∧ h'.index = h.index))).length) ∧
    (∀ h1 ∈ st.handles, ∀ h2 ∈ st.handles,
      (h1.set = h2.set ∧ h1.index = h2.index) ↔ h1.stash = h2.stash) := by
  subst hst
  have inv := inv_run ops
  constructor
  · intro h hm rs hl
    obtain ⟨hls, ha⟩ := liveSet_eq_some.1 hl
    have ok := inv.sets h.set rs hls ha
    obtain ⟨c, hv⟩ := ok.occ h hm rfl
    refine ⟨c, hv, ?_⟩
    rw [← cnt_eq_filter_length, ok.count _ _ _ hv]
  · intro h1 hm1 h2 hm2
    constructor
    · rintro ⟨hs, hi⟩; exact inv.same h1 hm1 h2 hm2 hs hi
    · intro he
      have := inv.uniq h1 hm1 h2 hm2 he
      subst this; exact ⟨rfl, rfl⟩

/-- What the ghost stash id means, part 1: `stash` returns a handle for the given set and pointer
whose stash id differs from that of every live handle, and adds exactly that handle. -/
theorem stash_returns (ops : List Op) (st st' : State) (hst : st = run State.init ops)
    (s p : Nat) (h : Handle) (hs : step st (.stash s p) = .ok st' (.handle h)) :
    h.set = s ∧ h.ptr = p ∧ (∀ h' ∈ st.handles, h'.stash ≠ h.stash) ∧
      st'.handles = h :: st.handles := by
  subst hst
  have inv := inv_run ops
  simp only [step] at hs
  split at hs
  · cases hs
  · split at hs
    · cases hs
    · cases hs
      refine ⟨rfl, rfl, ?_, rfl⟩
      intro h' hm
      have := inv.hstash h' hm
      simp only; omega

/-- What the ghost stash id means, part 2: a clone is the same handle value (same set, index,
pointer and stash id), and one more copy of it is live. -/
theorem clone_returns (st st' : State) (h h2 : Handle)
    (hs : step st (.clone h) = .ok st' (.handle h2)) :
    h2 = h ∧ st'.handles = h :: st.handles := by
  simp only [step] at hs
  split at hs
  · split at hs
    · cases hs; exact ⟨rfl, rfl⟩
    · split at hs
      · cases hs
      · cases hs; exact ⟨rfl, rfl⟩
  · cases hs

/-! ## free_list -/

/-- After every history, in every alive set: following `next_free` from the head visits a
duplicate-free (hence acyclic, `NULL_INDEX`-terminated) list of indices, and an index is on it iff
its slot is `Vacant`. -/
theorem free_list (ops : List Op) (st : State) (hst : st = run State.init ops)
    (s : Nat) (rs : RootSet) (hl : st.liveSet s = some rs) :
    ∃ l, Chain rs.slots.slots rs.slots.nextFree l ∧ l.Nodup ∧
      ∀ i, i ∈ l ↔ ∃ nx, rs.slots.slots[i]? = some (.vacant nx) := by
  subst hst
  obtain ⟨hls, ha⟩ := liveSet_eq_some.1 hl
  exact ((inv_run ops).sets s rs hls ha).free

/-! ## no_panic -/

/-- After every history, a call can panic in exactly two ways: the documented `fetch` of a
foreign handle, and `Vec::push` when `usize::MAX` slots exist — which needs at least `usize::MAX`
`stash` calls in the history.  In particular none of the `panic!`s of `Slots::add` / `inc` / `dec`
(nor their bounds checks) is reachable. -/
theorem no_panic (ops : List Op) (op : Op) (f : Fault)
    (hp : step (run State.init ops) op = .panic f) :
    (f = .mismatchedRootSet ∧ ∃ s h, op = .fetch s h ∧ h.set ≠ s) ∨
    (f = .capacityOverflow ∧ (∃ s p, op = .stash s p) ∧ nullIndex ≤ stashCount ops) := by
  have inv := inv_run ops
  have sp := step_spec inv op
  rw [hp] at sp
  cases sp with
  | mismatch ho hne _ => exact .inl ⟨rfl, _, _, ho, hne⟩
  | capacity ho hl hcap =>
    refine .inr ⟨rfl, ⟨_, _, ho⟩, ?_⟩
    obtain ⟨hls, _⟩ := liveSet_eq_some.1 hl
    have h1 := inv.cap _ _ hls
    have h2 : (run State.init ops).nextStash ≤ 0 + stashCount ops :=
      nextStash_run_le State.init ops
    omega

/-- The three internal panics, spelled out. -/
theorem no_internal_panic (ops : List Op) (op : Op) :
    step (run State.init ops) op ≠ .panic .freeListCorrupted ∧
    step (run State.init ops) op ≠ .panic .improperlyFreed ∧
    step (run State.init ops) op ≠ .panic .indexOutOfBounds := by
  refine ⟨?_, ?_, ?_⟩ <;> intro hp <;>
    rcases no_panic ops op _ hp with ⟨h, _⟩ | ⟨h, _⟩ <;> cases h

/-- The same at the level of `Slots`: on the table of an alive set, `add` can only fail for lack
of indices, and `inc` / `dec` on the slot of any live handle succeed. -/
theorem no_panic_slots (ops : List Op) (st : State) (hst : st = run State.init ops)
    (s : Nat) (rs : RootSet) (hl : st.liveSet s = some rs) :
    (∀ p f, rs.slots.add p = .error f → f = .capacityOverflow) ∧
    (∀ h ∈ st.handles, h.set = s →
      (∃ sl, rs.slots.inc h.index = .ok sl) ∧ (∃ sl, rs.slots.dec h.index = .ok sl)) := by
  subst hst
  obtain ⟨hls, ha⟩ := liveSet_eq_some.1 hl
  have ok := (inv_run ops).sets s rs hls ha
  refine ⟨fun p f he => (ok.add_error he).1, ?_⟩
  intro h hm hs
  obtain ⟨sl, hi, _⟩ := ok.inc hm hs
  obtain ⟨sl', hd, _⟩ := ok.dec hm hs
  exact ⟨⟨sl, hi⟩, ⟨sl', hd⟩⟩

/-! ## traced -/

/-- After every history, for every alive set `s`: slot `i` is occupied by `r` iff some live handle
of `s` has index `i` and pointer `r` (with `refine`: occupied slots ↔ live stashes of `s`, one to
one); hence the pointers the set object's `trace` reports are exactly the pointers of the live
handles of `s`. -/
theorem traced (ops : List Op) (st : State) (hst : st = run State.init ops)
    (s : Nat) (rs : RootSet) (hl : st.liveSet s = some rs) :
    (∀ i r, (∃ c, rs.slots.slots[i]? = some (.occupied r c)) ↔
      ∃ h ∈ st.handles, h.set = s ∧ h.index = i ∧ h.ptr = r) ∧
    (∀ p, p ∈ rs.slots.traced ↔ ∃ h ∈ st.handles, h.set = s ∧ h.ptr = p) := by
  subst hst
  obtain ⟨hls, ha⟩ := liveSet_eq_some.1 hl
  have ok := (inv_run ops).sets s rs hls ha
  have slotwise : ∀ i r, (∃ c, rs.slots.slots[i]? = some (.occupied r c)) ↔
      ∃ h ∈ (run State.init ops).handles, h.set = s ∧ h.index = i ∧ h.ptr = r := by
    intro i r
    constructor
    · rintro ⟨c, hv⟩
      have hc := ok.count i r c hv
      have hp : 0 < cnt (run State.init ops).handles s i := by omega
      obtain ⟨h, hm, hs, hi⟩ := cnt_pos.1 hp
      obtain ⟨c', hv'⟩ := ok.occ h hm hs
      rw [hi, hv] at hv'
      simp at hv'
      exact ⟨h, hm, hs, hi, hv'.1.symm⟩
    · rintro ⟨h, hm, hs, hi, hp⟩
      obtain ⟨c, hv⟩ := ok.occ h hm hs
      exact ⟨c, by rw [← hi, ← hp]; exact hv⟩
  refine ⟨slotwise, ?_⟩
  intro p
  unfold Slots.traced
  rw [List.mem_filterMap]
  constructor
  · rintro ⟨sl, hmem, ht⟩
    obtain ⟨i, hi⟩ := List.mem_iff_getElem?.1 hmem
    cases sl with
    | vacant nf => simp [Slot.traced] at ht
    | occupied r c =>
      simp [Slot.traced] at ht
      subst ht
      obtain ⟨h, hm, hs, _, hp⟩ := (slotwise i r).1 ⟨c, hi⟩
      exact ⟨h, hm, hs, hp⟩
  · rintro ⟨h, hm, hs, hp⟩
    obtain ⟨c, hv⟩ := (slotwise h.index p).2 ⟨h, hm, hs, rfl, hp⟩
    exact ⟨.occupied p c, List.mem_iff_getElem?.2 ⟨_, hv⟩, rfl⟩

/-- The multiset reading of `traced`: the list the set object's `trace` reports is, element by
element, the list of pointers of a family `reps` of live handles of `s` that contains exactly one
handle per live stash of `s` (one per occupied slot).  So a pointer is reported once per live stash
of it — not once per clone, and never for a stash whose handles are all gone. -/
theorem traced_multiset (ops : List Op) (st : State) (hst : st = run State.init ops)
    (s : Nat) (rs : RootSet) (hl : st.liveSet s = some rs) :
    ∃ reps : List Handle,
      (∀ r ∈ reps, r ∈ st.handles ∧ r.set = s) ∧
      (reps.map (·.index)).Nodup ∧ (reps.map (·.stash)).Nodup ∧
      (∀ h ∈ st.handles, h.set = s → ∃ r ∈ reps, r.stash = h.stash) ∧
      rs.slots.traced = reps.map (·.ptr) := by
  subst hst
  have inv := inv_run ops
  obtain ⟨hls, ha⟩ := liveSet_eq_some.1 hl
  have ok := inv.sets s rs hls ha
  have H := ok.repHyp
  refine ⟨repsFrom (run State.init ops).handles s 0 rs.slots.slots, ?_, repsFrom_nodup H, ?_, ?_,
    repsFrom_ptr H⟩
  · intro r hr
    obtain ⟨a, b, _, _⟩ := repsFrom_mem H r hr
    exact ⟨a, b⟩
  · -- different representatives have different indices, hence different stash ids
    have hnd := repsFrom_nodup H
    have hmem := repsFrom_mem H
    generalize repsFrom (run State.init ops).handles s 0 rs.slots.slots = reps at hnd hmem
    induction reps with
    | nil => simp
    | cons x xs ih =>
      simp only [List.map_cons, List.nodup_cons] at hnd ⊢
      refine ⟨?_, ih hnd.2 (fun y hy => hmem y (List.mem_cons_of_mem _ hy))⟩
      intro hin
      obtain ⟨y, hy, he⟩ := List.mem_map.1 hin
      obtain ⟨hxm, hxs, _, _⟩ := hmem x (List.mem_cons_self ..)
      obtain ⟨hym, hys, _, _⟩ := hmem y (List.mem_cons_of_mem _ hy)
      have := inv.uniq y hym x hxm he
      subst this
      exact hnd.1 (List.mem_map.2 ⟨y, hy, rfl⟩)
  · intro h hm hs
    obtain ⟨c, hv⟩ := ok.occ h hm hs
    obtain ⟨x, hx, hi⟩ := repsFrom_complete H h.index h.ptr c hv
    obtain ⟨hxm, hxs, _, _⟩ := repsFrom_mem H x hx
    exact ⟨x, hx, inv.same x hxm h hm (by rw [hxs, hs]) (by omega)⟩

/-- A stashed object is traced while a handle exists …  The model's `stash` is the same for every
payload: the collector-side barrier (`backward_barrier(set, Some(root))`, Model/Context.lean) and
the slot store are unconditional in the payload's `Collect::NEEDS_TRACE` — a leaf (`NEEDS_TRACE ==
false`: `Gc<i32>`, `Gc<Rc<_>>`, `Gc<Static<_>>`, a zero-sized type) needs no *tracing* but still has to
be *marked*, and only the re-trace of the (black) set object marks it.  The correspondence harness
therefore stashes node and leaf payloads alike (ops `stashleaf` / `stashfin`). -/
theorem traced_while_handle (ops : List Op) (st : State) (hst : st = run State.init ops)
    (h : Handle) (hm : h ∈ st.handles) (rs : RootSet) (hl : st.liveSet h.set = some rs) :
    h.ptr ∈ rs.slots.traced :=
  ((traced ops st hst h.set rs hl).2 h.ptr).2 ⟨h, hm, rfl, rfl⟩

/-- … and no longer once the last handle for it is gone. -/
theorem untraced_after_last_drop (ops : List Op) (st : State) (hst : st = run State.init ops)
    (s p : Nat) (rs : RootSet) (hl : st.liveSet s = some rs)
    (hnone : ∀ h ∈ st.handles, h.set = s → h.ptr ≠ p) : p ∉ rs.slots.traced := by
  intro hmem
  obtain ⟨h, hm, hs, hp⟩ := ((traced ops st hst s rs hl).2 p).1 hmem
  exact hnone h hm hs hp

/-! ## fetch_identity -/

/-- After every history, for a live handle `h` and an alive set `s`: if `s` issued `h` then
`fetch`, `try_fetch` return `h.ptr` — the pointer given to `stash` — `contains` is true, and that
pointer is in slot `h.index` of `s` (so it is traced by `s`); otherwise `fetch` panics with
"mismatched root set", `try_fetch` fails and `contains` is false.  None of them changes the
state. -/
theorem fetch_identity (ops : List Op) (st : State) (hst : st = run State.init ops)
    (s : Nat) (rs : RootSet) (h : Handle) (hl : st.liveSet s = some rs) (hm : h ∈ st.handles) :
    (h.set = s →
      step st (.fetch s h) = .ok st (.ptr h.ptr) ∧
      step st (.tryFetch s h) = .ok st (.ptr h.ptr) ∧
      step st (.contains s h) = .ok st (.bool true) ∧
      (∃ c, rs.slots.slots[h.index]? = some (.occupied h.ptr c)) ∧
      h.ptr ∈ rs.slots.traced) ∧
    (h.set ≠ s →
      step st (.fetch s h) = .panic .mismatchedRootSet ∧
      step st (.tryFetch s h) = .ok st .mismatch ∧
      step st (.contains s h) = .ok st (.bool false)) := by
  constructor
  · intro he
    subst he
    have hc : containsB h.set h = true := by simp [containsB]
    refine ⟨by simp [step, hm, hl, hc], by simp [step, hm, hl, hc], by simp [step, hm, hl, hc],
      ?_, traced_while_handle ops st hst h hm rs hl⟩
    obtain ⟨c, hv, _⟩ := (refine ops st hst).1 h hm rs hl
    exact ⟨c, hv⟩
  · intro hne
    have hc : containsB s h = false := by simp [containsB, hne]
    exact ⟨by simp [step, hm, hl, hc], by simp [step, hm, hl, hc], by simp [step, hm, hl, hc]⟩

/-- A handle whose set has been destroyed (collected, or its arena dropped) is foreign to every
alive set: set ids are never reused. -/
theorem destroyed_is_foreign (st : State) (s : Nat) (rs : RootSet) (h : Handle)
    (hl : st.liveSet s = some rs) (hd : st.liveSet h.set = none) : h.set ≠ s := by
  intro he
  rw [he, hl] at hd
  cases hd

/-! ## outlive -/

/-- Cloning or dropping a handle whose set is destroyed only adds / removes the handle: no table
is touched, nothing can panic. -/
theorem outlive (st : State) (h : Handle) (hm : h ∈ st.handles) (hd : st.liveSet h.set = none) :
    step st (.clone h) = .ok { st with handles := h :: st.handles } (.handle h) ∧
    step st (.dropHandle h) = .ok { st with handles := st.handles.erase h } .unit := by
  simp [step, hm, hd]

/-- A destroyed set stays destroyed, whatever happens afterwards. -/
theorem destroyed_forever (st : State) (s : Nat) (hex : s < st.sets.length)
    (hd : st.liveSet s = none) (ops : List Op) :
    (run st ops).liveSet s = none ∧ s < (run st ops).sets.length := by
  induction ops generalizing st with
  | nil => exact ⟨hd, hex⟩
  | cons op ops ih =>
    have key := next_keeps_dead st s hex hd op
    exact ih (next st op) key.2 key.1

/-! ## Non-vacuity: concrete histories (evaluated by the kernel) -/

section Examples

/- `demo` (Proofs/DynRootsLemmas.lean): two stashes, a clone, drop the first stash completely, stash
again: slot 0 is reused, the handle of the second stash still resolves to pointer 8. -/

example : (run State.init demo).sets =
    [⟨true, ⟨[.occupied 9 0, .occupied 8 0], nullIndex⟩⟩] := by decide

example : (run State.init demo).handles = [⟨0, 0, 9, 2⟩, ⟨0, 1, 8, 1⟩] := by decide

/-- just before the reuse, slot 0 is vacant and heads the free list -/
example : (run State.init (demo.take 6)).sets =
    [⟨true, ⟨[.vacant nullIndex, .occupied 8 0], 0⟩⟩] := by decide

/-- the hypotheses of `refine` / `traced` / `fetch_identity` are satisfiable: a live handle of an
alive set, with a clone (count 1 = two handles) -/
example : (run State.init (demo.take 4)).liveSet 0 =
    some ⟨true, ⟨[.occupied 7 1, .occupied 8 0], nullIndex⟩⟩ := by decide

example : step (run State.init demo) (.fetch 0 ⟨0, 1, 8, 1⟩) =
    .ok (run State.init demo) (.ptr 8) := by decide

/-- a handle of another set is refused in the three ways -/
example : step (run State.init (demo ++ [.newSet])) (.fetch 1 ⟨0, 1, 8, 1⟩) =
    .panic .mismatchedRootSet := by decide

example : step (run State.init (demo ++ [.newSet])) (.tryFetch 1 ⟨0, 1, 8, 1⟩) =
    .ok (run State.init (demo ++ [.newSet])) .mismatch := by decide

example : step (run State.init (demo ++ [.newSet])) (.contains 1 ⟨0, 1, 8, 1⟩) =
    .ok (run State.init (demo ++ [.newSet])) (.bool false) := by decide

/-- the hypotheses of `outlive` are satisfiable: a live handle of a destroyed set; cloning and
dropping it leaves the (dead) table alone -/
example : (run State.init (demo ++ [.destroySet 0])).liveSet 0 = none ∧
    (⟨0, 1, 8, 1⟩ : Handle) ∈ (run State.init (demo ++ [.destroySet 0])).handles := by decide

example : (run State.init (demo ++ [.destroySet 0, .clone ⟨0, 1, 8, 1⟩,
      .dropHandle ⟨0, 1, 8, 1⟩, .dropHandle ⟨0, 1, 8, 1⟩])).handles = [⟨0, 0, 9, 2⟩] := by decide

/-- an operation safe Rust cannot write (dropping a handle twice) is rejected by the model -/
example : step (run State.init demo) (.dropHandle ⟨0, 0, 7, 0⟩) = .illFormed := by decide

end Examples

end GcArena.C14
