-- This module serves as the root of the `GcArena` library.
-- Import modules here that should be built as part of the library.
import GcArena.Basic
