//! gcverif-dynroots — correspondence harness for `DynamicRootSet` / `DynamicRoot` (property C14).
//!
//! Drives the REAL gc-arena crate in-process with generated (or replayed) operation sequences over
//! several arenas, several `DynamicRootSet`s per arena (held by the root; some later unlinked so
//! that they get collected), handles that are cloned, dropped, fetched through their own and
//! through foreign sets, handles that outlive their set and their arena, slot reuse after frees,
//! and collection increments of every kind between the operations.
//!
//! Output (stdout), one record per line:
//!
//!   C <case> <seed>      a case starts
//!   X <script op>        a script operation was executed (the X lines of a case are its replay)
//!   V <kind>|<set state>|<phase>   coverage cell of that operation
//!   O <model op>         the same operation in the line protocol of `dynmodel` (lean/DynMain.lean)
//!   A <answer>           what the implementation answered, in dynmodel's canonical format
//!                        (slot tables are read through the `verif_slots` / `verif_next_free` hook)
//!   M <text>             an implementation-side MONITOR fired (does not use the model)
//!   E <case> stash=<n> reuse=<n> coll=<n> ops=<n>   the case ended
//!   Z                    all cases done
//!
//! Script operations (names: a<N> arena, s<N> set, h<N> handle; payload ids are numbers):
//!
//!   arena a0 | newset a0 s1 | unlink s1 | stashnew s1 17 h3 | stashvia s1 h3 h4 (stash the object
//!   fetched through h3 again, in s1) | clone h3 h5 | drop h3 | fetch s1 h3 | tryfetch s1 h3 |
//!   contains s1 h3 | dump s1 | collect a0 debt 12.5 | collect a0 mark 3 | collect a0 finmark |
//!   collect a0 cycle 8 | collect a0 fincycle | collect a0 step 0.5 (debt := exactly 0.5, then
//!   collect_debt) | alloc a0 <n> <keep> | clearjunk a0 | droparena a0 |
//!   weaknew a0 17 (allocate object 17, reachable ONLY through a `GcWeak` in the root's weak table) |
//!   stashweak s1 17 h3 (`upgrade` the weak entry inside `mutate`; if it is alive stash the strong
//!   pointer, else note `dead`) | weakdrop a0 17 (forget the weak entry) |
//!   stashleaf s1 <leaf|static|rc|zst> 17 h3 (allocate a LEAF payload — `Collect::NEEDS_TRACE == false`:
//!   a `require_static` struct, a `Static<T>`, an `Rc<T>` of a leaf, a zero-sized type — and stash it) |
//!   stashfin s1 <node|leaf|static|rc|zst> 17 h3 (`finish_marking()`, then allocate and stash inside
//!   `MarkedArena::finalize`; note `not-marked` and no stash if a sweep is in progress) |
//!   clonefrom h3 h5 (`h3.clone_from(&h5)`: h3, an existing handle, becomes a clone of h5; for the
//!   model this is exactly `drop h3` followed by `clone h5 h3`) |
//!   park s1 / unpark s1 (move the set from the root into a root-held holder object and back: it
//!   stays reachable, but through another, separately coloured, object)
//!
//!   K <op>|<phase>|set=<colour>|target=<colour>|first=<0|1>|<stashed|dead>   colour cell of a stash:
//!   colours B black, G gray, W white, w white-weak (read through `Arena::verif_snapshot`);
//!   first=1: no other stash into a set of this arena since the current marking began
//!   J <same-set|other-set-same-arena|other-arena>|<equal|different>-index|<phase>   cell of a `clonefrom`
//!   N <text>             a note (no model operation), e.g. `dead`
//!
//! Monitors (shadow = the multiset of live handle names, nothing else):
//!   premature-destruct  a stashed object (or its child) was destructed while a live handle of a
//!                       set that is linked to the root of a live arena exists
//!   not-collected       an object without such a handle survived two `finish_cycle`s / its arena
//!   fetch-identity      `fetch` / `try_fetch` returned an object with another id / address, or one
//!                       that `Gc::ptr_eq` distinguishes from the stashed one, or a destructed one
//!   foreign-accepted / own-refused   wrong answer of `contains` / `try_fetch` / `fetch`
//!   unexpected-panic    anything panicked except the documented `fetch` mismatch
//!   double-free / double-destruct    seen by the quarantining allocator / the drop tokens
//!   upgrade-refused     `GcWeak::upgrade` failed for an object that a live handle of a reachable
//!                       set keeps alive;  upgrade-of-destructed: it succeeded for a destructed one
//!
//! Usage:
//!   gcverif-dynroots gen --seed <n> --cases <n> [--start <i>] [--maxops <n>]
//!   gcverif-dynroots replay <file>      (script op lines; `#` comments and blanks ignored)

use std::alloc::{GlobalAlloc, Layout, System};
use std::cell::{RefCell, UnsafeCell};
use std::collections::{BTreeMap, HashMap, HashSet};
use std::io::Write as _;
use std::panic::{AssertUnwindSafe, catch_unwind};

use gc_arena::arena::CollectionPhase;
use gc_arena::arena::Root;
use gc_arena::{Arena, Collect, DynamicRoot, DynamicRootSet, Gc, GcWeak, Mutation, RefLock, Rootable};
use std::rc::Rc;

// ------------------------------------------------------------------------------------------------
// quarantining allocator: while a case runs nothing is given back to the system allocator, so a
// dangling read hits poisoned memory instead of undefined behaviour and addresses are never reused
// ------------------------------------------------------------------------------------------------

const POISON: u8 = 0xDD;

#[derive(Default)]
struct QState {
    active: bool,
    bypass: bool,
    blocks: Vec<(usize, usize, usize)>,
    index: HashSet<usize>,
    double_free: usize,
}

struct QCell(UnsafeCell<Option<QState>>);
// single-threaded harness
unsafe impl Sync for QCell {}
static Q: QCell = QCell(UnsafeCell::new(None));

#[allow(clippy::mut_from_ref)]
fn q() -> &'static mut QState {
    unsafe {
        let slot = &mut *Q.0.get();
        if slot.is_none() {
            *slot = Some(QState::default());
        }
        slot.as_mut().unwrap()
    }
}

struct Quarantine;

unsafe impl GlobalAlloc for Quarantine {
    unsafe fn alloc(&self, layout: Layout) -> *mut u8 {
        unsafe { System.alloc(layout) }
    }

    unsafe fn dealloc(&self, ptr: *mut u8, layout: Layout) {
        let st = q();
        if st.active && !st.bypass {
            st.bypass = true;
            if st.index.contains(&(ptr as usize)) {
                st.double_free += 1;
            } else {
                st.index.insert(ptr as usize);
                unsafe { std::ptr::write_bytes(ptr, POISON, layout.size()) };
                st.blocks.push((ptr as usize, layout.size(), layout.align()));
            }
            st.bypass = false;
            return;
        }
        unsafe { System.dealloc(ptr, layout) };
    }
}

#[global_allocator]
static ALLOC: Quarantine = Quarantine;

fn quarantine_begin() {
    let st = q();
    st.bypass = true;
    st.blocks.clear();
    st.index.clear();
    st.double_free = 0;
    st.bypass = false;
    st.active = true;
}

fn quarantine_end() -> usize {
    let st = q();
    st.active = false;
    st.bypass = true;
    let blocks = std::mem::take(&mut st.blocks);
    st.index.clear();
    for (p, size, align) in blocks {
        unsafe { System.dealloc(p as *mut u8, Layout::from_size_align_unchecked(size, align)) };
    }
    st.bypass = false;
    st.double_free
}

// ------------------------------------------------------------------------------------------------
// payload types
// ------------------------------------------------------------------------------------------------

thread_local! {
    static DROPPED: RefCell<HashSet<u64>> = RefCell::new(HashSet::new());
    static DOUBLE_DESTRUCT: RefCell<Vec<u64>> = const { RefCell::new(Vec::new()) };
}

fn is_dropped(id: u64) -> bool {
    DROPPED.with(|d| d.borrow().contains(&id))
}

struct DropToken(u64);

impl Drop for DropToken {
    fn drop(&mut self) {
        let fresh = DROPPED.with(|d| d.borrow_mut().insert(self.0));
        if !fresh {
            DOUBLE_DESTRUCT.with(|d| d.borrow_mut().push(self.0));
        }
    }
}

/// id of the child object hanging off payload `p`
const CHILD: u64 = 1_000_000;

#[derive(Collect)]
#[collect(no_drop)]
struct Payload<'gc> {
    id: u64,
    #[collect(require_static)]
    #[allow(dead_code)]
    token: DropToken,
    child: Option<Gc<'gc, Payload<'gc>>>,
}

#[derive(Collect)]
#[collect(no_drop)]
struct Junk<'gc> {
    next: Option<Gc<'gc, Junk<'gc>>>,
    pad: [u64; 3],
}

#[derive(Collect)]
#[collect(no_drop)]
struct RootData<'gc> {
    sets: Vec<(u32, DynamicRootSet<'gc>)>,
    weaks: Gc<'gc, RefLock<Vec<(u64, GcWeak<'gc, Payload<'gc>>)>>>,
    /// sets that are reachable through this holder object instead of directly from the root
    parked: Gc<'gc, RefLock<Vec<(u32, DynamicRootSet<'gc>)>>>,
    junk: Vec<Gc<'gc, Junk<'gc>>>,
}

/// leaf payloads: nothing to trace (`NEEDS_TRACE == false`), but they still have to be marked
#[derive(Collect)]
#[collect(require_static)]
struct Leaf {
    id: u64,
    #[allow(dead_code)]
    token: DropToken,
}

/// zero-sized leaf: no id, no token — its survival is read from the collector snapshot
#[derive(Collect)]
#[collect(require_static)]
struct Zst;

type RootT = Rootable![RootData<'_>];
type PayR = Rootable![Payload<'_>];
type LeafR = Rootable![Leaf];
type StatR = gc_arena::Static<Leaf>;
type RcR = Rootable![Rc<Leaf>];
type ZstR = Rootable![Zst];
type Handle = DynamicRoot<PayR>;

/// A payload class = a `Rootable` the handles are typed with.
trait Class: for<'a> Rootable<'a> + Sized + 'static {
    /// allocate payload `p` (a node also gets a child and its entry in the weak table)
    fn make<'gc>(mc: &Mutation<'gc>, root: &RootData<'gc>, p: u64) -> Gc<'gc, Root<'gc, Self>>;
    fn addr<'gc>(g: Gc<'gc, Root<'gc, Self>>) -> usize;
    fn read_id<'gc>(g: Gc<'gc, Root<'gc, Self>>) -> Option<u64>;
    /// (`Gc::ptr_eq` with an independently kept copy, that copy is obtainable); (true, true) when
    /// there is nothing to compare with
    fn weak_check<'gc>(_mc: &Mutation<'gc>, _root: &RootData<'gc>, _g: Gc<'gc, Root<'gc, Self>>, _p: u64) -> (bool, bool) {
        (true, true)
    }
    fn wrap(h: DynamicRoot<Self>) -> AnyHandle;
}

impl Class for PayR {
    fn make<'gc>(mc: &Mutation<'gc>, root: &RootData<'gc>, p: u64) -> Gc<'gc, Payload<'gc>> {
        let child = Gc::new(mc, Payload { id: p + CHILD, token: DropToken(p + CHILD), child: None });
        let obj = Gc::new(mc, Payload { id: p, token: DropToken(p), child: Some(child) });
        root.weaks.borrow_mut(mc).push((p, Gc::downgrade(obj)));
        obj
    }
    fn addr<'gc>(g: Gc<'gc, Payload<'gc>>) -> usize {
        Gc::as_ptr(g) as usize
    }
    fn read_id<'gc>(g: Gc<'gc, Payload<'gc>>) -> Option<u64> {
        Some(g.id)
    }
    fn weak_check<'gc>(mc: &Mutation<'gc>, root: &RootData<'gc>, g: Gc<'gc, Payload<'gc>>, p: u64) -> (bool, bool) {
        let weak = root.weaks.borrow().iter().find(|(id, _)| *id == p).map(|(_, w)| *w);
        match weak {
            // the weak entry was forgotten (`weakdrop`): nothing to compare with
            None => (true, true),
            Some(w) => match w.upgrade(mc) {
                Some(strong) => (Gc::ptr_eq(strong, g) && Gc::as_ptr(strong) == Gc::as_ptr(g), true),
                None => (false, false),
            },
        }
    }
    fn wrap(h: DynamicRoot<Self>) -> AnyHandle {
        AnyHandle::Node(h)
    }
}

impl Class for LeafR {
    fn make<'gc>(mc: &Mutation<'gc>, _: &RootData<'gc>, p: u64) -> Gc<'gc, Leaf> {
        Gc::new(mc, Leaf { id: p, token: DropToken(p) })
    }
    fn addr<'gc>(g: Gc<'gc, Leaf>) -> usize {
        Gc::as_ptr(g) as usize
    }
    fn read_id<'gc>(g: Gc<'gc, Leaf>) -> Option<u64> {
        Some(g.id)
    }
    fn wrap(h: DynamicRoot<Self>) -> AnyHandle {
        AnyHandle::Leaf(h)
    }
}

impl Class for StatR {
    fn make<'gc>(mc: &Mutation<'gc>, _: &RootData<'gc>, p: u64) -> Gc<'gc, gc_arena::Static<Leaf>> {
        Gc::new(mc, gc_arena::Static(Leaf { id: p, token: DropToken(p) }))
    }
    fn addr<'gc>(g: Gc<'gc, gc_arena::Static<Leaf>>) -> usize {
        Gc::as_ptr(g) as usize
    }
    fn read_id<'gc>(g: Gc<'gc, gc_arena::Static<Leaf>>) -> Option<u64> {
        Some(g.0.id)
    }
    fn wrap(h: DynamicRoot<Self>) -> AnyHandle {
        AnyHandle::Stat(h)
    }
}

impl Class for RcR {
    fn make<'gc>(mc: &Mutation<'gc>, _: &RootData<'gc>, p: u64) -> Gc<'gc, Rc<Leaf>> {
        // the only `Rc`: the token fires when the collector destructs the `Gc`'s value
        Gc::new(mc, Rc::new(Leaf { id: p, token: DropToken(p) }))
    }
    fn addr<'gc>(g: Gc<'gc, Rc<Leaf>>) -> usize {
        Gc::as_ptr(g) as usize
    }
    fn read_id<'gc>(g: Gc<'gc, Rc<Leaf>>) -> Option<u64> {
        Some(g.id)
    }
    fn wrap(h: DynamicRoot<Self>) -> AnyHandle {
        AnyHandle::Rc(h)
    }
}

impl Class for ZstR {
    fn make<'gc>(mc: &Mutation<'gc>, _: &RootData<'gc>, _p: u64) -> Gc<'gc, Zst> {
        Gc::new(mc, Zst)
    }
    fn addr<'gc>(g: Gc<'gc, Zst>) -> usize {
        Gc::as_ptr(g) as usize
    }
    fn read_id<'gc>(_: Gc<'gc, Zst>) -> Option<u64> {
        None
    }
    fn wrap(h: DynamicRoot<Self>) -> AnyHandle {
        AnyHandle::Zst(h)
    }
}

/// A handle of any payload class.
enum AnyHandle {
    Node(Handle),
    Leaf(DynamicRoot<LeafR>),
    Stat(DynamicRoot<StatR>),
    Rc(DynamicRoot<RcR>),
    Zst(DynamicRoot<ZstR>),
}

impl AnyHandle {
    fn dup(&self) -> AnyHandle {
        match self {
            AnyHandle::Node(h) => AnyHandle::Node(h.clone()),
            AnyHandle::Leaf(h) => AnyHandle::Leaf(h.clone()),
            AnyHandle::Stat(h) => AnyHandle::Stat(h.clone()),
            AnyHandle::Rc(h) => AnyHandle::Rc(h.clone()),
            AnyHandle::Zst(h) => AnyHandle::Zst(h.clone()),
        }
    }
    fn class(&self) -> &'static str {
        match self {
            AnyHandle::Node(_) => "node",
            AnyHandle::Leaf(_) => "leaf",
            AnyHandle::Stat(_) => "static",
            AnyHandle::Rc(_) => "rc",
            AnyHandle::Zst(_) => "zst",
        }
    }
    /// `self.clone_from(src)`; false (nothing done) when the two are of different types
    fn clone_from_any(&mut self, src: &AnyHandle) -> bool {
        match (self, src) {
            (AnyHandle::Node(d), AnyHandle::Node(s)) => d.clone_from(s),
            (AnyHandle::Leaf(d), AnyHandle::Leaf(s)) => d.clone_from(s),
            (AnyHandle::Stat(d), AnyHandle::Stat(s)) => d.clone_from(s),
            (AnyHandle::Rc(d), AnyHandle::Rc(s)) => d.clone_from(s),
            (AnyHandle::Zst(d), AnyHandle::Zst(s)) => d.clone_from(s),
            _ => return false,
        }
        true
    }
}

/// allocate payload `p` of class `R` and stash it in set `s`; `probe(address)` runs between the
/// allocation and the stash
fn stash_in<'gc, R: Class>(
    mc: &Mutation<'gc>,
    root: &RootData<'gc>,
    s: u32,
    p: u64,
    probe: impl FnOnce(usize) -> (char, char),
) -> (AnyHandle, usize, Vec<(bool, usize, usize)>, Vec<(bool, usize, usize)>, (char, char)) {
    let set = find_set(root, s).expect("linked set in root");
    let before = set.verif_slots();
    let obj = R::make(mc, root, p);
    let addr = R::addr(obj);
    let cols = probe(addr);
    let hd = set.stash::<R>(mc, obj);
    (R::wrap(hd), addr, before, set.verif_slots(), cols)
}

/// What a query through set `s` with handle `hd` showed.
struct QObs {
    accepted: bool,
    /// (id read from the object (None: zero-sized), address, ptr_eq with the kept copy, copy obtainable)
    obs: Option<(Option<u64>, usize, bool, bool)>,
    panic: Option<String>,
}

/// `which`: 0 fetch, 1 try_fetch, 2 contains.  A pointer handed out for a *foreign* handle is never
/// dereferenced.
fn query<R: Class>(arena: &Arena<RootT>, s: u32, hd: &DynamicRoot<R>, which: u8, own: bool, p: u64) -> QObs {
    fn look<'gc, R: Class>(mc: &Mutation<'gc>, root: &RootData<'gc>, g: Gc<'gc, Root<'gc, R>>, own: bool, p: u64) -> (Option<u64>, usize, bool, bool) {
        let addr = R::addr(g);
        if !own {
            return (None, addr, false, false);
        }
        let (eq, up) = R::weak_check(mc, root, g, p);
        (R::read_id(g), addr, eq, up)
    }
    match which {
        0 => {
            let r = catch_unwind(AssertUnwindSafe(|| {
                arena.mutate(|mc, root| {
                    let set = find_set(root, s).expect("linked set in root");
                    let g = set.fetch(hd);
                    look::<R>(mc, root, g, own, p)
                })
            }));
            match r {
                Ok(o) => QObs { accepted: true, obs: Some(o), panic: None },
                Err(e) => QObs { accepted: false, obs: None, panic: Some(panic_text(&*e)) },
            }
        }
        1 => {
            let r = arena.mutate(|mc, root| {
                let set = find_set(root, s).expect("linked set in root");
                set.try_fetch(hd).ok().map(|g| look::<R>(mc, root, g, own, p))
            });
            QObs { accepted: r.is_some(), obs: r, panic: None }
        }
        _ => {
            let acc = arena.mutate(|_, root| find_set(root, s).expect("linked set in root").contains(hd));
            QObs { accepted: acc, obs: None, panic: None }
        }
    }
}

fn find_set<'gc>(root: &RootData<'gc>, s: u32) -> Option<DynamicRootSet<'gc>> {
    root.sets
        .iter()
        .find(|(n, _)| *n == s)
        .map(|(_, set)| *set)
        .or_else(|| root.parked.borrow().iter().find(|(n, _)| *n == s).map(|(_, set)| *set))
}

// ------------------------------------------------------------------------------------------------
// script operations
// ------------------------------------------------------------------------------------------------

#[derive(Clone, Copy, Debug, PartialEq)]
enum CK {
    Debt(f64),
    Mark(f64),
    FinMark,
    Cycle(f64),
    FinCycle,
    /// make the outstanding debt exactly `x`, then `collect_debt`: one small, exact increment
    /// whatever debt the allocations so far have run up
    Step(f64),
}

/// payload classes, by code
const CLASSES: [&str; 5] = ["node", "leaf", "static", "rc", "zst"];

#[derive(Clone, Copy, Debug, PartialEq)]
enum Op {
    Arena(u32),
    NewSet { a: u32, s: u32 },
    Unlink { s: u32 },
    StashNew { s: u32, p: u64, h: u32 },
    StashVia { s: u32, h0: u32, h: u32 },
    Clone { h: u32, h2: u32 },
    Drop { h: u32 },
    Fetch { s: u32, h: u32 },
    TryFetch { s: u32, h: u32 },
    Contains { s: u32, h: u32 },
    Dump { s: u32 },
    Collect { a: u32, k: CK },
    Alloc { a: u32, n: u32, keep: u32 },
    ClearJunk { a: u32 },
    DropArena { a: u32 },
    WeakNew { a: u32, p: u64 },
    StashWeak { s: u32, p: u64, h: u32 },
    WeakDrop { a: u32, p: u64 },
    Park { s: u32 },
    Unpark { s: u32 },
    CloneFrom { dst: u32, src: u32 },
    /// `k`: payload class (index into `CLASSES`)
    StashLeaf { s: u32, k: u8, p: u64, h: u32 },
    StashFin { s: u32, k: u8, p: u64, h: u32 },
    /// end of the case: everything that is left is dropped, arenas first or handles first
    End { arenas_first: bool },
}

impl Op {
    fn text(&self) -> String {
        match *self {
            Op::Arena(a) => format!("arena a{a}"),
            Op::NewSet { a, s } => format!("newset a{a} s{s}"),
            Op::Unlink { s } => format!("unlink s{s}"),
            Op::StashNew { s, p, h } => format!("stashnew s{s} {p} h{h}"),
            Op::StashVia { s, h0, h } => format!("stashvia s{s} h{h0} h{h}"),
            Op::Clone { h, h2 } => format!("clone h{h} h{h2}"),
            Op::Drop { h } => format!("drop h{h}"),
            Op::Fetch { s, h } => format!("fetch s{s} h{h}"),
            Op::TryFetch { s, h } => format!("tryfetch s{s} h{h}"),
            Op::Contains { s, h } => format!("contains s{s} h{h}"),
            Op::Dump { s } => format!("dump s{s}"),
            Op::Collect { a, k } => match k {
                CK::Debt(x) => format!("collect a{a} debt {x}"),
                CK::Mark(x) => format!("collect a{a} mark {x}"),
                CK::FinMark => format!("collect a{a} finmark"),
                CK::Cycle(x) => format!("collect a{a} cycle {x}"),
                CK::FinCycle => format!("collect a{a} fincycle"),
                CK::Step(x) => format!("collect a{a} step {x}"),
            },
            Op::Alloc { a, n, keep } => format!("alloc a{a} {n} {keep}"),
            Op::ClearJunk { a } => format!("clearjunk a{a}"),
            Op::DropArena { a } => format!("droparena a{a}"),
            Op::WeakNew { a, p } => format!("weaknew a{a} {p}"),
            Op::StashWeak { s, p, h } => format!("stashweak s{s} {p} h{h}"),
            Op::WeakDrop { a, p } => format!("weakdrop a{a} {p}"),
            Op::Park { s } => format!("park s{s}"),
            Op::Unpark { s } => format!("unpark s{s}"),
            Op::CloneFrom { dst, src } => format!("clonefrom h{dst} h{src}"),
            Op::StashLeaf { s, k, p, h } => format!("stashleaf s{s} {} {p} h{h}", CLASSES[k as usize]),
            Op::StashFin { s, k, p, h } => format!("stashfin s{s} {} {p} h{h}", CLASSES[k as usize]),
            Op::End { arenas_first } => format!("end {}", if arenas_first { "arenas-first" } else { "handles-first" }),
        }
    }

    fn parse(line: &str) -> Option<Op> {
        let w: Vec<&str> = line.split_whitespace().collect();
        fn nm(t: &str, c: char) -> Option<u32> {
            t.strip_prefix(c)?.parse().ok()
        }
        Some(match w.as_slice() {
            ["arena", a] => Op::Arena(nm(a, 'a')?),
            ["newset", a, s] => Op::NewSet { a: nm(a, 'a')?, s: nm(s, 's')? },
            ["unlink", s] => Op::Unlink { s: nm(s, 's')? },
            ["stashnew", s, p, h] => Op::StashNew { s: nm(s, 's')?, p: p.parse().ok()?, h: nm(h, 'h')? },
            ["stashvia", s, h0, h] => Op::StashVia { s: nm(s, 's')?, h0: nm(h0, 'h')?, h: nm(h, 'h')? },
            ["clone", h, h2] => Op::Clone { h: nm(h, 'h')?, h2: nm(h2, 'h')? },
            ["drop", h] => Op::Drop { h: nm(h, 'h')? },
            ["fetch", s, h] => Op::Fetch { s: nm(s, 's')?, h: nm(h, 'h')? },
            ["tryfetch", s, h] => Op::TryFetch { s: nm(s, 's')?, h: nm(h, 'h')? },
            ["contains", s, h] => Op::Contains { s: nm(s, 's')?, h: nm(h, 'h')? },
            ["dump", s] => Op::Dump { s: nm(s, 's')? },
            ["collect", a, "debt", x] => Op::Collect { a: nm(a, 'a')?, k: CK::Debt(x.parse().ok()?) },
            ["collect", a, "mark", x] => Op::Collect { a: nm(a, 'a')?, k: CK::Mark(x.parse().ok()?) },
            ["collect", a, "finmark"] => Op::Collect { a: nm(a, 'a')?, k: CK::FinMark },
            ["collect", a, "cycle", x] => Op::Collect { a: nm(a, 'a')?, k: CK::Cycle(x.parse().ok()?) },
            ["collect", a, "fincycle"] => Op::Collect { a: nm(a, 'a')?, k: CK::FinCycle },
            ["collect", a, "step", x] => Op::Collect { a: nm(a, 'a')?, k: CK::Step(x.parse().ok()?) },
            ["alloc", a, n, keep] => Op::Alloc { a: nm(a, 'a')?, n: n.parse().ok()?, keep: keep.parse().ok()? },
            ["clearjunk", a] => Op::ClearJunk { a: nm(a, 'a')? },
            ["droparena", a] => Op::DropArena { a: nm(a, 'a')? },
            ["weaknew", a, p] => Op::WeakNew { a: nm(a, 'a')?, p: p.parse().ok()? },
            ["stashweak", s, p, h] => Op::StashWeak { s: nm(s, 's')?, p: p.parse().ok()?, h: nm(h, 'h')? },
            ["weakdrop", a, p] => Op::WeakDrop { a: nm(a, 'a')?, p: p.parse().ok()? },
            ["park", s] => Op::Park { s: nm(s, 's')? },
            ["unpark", s] => Op::Unpark { s: nm(s, 's')? },
            ["clonefrom", d, r] => Op::CloneFrom { dst: nm(d, 'h')?, src: nm(r, 'h')? },
            ["stashleaf", s, k, p, h] => {
                let k = CLASSES.iter().position(|c| c == k)? as u8;
                if k == 0 {
                    return None;
                }
                Op::StashLeaf { s: nm(s, 's')?, k, p: p.parse().ok()?, h: nm(h, 'h')? }
            }
            ["stashfin", s, k, p, h] => {
                Op::StashFin { s: nm(s, 's')?, k: CLASSES.iter().position(|c| c == k)? as u8, p: p.parse().ok()?, h: nm(h, 'h')? }
            }
            ["end", "arenas-first"] => Op::End { arenas_first: true },
            ["end", "handles-first"] => Op::End { arenas_first: false },
            _ => return None,
        })
    }
}

// ------------------------------------------------------------------------------------------------
// executor
// ------------------------------------------------------------------------------------------------

struct SetSt {
    arena: u32,
    linked: bool,
    /// reachable through the holder object instead of directly from the root
    parked: bool,
    /// address of the set object (for its colour), 0 if it could not be determined
    addr: usize,
}

struct HandleSt {
    h: AnyHandle,
    set: u32,
    ptr: u64,
    /// the slot index, as inferred from the table when the stash was made (clones inherit it)
    idx: Option<usize>,
}

struct PaySt {
    arena: u32,
    addr: usize,
    /// `Some(n)`: no live handle of a linked set of a live arena refers to it since `n`
    /// completed `finish_cycle`s
    unref_fin: Option<u32>,
    /// the root's weak table has an entry for it
    weak: bool,
    /// a node with a child object (id + CHILD); leaves have none
    child: bool,
    /// zero-sized payload: no drop token, destruction is read from the collector snapshot
    zst: bool,
}

#[derive(Default)]
struct Stats {
    stash: u32,
    reuse: u32,
    coll: u32,
    ops: u32,
}

struct Exec {
    arenas: BTreeMap<u32, Option<Arena<RootT>>>,
    sets: BTreeMap<u32, SetSt>,
    handles: BTreeMap<u32, HandleSt>,
    pays: BTreeMap<u64, PaySt>,
    addr2id: HashMap<(u32, usize), u64>,
    /// stashes into sets of the arena since its current marking began
    cycle_stashes: BTreeMap<u32, u32>,
    violated: bool,
    ended: bool,
    stats: Stats,
    out: std::io::BufWriter<std::io::Stdout>,
}

type Table = (Vec<(bool, usize, usize)>, usize);

fn panic_text(e: &(dyn std::any::Any + Send)) -> String {
    if let Some(s) = e.downcast_ref::<&str>() {
        (*s).to_string()
    } else if let Some(s) = e.downcast_ref::<String>() {
        s.clone()
    } else {
        "<non-string panic payload>".to_string()
    }
}

fn phase_name(p: CollectionPhase) -> &'static str {
    match p {
        CollectionPhase::Sleeping => "sleeping",
        CollectionPhase::Marking => "marking",
        CollectionPhase::Marked => "marked",
        CollectionPhase::Sweeping => "sweeping",
    }
}

impl Exec {
    fn new() -> Exec {
        Exec {
            arenas: BTreeMap::new(),
            sets: BTreeMap::new(),
            handles: BTreeMap::new(),
            pays: BTreeMap::new(),
            addr2id: HashMap::new(),
            cycle_stashes: BTreeMap::new(),
            violated: false,
            ended: false,
            stats: Stats::default(),
            out: std::io::BufWriter::new(std::io::stdout()),
        }
    }

    fn line(&mut self, tag: char, text: &str) {
        let _ = writeln!(self.out, "{tag} {text}");
        // a crash must not swallow what was observed so far
        let _ = self.out.flush();
    }

    fn monitor(&mut self, text: String) {
        self.violated = true;
        self.line('M', &text);
    }

    fn arena_alive(&self, a: u32) -> bool {
        matches!(self.arenas.get(&a), Some(Some(_)))
    }

    /// the set exists, is linked to the root, and its arena is alive
    fn set_usable(&self, s: u32) -> bool {
        match self.sets.get(&s) {
            Some(st) => st.linked && self.arena_alive(st.arena),
            None => false,
        }
    }

    fn phase_of(&self, a: u32) -> &'static str {
        match self.arenas.get(&a) {
            Some(Some(ar)) => phase_name(ar.collection_phase()),
            _ => "no-arena",
        }
    }

    fn set_state(&self, s: u32) -> &'static str {
        match self.sets.get(&s) {
            None => "unknown",
            Some(st) => {
                if !self.arena_alive(st.arena) {
                    "arena-dropped"
                } else if !st.linked {
                    "unlinked"
                } else if st.parked {
                    "parked"
                } else {
                    "linked"
                }
            }
        }
    }

    /// relation of handle `h` to receiver set `s`
    fn relation(&self, s: u32, h: u32) -> String {
        let hs = self.handles[&h].set;
        if hs == s {
            return "own".into();
        }
        let same = self.sets[&hs].arena == self.sets[&s].arena;
        format!("foreign-{}-{}", if same { "same-arena" } else { "other-arena" }, self.set_state(hs))
    }

    /// number of live handles (of usable sets) that refer to payload `p`
    fn live_count(&self, p: u64) -> usize {
        self.handles.values().filter(|h| h.ptr == p && self.set_usable(h.set)).count()
    }

    fn refresh_unref(&mut self) {
        let ids: Vec<u64> = self.pays.keys().copied().collect();
        for p in ids {
            let live = self.live_count(p);
            let st = self.pays.get_mut(&p).unwrap();
            if live == 0 {
                if st.unref_fin.is_none() {
                    st.unref_fin = Some(0);
                }
            } else {
                st.unref_fin = None;
            }
        }
    }

    /// Zero-sized payloads carry no drop token: record as destructed those that the collector no
    /// longer lists as live objects (or whose arena is gone).
    fn sync_zst(&mut self, a: u32) {
        let pending: Vec<(u64, usize)> =
            self.pays.iter().filter(|(p, st)| st.zst && st.arena == a && !is_dropped(**p)).map(|(p, st)| (*p, st.addr)).collect();
        if pending.is_empty() {
            return;
        }
        let live: HashSet<usize> = match self.arenas.get(&a) {
            Some(Some(ar)) => ar.verif_snapshot().all.iter().filter(|o| o.live).map(|o| o.addr).collect(),
            _ => HashSet::new(),
        };
        for (p, addr) in pending {
            if !live.contains(&addr) {
                DROPPED.with(|d| d.borrow_mut().insert(p));
            }
        }
    }

    /// the survival monitors, for the objects of arena `a`
    fn check_arena(&mut self, a: u32, context: &str) {
        self.sync_zst(a);
        let alive = self.arena_alive(a);
        let ids: Vec<u64> = self.pays.iter().filter(|(_, st)| st.arena == a).map(|(p, _)| *p).collect();
        for p in ids {
            let live = self.live_count(p);
            let d = is_dropped(p);
            let dc = if self.pays[&p].child { is_dropped(p + CHILD) } else { d };
            if live > 0 && (d || dc) {
                let which = if d { "the stashed object" } else { "the child of the stashed object" };
                self.monitor(format!(
                    "premature-destruct: {which} {p} was destructed while {live} live handle(s) of a reachable set exist ({context})"
                ));
                return;
            }
            if !alive && !(d && dc) {
                self.monitor(format!("not-collected: object {p} was not destructed when its arena was dropped ({context})"));
                return;
            }
            if live == 0 && self.pays[&p].unref_fin.unwrap_or(0) >= 2 && !(d && dc) {
                self.monitor(format!(
                    "not-collected: object {p} has no live handle of a reachable set and survived two finish_cycle calls ({context})"
                ));
                return;
            }
        }
        let dd: Vec<u64> = DOUBLE_DESTRUCT.with(|d| std::mem::take(&mut *d.borrow_mut()));
        if !dd.is_empty() {
            self.monitor(format!("double-destruct: payload(s) {dd:?} destructed twice ({context})"));
        }
        if q().double_free > 0 {
            q().double_free = 0;
            self.monitor(format!("double-free: a block was released twice ({context})"));
        }
    }

    fn read_table(&self, s: u32) -> Option<Table> {
        let st = self.sets.get(&s)?;
        if !self.set_usable(s) {
            return None;
        }
        let arena = self.arenas.get(&st.arena)?.as_ref()?;
        arena.mutate(|_, root| find_set(root, s).map(|set| (set.verif_slots(), set.verif_next_free())))
    }

    fn show_table(&self, a: u32, t: &Table) -> String {
        let mut parts = Vec::new();
        for &(occ, x, rc) in &t.0 {
            if occ {
                match self.addr2id.get(&(a, x)) {
                    Some(id) => parts.push(format!("O:{id}:{rc}")),
                    None => parts.push(format!("O:?{x:#x}:{rc}")),
                }
            } else if x == usize::MAX {
                parts.push("V:-".to_string());
            } else {
                parts.push(format!("V:{x}"));
            }
        }
        let free = if t.1 == usize::MAX { "-".to_string() } else { t.1.to_string() };
        format!("slots [{}] free {}", parts.join(" "), free)
    }

    /// `dump` as a model op + the observed table
    fn emit_dump(&mut self, s: u32) {
        if let Some(t) = self.read_table(s) {
            let a = self.sets[&s].arena;
            let txt = self.show_table(a, &t);
            self.line('O', &format!("dump s{s}"));
            self.line('A', &txt);
        }
    }

    /// `K` record: the colour cell of a stash
    fn cell(&mut self, op: &str, a: u32, phase: &str, set_colour: char, target_colour: char, stashed: bool) {
        let n = self.cycle_stashes.entry(a).or_insert(0);
        let first = *n == 0;
        if stashed {
            *n += 1;
        }
        let text = format!(
            "{op}|{phase}|set={set_colour}|target={target_colour}|first={}|{}",
            first as u8,
            if stashed { "stashed" } else { "dead" }
        );
        self.line('K', &text);
    }

    fn cover(&mut self, kind: &str, state: &str, phase: &str) {
        self.line('V', &format!("{kind}|{state}|{phase}"));
    }

    /// Run one script operation. Returns false when it is not executable in the current state
    /// (unknown / dead names — happens only in shrunk replays) and was skipped.
    fn exec(&mut self, op: Op) -> bool {
        if self.violated {
            return false;
        }
        // executability
        let ok = match op {
            Op::Arena(a) => !self.arenas.contains_key(&a),
            Op::NewSet { a, s } => self.arena_alive(a) && !self.sets.contains_key(&s),
            Op::Unlink { s } => self.set_usable(s),
            Op::StashNew { s, p, h } => {
                self.set_usable(s) && !self.handles.contains_key(&h) && !self.pays.contains_key(&p) && p < CHILD
            }
            Op::StashVia { s, h0, h } => {
                self.set_usable(s)
                    && !self.handles.contains_key(&h)
                    && self.handles.get(&h0).is_some_and(|x| {
                        matches!(x.h, AnyHandle::Node(_)) && self.set_usable(x.set) && self.sets[&x.set].arena == self.sets[&s].arena
                    })
            }
            Op::Clone { h, h2 } => self.handles.contains_key(&h) && !self.handles.contains_key(&h2),
            Op::Drop { h } => self.handles.contains_key(&h),
            Op::Fetch { s, h } | Op::TryFetch { s, h } | Op::Contains { s, h } => self.set_usable(s) && self.handles.contains_key(&h),
            Op::Dump { s } => self.set_usable(s),
            Op::Collect { a, .. } | Op::Alloc { a, .. } | Op::ClearJunk { a } | Op::DropArena { a } => self.arena_alive(a),
            Op::WeakNew { a, p } => self.arena_alive(a) && !self.pays.contains_key(&p) && p < CHILD,
            Op::StashWeak { s, p, h } => {
                self.set_usable(s)
                    && !self.handles.contains_key(&h)
                    && self.pays.get(&p).is_some_and(|x| x.weak && x.arena == self.sets[&s].arena)
            }
            Op::WeakDrop { a, p } => self.arena_alive(a) && self.pays.get(&p).is_some_and(|x| x.weak && x.arena == a),
            Op::Park { s } => self.set_usable(s) && !self.sets[&s].parked,
            Op::Unpark { s } => self.set_usable(s) && self.sets[&s].parked,
            Op::CloneFrom { dst, src } => {
                // `clone_from` needs two handles of the same type
                dst != src
                    && self.handles.contains_key(&src)
                    && self.handles.get(&dst).is_some_and(|d| d.h.class() == self.handles[&src].h.class())
            }
            Op::StashLeaf { s, p, h, .. } | Op::StashFin { s, p, h, .. } => {
                self.set_usable(s) && !self.handles.contains_key(&h) && !self.pays.contains_key(&p) && p < CHILD
            }
            Op::End { .. } => !self.ended,
        };
        if !ok {
            return false;
        }
        self.line('X', &op.text());
        self.stats.ops += 1;
        let r = catch_unwind(AssertUnwindSafe(|| self.exec_inner(op)));
        if let Err(e) = r {
            let t = panic_text(&*e);
            self.monitor(format!("unexpected-panic: `{}` panicked: {t}", op.text()));
        }
        true
    }

    fn exec_inner(&mut self, op: Op) {
        match op {
            Op::Arena(a) => {
                self.cover("arena", "-", "-");
                let arena = Arena::<RootT>::new(|mc| RootData {
                    sets: Vec::new(),
                    weaks: Gc::new(mc, RefLock::new(Vec::new())),
                    parked: Gc::new(mc, RefLock::new(Vec::new())),
                    junk: Vec::new(),
                });
                self.arenas.insert(a, Some(arena));
            }
            Op::NewSet { a, s } => {
                let ph = self.phase_of(a);
                self.cover("newset", "linked", ph);
                let arena = self.arenas.get_mut(&a).unwrap().as_mut().unwrap();
                let before: HashSet<usize> = arena.verif_snapshot().all.iter().map(|o| o.addr).collect();
                arena.mutate_root(|mc, root| {
                    let set = DynamicRootSet::new(mc);
                    root.sets.push((s, set));
                });
                // `DynamicRootSet::new` allocates exactly one object: the set object
                let fresh: Vec<usize> = arena.verif_snapshot().all.iter().map(|o| o.addr).filter(|x| !before.contains(x)).collect();
                let addr = if fresh.len() == 1 { fresh[0] } else { 0 };
                self.sets.insert(s, SetSt { arena: a, linked: true, parked: false, addr });
                self.line('O', &format!("newset s{s}"));
                self.line('A', "ok");
                self.emit_dump(s);
            }
            Op::Unlink { s } => {
                let a = self.sets[&s].arena;
                let ph = self.phase_of(a);
                self.cover("unlink", "linked", ph);
                let arena = self.arenas.get_mut(&a).unwrap().as_mut().unwrap();
                arena.mutate_root(|mc, root| {
                    root.sets.retain(|(n, _)| *n != s);
                    if root.parked.borrow().iter().any(|(n, _)| *n == s) {
                        root.parked.borrow_mut(mc).retain(|(n, _)| *n != s);
                    }
                });
                self.sets.get_mut(&s).unwrap().linked = false;
                // from now on the set can never be observed again; the model treats it as gone
                self.line('O', &format!("destroy s{s}"));
                self.line('A', "ok");
                self.refresh_unref();
            }
            Op::StashNew { s, p, h } => {
                let a = self.sets[&s].arena;
                let ph = self.phase_of(a);
                self.cover("stash-new", "linked", ph);
                let arena = self.arenas[&a].as_ref().unwrap();
                let set_addr = self.sets[&s].addr;
                let (hd, addr, before, after, cols) = arena.mutate(|mc, root| {
                    let set = find_set(root, s).expect("linked set in root");
                    let before = set.verif_slots();
                    let child = Gc::new(mc, Payload { id: p + CHILD, token: DropToken(p + CHILD), child: None });
                    let obj = Gc::new(mc, Payload { id: p, token: DropToken(p), child: Some(child) });
                    let cols = colours(arena, set_addr, Gc::as_ptr(obj) as usize);
                    let hd = set.stash::<PayR>(mc, obj);
                    root.weaks.borrow_mut(mc).push((p, Gc::downgrade(obj)));
                    (hd, Gc::as_ptr(obj) as usize, before, set.verif_slots(), cols)
                });
                self.cell("stash-new", a, ph, cols.0, cols.1, true);
                self.pays.insert(p, PaySt { arena: a, addr, unref_fin: None, weak: true, child: true, zst: false });
                self.addr2id.insert((a, addr), p);
                self.finish_stash(s, p, h, AnyHandle::Node(hd), &before, &after);
            }
            Op::StashVia { s, h0, h } => {
                let a = self.sets[&s].arena;
                let ph = self.phase_of(a);
                let same = self.handles[&h0].set == s;
                self.cover("stash-again", if same { "linked-same-set" } else { "linked-other-set" }, ph);
                let s0 = self.handles[&h0].set;
                let p = self.handles[&h0].ptr;
                let arena = self.arenas[&a].as_ref().unwrap();
                let AnyHandle::Node(src) = &self.handles[&h0].h else { unreachable!("stashvia needs a node handle") };
                let set_addr = self.sets[&s].addr;
                let (hd, id, before, after, cols) = arena.mutate(|mc, root| {
                    let set0 = find_set(root, s0).expect("linked set in root");
                    let set = find_set(root, s).expect("linked set in root");
                    let obj = set0.fetch(src);
                    let before = set.verif_slots();
                    let cols = colours(arena, set_addr, Gc::as_ptr(obj) as usize);
                    let hd = set.stash::<PayR>(mc, obj);
                    (hd, obj.id, before, set.verif_slots(), cols)
                });
                let hd = AnyHandle::Node(hd);
                self.cell("stash-again", a, ph, cols.0, cols.1, true);
                if id != p {
                    self.monitor(format!("fetch-identity: fetch through h{h0} returned object {id}, stashed was {p}"));
                }
                self.finish_stash(s, p, h, hd, &before, &after);
            }
            Op::Clone { h, h2 } => {
                let s = self.handles[&h].set;
                let a = self.sets[&s].arena;
                let (st, ph) = (self.set_state(s), self.phase_of(a));
                self.cover("clone", st, ph);
                let hd = self.handles[&h].h.dup();
                let ptr = self.handles[&h].ptr;
                let idx = self.handles[&h].idx;
                self.handles.insert(h2, HandleSt { h: hd, set: s, ptr, idx });
                self.line('O', &format!("clone h{h} h{h2}"));
                self.line('A', "ok");
                self.emit_dump(s);
            }
            Op::Drop { h } => {
                let s = self.handles[&h].set;
                let a = self.sets[&s].arena;
                let (st, ph) = (self.set_state(s), self.phase_of(a));
                self.cover("drop", st, ph);
                let hs = self.handles.remove(&h).unwrap();
                drop(hs.h);
                self.line('O', &format!("drop h{h}"));
                self.line('A', "ok");
                self.emit_dump(s);
                self.refresh_unref();
            }
            Op::Fetch { s, h } | Op::TryFetch { s, h } | Op::Contains { s, h } => self.exec_query(op, s, h),
            Op::Dump { s } => {
                let a = self.sets[&s].arena;
                let ph = self.phase_of(a);
                self.cover("dump", "linked", ph);
                self.emit_dump(s);
            }
            Op::Collect { a, k } => {
                let ph = self.phase_of(a);
                let kind = match k {
                    CK::Debt(_) => "collect-debt",
                    CK::Mark(_) => "mark-debt",
                    CK::FinMark => "finish-marking",
                    CK::Cycle(_) => "cycle-debt",
                    CK::FinCycle => "finish-cycle",
                    CK::Step(_) => "collect-step",
                };
                let any_live = self.handles.values().any(|x| self.sets[&x.set].arena == a && self.set_usable(x.set));
                self.cover(kind, if any_live { "live-handles" } else { "no-live-handles" }, ph);
                if any_live {
                    self.stats.coll += 1;
                }
                let arena = self.arenas.get_mut(&a).unwrap().as_mut().unwrap();
                match k {
                    CK::Debt(x) => {
                        arena.metrics().adjust_debt(x);
                        arena.collect_debt();
                    }
                    CK::Mark(x) => {
                        arena.metrics().adjust_debt(x);
                        let _ = arena.mark_debt();
                    }
                    CK::FinMark => {
                        let _ = arena.finish_marking();
                    }
                    CK::Cycle(x) => {
                        arena.metrics().adjust_debt(x);
                        arena.cycle_debt();
                    }
                    CK::FinCycle => arena.finish_cycle(),
                    CK::Step(x) => {
                        let m = arena.metrics();
                        if m.allocation_debt() <= 0.0 {
                            m.adjust_debt(1048576.0);
                        }
                        let d = m.allocation_debt();
                        m.adjust_debt(x - d);
                        arena.collect_debt();
                    }
                }
                // `W` in the driver log: a marking began during this call
                if arena.verif_take_log().contains(&b'W') {
                    self.cycle_stashes.insert(a, 0);
                }
                if k == CK::FinCycle {
                    for st in self.pays.values_mut().filter(|st| st.arena == a) {
                        if let Some(n) = st.unref_fin.as_mut() {
                            *n += 1;
                        }
                    }
                }
                self.check_arena(a, &format!("after `{}`", op.text()));
            }
            Op::Alloc { a, n, keep } => {
                let ph = self.phase_of(a);
                self.cover("alloc", "-", ph);
                let arena = self.arenas.get_mut(&a).unwrap().as_mut().unwrap();
                arena.mutate_root(|mc, root| {
                    let mut chain: Option<Gc<'_, Junk<'_>>> = None;
                    for i in 0..n {
                        let j = Gc::new(mc, Junk { next: chain, pad: [i as u64; 3] });
                        if i < keep {
                            chain = Some(j);
                        }
                    }
                    if let Some(c) = chain {
                        root.junk.push(c);
                    }
                });
            }
            Op::ClearJunk { a } => {
                let ph = self.phase_of(a);
                self.cover("clearjunk", "-", ph);
                let arena = self.arenas.get_mut(&a).unwrap().as_mut().unwrap();
                arena.mutate_root(|_, root| root.junk.clear());
            }
            Op::DropArena { a } => {
                let ph = self.phase_of(a);
                self.cover("droparena", "-", ph);
                let arena = self.arenas.get_mut(&a).unwrap().take().unwrap();
                drop(arena);
                let gone: Vec<u32> = self.sets.iter().filter(|(_, st)| st.arena == a && st.linked).map(|(s, _)| *s).collect();
                for s in gone {
                    self.line('O', &format!("destroy s{s}"));
                    self.line('A', "ok");
                }
                self.refresh_unref();
                self.check_arena(a, "after `droparena`");
            }
            Op::WeakNew { a, p } => {
                let ph = self.phase_of(a);
                self.cover("weaknew", "-", ph);
                let arena = self.arenas[&a].as_ref().unwrap();
                let addr = arena.mutate(|mc, root| {
                    let child = Gc::new(mc, Payload { id: p + CHILD, token: DropToken(p + CHILD), child: None });
                    let obj = Gc::new(mc, Payload { id: p, token: DropToken(p), child: Some(child) });
                    // the only reference that survives this callback is weak
                    root.weaks.borrow_mut(mc).push((p, Gc::downgrade(obj)));
                    Gc::as_ptr(obj) as usize
                });
                self.pays.insert(p, PaySt { arena: a, addr, unref_fin: Some(0), weak: true, child: true, zst: false });
                self.addr2id.insert((a, addr), p);
            }
            Op::StashWeak { s, p, h } => {
                let a = self.sets[&s].arena;
                let ph = self.phase_of(a);
                let st = self.set_state(s);
                self.cover("stash-weak", st, ph);
                let arena = self.arenas[&a].as_ref().unwrap();
                let set_addr = self.sets[&s].addr;
                let want_addr = self.pays[&p].addr;
                let rooted = self.live_count(p);
                let destructed = is_dropped(p);
                let cols = colours(arena, set_addr, want_addr);
                let r = arena.mutate(|mc, root| {
                    let set = find_set(root, s).expect("linked set in root");
                    let weak = root.weaks.borrow().iter().find(|(id, _)| *id == p).map(|(_, w)| *w).expect("weak entry");
                    weak.upgrade(mc).map(|obj| {
                        let before = set.verif_slots();
                        let hd = set.stash::<PayR>(mc, obj);
                        (hd, Gc::as_ptr(obj) as usize, before, set.verif_slots())
                    })
                });
                self.cell("stash-weak", a, ph, cols.0, cols.1, r.is_some());
                match r {
                    Some((hd, addr, before, after)) => {
                        if destructed {
                            self.monitor(format!("upgrade-of-destructed: `{}`: GcWeak::upgrade succeeded for object {p}, which has been destructed", op.text()));
                            std::mem::forget(hd);
                            return;
                        }
                        if addr != want_addr {
                            self.monitor(format!("fetch-identity: `{}`: upgrade returned {addr:#x}, object {p} lives at {want_addr:#x}", op.text()));
                        }
                        self.finish_stash(s, p, h, AnyHandle::Node(hd), &before, &after);
                    }
                    None => {
                        self.line('N', "dead");
                        if rooted > 0 {
                            self.monitor(format!(
                                "upgrade-refused: `{}`: GcWeak::upgrade failed for object {p} although {rooted} live handle(s) of a reachable set exist",
                                op.text()
                            ));
                        }
                    }
                }
            }
            Op::WeakDrop { a, p } => {
                let ph = self.phase_of(a);
                self.cover("weakdrop", "-", ph);
                let arena = self.arenas[&a].as_ref().unwrap();
                arena.mutate(|mc, root| root.weaks.borrow_mut(mc).retain(|(id, _)| *id != p));
                self.pays.get_mut(&p).unwrap().weak = false;
            }
            Op::Park { s } => {
                let a = self.sets[&s].arena;
                let ph = self.phase_of(a);
                self.cover("park", "linked", ph);
                let arena = self.arenas.get_mut(&a).unwrap().as_mut().unwrap();
                arena.mutate_root(|mc, root| {
                    if let Some(i) = root.sets.iter().position(|(n, _)| *n == s) {
                        let e = root.sets.remove(i);
                        root.parked.borrow_mut(mc).push(e);
                    }
                });
                self.sets.get_mut(&s).unwrap().parked = true;
                self.emit_dump(s);
            }
            Op::Unpark { s } => {
                let a = self.sets[&s].arena;
                let ph = self.phase_of(a);
                self.cover("unpark", "parked", ph);
                let arena = self.arenas.get_mut(&a).unwrap().as_mut().unwrap();
                arena.mutate_root(|mc, root| {
                    let i = root.parked.borrow().iter().position(|(n, _)| *n == s);
                    if let Some(i) = i {
                        let e = root.parked.borrow_mut(mc).remove(i);
                        root.sets.push(e);
                    }
                });
                self.sets.get_mut(&s).unwrap().parked = false;
                self.emit_dump(s);
            }
            Op::StashLeaf { s, k, p, h } => {
                let a = self.sets[&s].arena;
                let ph = self.phase_of(a);
                let st = self.set_state(s);
                self.cover(&format!("stash-leaf-{}", CLASSES[k as usize]), st, ph);
                let arena = self.arenas[&a].as_ref().unwrap();
                let set_addr = self.sets[&s].addr;
                let r = arena.mutate(|mc, root| {
                    let probe = |addr: usize| colours(arena, set_addr, addr);
                    match k {
                        1 => stash_in::<LeafR>(mc, root, s, p, probe),
                        2 => stash_in::<StatR>(mc, root, s, p, probe),
                        3 => stash_in::<RcR>(mc, root, s, p, probe),
                        _ => stash_in::<ZstR>(mc, root, s, p, probe),
                    }
                });
                let (hd, addr, before, after, cols) = r;
                self.cell(&format!("stash-leaf-{}", CLASSES[k as usize]), a, ph, cols.0, cols.1, true);
                self.pays.insert(p, PaySt { arena: a, addr, unref_fin: None, weak: false, child: false, zst: k == 4 });
                self.addr2id.insert((a, addr), p);
                self.finish_stash(s, p, h, hd, &before, &after);
            }
            Op::StashFin { s, k, p, h } => {
                let a = self.sets[&s].arena;
                let ph = self.phase_of(a);
                let st = self.set_state(s);
                self.cover(&format!("stash-fin-{}", CLASSES[k as usize]), st, ph);
                let set_addr = self.sets[&s].addr;
                let arena = self.arenas.get_mut(&a).unwrap().as_mut().unwrap();
                // finish the marking first (so that the colours can be read), then enter `finalize`
                let marked = arena.finish_marking().is_some();
                let new_cycle = arena.verif_take_log().contains(&b'W');
                let set_colour = colours(arena, set_addr, 0).0;
                let r = match arena.finish_marking() {
                    Some(m) if marked => Some(m.finalize(|fc, root| {
                        let mc: &Mutation<'_> = fc;
                        let probe = |_: usize| ('?', '?');
                        match k {
                            0 => stash_in::<PayR>(mc, root, s, p, probe),
                            1 => stash_in::<LeafR>(mc, root, s, p, probe),
                            2 => stash_in::<StatR>(mc, root, s, p, probe),
                            3 => stash_in::<RcR>(mc, root, s, p, probe),
                            _ => stash_in::<ZstR>(mc, root, s, p, probe),
                        }
                    })),
                    _ => None,
                };
                if new_cycle {
                    self.cycle_stashes.insert(a, 0);
                }
                match r {
                    Some((hd, addr, before, after, _)) => {
                        // nothing ran since the stash: the object still has the colour it was stashed with
                        let arena = self.arenas[&a].as_ref().unwrap();
                        let target_colour = colours(arena, 0, addr).1;
                        self.cell(&format!("stash-fin-{}", CLASSES[k as usize]), a, "finalize", set_colour, target_colour, true);
                        self.pays.insert(p, PaySt { arena: a, addr, unref_fin: None, weak: k == 0, child: k == 0, zst: k == 4 });
                        self.addr2id.insert((a, addr), p);
                        self.finish_stash(s, p, h, hd, &before, &after);
                    }
                    None => self.line('N', "not-marked"),
                }
                self.check_arena(a, &format!("after `{}`", op.text()));
            }
            Op::CloneFrom { dst, src } => {
                let (ds, ss) = (self.handles[&dst].set, self.handles[&src].set);
                let (da, sa) = (self.sets[&ds].arena, self.sets[&ss].arena);
                let rel = if ds == ss {
                    "same-set"
                } else if da == sa {
                    "other-set-same-arena"
                } else {
                    "other-arena"
                };
                let eq = match (self.handles[&dst].idx, self.handles[&src].idx) {
                    (Some(x), Some(y)) if x == y => "equal-index",
                    _ => "different-index",
                };
                let (st, ph) = (self.set_state(ss), self.phase_of(sa));
                self.cover("clonefrom", &format!("{rel}-{eq}-src-{st}"), ph);
                self.line('J', &format!("{rel}|{eq}|{ph}"));
                let mut d = self.handles.remove(&dst).unwrap();
                {
                    let sh = &self.handles[&src];
                    let same_type = d.h.clone_from_any(&sh.h);
                    assert!(same_type, "clonefrom between handle types");
                    d.set = sh.set;
                    d.ptr = sh.ptr;
                    d.idx = sh.idx;
                }
                self.handles.insert(dst, d);
                // for the model: the old `dst` is dropped, a clone of `src` takes its name
                self.line('O', &format!("drop h{dst}"));
                self.line('A', "ok");
                self.line('O', &format!("clone h{src} h{dst}"));
                self.line('A', "ok");
                self.emit_dump(ds);
                if ss != ds {
                    self.emit_dump(ss);
                }
                self.refresh_unref();
            }
            Op::End { arenas_first } => {
                self.cover("end", if arenas_first { "arenas-first" } else { "handles-first" }, "-");
                self.ended = true;
                self.end_case(arenas_first);
            }
        }
    }

    fn finish_stash(&mut self, s: u32, p: u64, h: u32, hd: AnyHandle, before: &[(bool, usize, usize)], after: &[(bool, usize, usize)]) {
        // the index the handle got = the one slot that turned from vacant / absent into occupied
        let turned: Vec<usize> =
            (0..after.len()).filter(|&i| after[i].0 && (i >= before.len() || !before[i].0)).collect();
        let answer = if turned.len() == 1 { turned[0].to_string() } else { format!("?{turned:?}") };
        self.stats.stash += 1;
        if turned.len() == 1 && turned[0] < before.len() {
            self.stats.reuse += 1;
        }
        let idx = if turned.len() == 1 { Some(turned[0]) } else { None };
        self.handles.insert(h, HandleSt { h: hd, set: s, ptr: p, idx });
        self.line('O', &format!("stash s{s} {p} h{h}"));
        self.line('A', &answer);
        self.emit_dump(s);
        self.refresh_unref();
    }

    fn exec_query(&mut self, op: Op, s: u32, h: u32) {
        let a = self.sets[&s].arena;
        let ph = self.phase_of(a);
        let rel = self.relation(s, h);
        let own = rel == "own";
        let kind = match op {
            Op::Fetch { .. } => "fetch",
            Op::TryFetch { .. } => "tryfetch",
            _ => "contains",
        };
        self.cover(kind, &rel, ph);
        let p = self.handles[&h].ptr;
        let want_addr = self.pays[&p].addr;
        self.sync_zst(self.pays[&p].arena);
        let arena = self.arenas[&a].as_ref().unwrap();
        let which = match op {
            Op::Fetch { .. } => 0,
            Op::TryFetch { .. } => 1,
            _ => 2,
        };
        let q = match &self.handles[&h].h {
            AnyHandle::Node(hd) => query(arena, s, hd, which, own, p),
            AnyHandle::Leaf(hd) => query(arena, s, hd, which, own, p),
            AnyHandle::Stat(hd) => query(arena, s, hd, which, own, p),
            AnyHandle::Rc(hd) => query(arena, s, hd, which, own, p),
            AnyHandle::Zst(hd) => query(arena, s, hd, which, own, p),
        };
        let accepted = q.accepted;
        let mut answer = match which {
            0 => String::new(),
            1 => "mismatch".to_string(),
            _ => if accepted { "true".to_string() } else { "false".to_string() },
        };
        if let Some(t) = q.panic {
            answer = format!("panic:{t}");
            if t != "mismatched root set" {
                self.monitor(format!("unexpected-panic: `{}` panicked: {t}", op.text()));
                return;
            }
        }
        if let Some((id, addr, eq, up)) = q.obs {
            // a zero-sized payload has no id inside: it is identified by its address
            let id = id.or_else(|| self.addr2id.get(&(self.pays[&p].arena, addr)).copied());
            answer = if own { id.map(|x| x.to_string()).unwrap_or_else(|| format!("?{addr:#x}")) } else { format!("accepted@{addr:#x}") };
            if own {
                if id != Some(p) || addr != want_addr {
                    self.monitor(format!(
                        "fetch-identity: `{}` returned object {id:?} at {addr:#x}; stashed was object {p} at {want_addr:#x}",
                        op.text()
                    ));
                } else if is_dropped(p) {
                    self.monitor(format!("fetch-identity: `{}` returned object {p}, which has been destructed", op.text()));
                } else if !up || !eq {
                    self.monitor(format!(
                        "fetch-identity: `{}`: Gc::ptr_eq(fetched, stashed) = {eq} (weak copy upgradable: {up})",
                        op.text()
                    ));
                }
            }
        }
        self.line('O', &op.text());
        self.line('A', &answer);
        if accepted && !own {
            self.monitor(format!("foreign-accepted: `{}` accepted a handle issued by set s{} ({rel})", op.text(), self.handles[&h].set));
        } else if !accepted && own {
            self.monitor(format!("own-refused: `{}` refused a handle issued by this very set", op.text()));
        }
    }

    /// End of a case: everything is dropped (arenas first: the handles outlive them; handles first:
    /// every object must then be collected by two `finish_cycle`s), the monitors run once more.
    fn end_case(&mut self, arenas_first: bool) {
        if arenas_first {
            let names: Vec<u32> = self.arenas.keys().copied().collect();
            for a in names {
                if let Some(ar) = self.arenas.get_mut(&a).unwrap().take() {
                    drop(ar);
                    self.check_arena(a, "arena dropped at the end of the case");
                    if self.violated {
                        return;
                    }
                }
            }
            let handles = std::mem::take(&mut self.handles);
            drop(handles);
        } else {
            let handles = std::mem::take(&mut self.handles);
            drop(handles);
            self.refresh_unref();
            let names: Vec<u32> = self.arenas.keys().copied().collect();
            for a in names {
                if !self.arena_alive(a) {
                    continue;
                }
                if let Some(ar) = self.arenas.get_mut(&a).unwrap().as_mut() {
                    ar.finish_cycle();
                    ar.finish_cycle();
                }
                for st in self.pays.values_mut().filter(|st| st.arena == a) {
                    if let Some(n) = st.unref_fin.as_mut() {
                        *n += 2;
                    }
                }
                self.check_arena(a, "all handles dropped and two finish_cycle calls at the end of the case");
                if self.violated {
                    return;
                }
            }
            let arenas = std::mem::take(&mut self.arenas);
            drop(arenas);
        }
    }

    /// Clean-up after the last operation and the `E` record.
    fn finish(&mut self, case: u64) {
        if !self.violated && !self.ended {
            self.exec(Op::End { arenas_first: false });
        }
        if self.violated {
            // the heap may be damaged: leak everything instead of running more destructors
            let handles = std::mem::take(&mut self.handles);
            for (_, h) in handles {
                std::mem::forget(h.h);
            }
            let arenas = std::mem::take(&mut self.arenas);
            for (_, a) in arenas {
                std::mem::forget(a);
            }
        }
        let s = format!("{case} stash={} reuse={} coll={} ops={}", self.stats.stash, self.stats.reuse, self.stats.coll, self.stats.ops);
        self.line('E', &s);
    }
}

/// Colours of the set object and of the object about to be stashed, read through the snapshot
/// hook: `B` black, `G` gray, `W` white, `w` white-weak, `?` not found.
fn colours(arena: &Arena<RootT>, set_addr: usize, target_addr: usize) -> (char, char) {
    let snap = arena.verif_snapshot();
    let find = |addr: usize| snap.all.iter().find(|o| o.addr == addr).map(|o| o.color as char).unwrap_or('?');
    (find(set_addr), find(target_addr))
}

// ------------------------------------------------------------------------------------------------
// generator
// ------------------------------------------------------------------------------------------------

struct Rng(u64);

impl Rng {
    fn next(&mut self) -> u64 {
        self.0 = self.0.wrapping_add(0x9E37_79B9_7F4A_7C15);
        let mut z = self.0;
        z = (z ^ (z >> 30)).wrapping_mul(0xBF58_476D_1CE4_E5B9);
        z = (z ^ (z >> 27)).wrapping_mul(0x94D0_49BB_1331_11EB);
        z ^ (z >> 31)
    }
    fn below(&mut self, n: u64) -> u64 {
        if n == 0 { 0 } else { self.next() % n }
    }
    fn chance(&mut self, num: u64, den: u64) -> bool {
        self.below(den) < num
    }
    fn pick<T: Copy>(&mut self, v: &[T]) -> Option<T> {
        if v.is_empty() { None } else { Some(v[self.below(v.len() as u64) as usize]) }
    }
}

struct Profile {
    arenas: u32,
    sets_per_arena: u32,
    /// relative weights: stash-new, stash-again, clone, drop, query-own, query-foreign, collect,
    /// alloc, unlink, droparena, newset, clearjunk, dump, weak scenario (colour-directed), single
    /// weak-table operation, park / unpark, clone_from (directed scenario or a random pair)
    w: [u64; 17],
    /// upper bound for debts (in quarter units)
    debt_q: u64,
    junk: u32,
}

fn profile(rng: &mut Rng) -> Profile {
    match rng.below(8) {
        // slot reuse: few live stashes, many drops
        0 => Profile { arenas: 1, sets_per_arena: 2, w: [30, 6, 8, 34, 8, 3, 16, 3, 1, 0, 1, 1, 2, 1, 3, 1, 4], debt_q: 200, junk: 8 },
        // clones of clones
        1 => Profile { arenas: 1, sets_per_arena: 1, w: [12, 8, 34, 26, 8, 2, 14, 3, 0, 0, 1, 1, 2, 1, 2, 1, 4], debt_q: 120, junk: 6 },
        // tiny collection increments over a big heap: operations in every phase
        2 => Profile { arenas: 1, sets_per_arena: 2, w: [18, 6, 10, 16, 8, 3, 40, 10, 1, 0, 1, 2, 1, 2, 6, 2, 4], debt_q: 24, junk: 60 },
        // several arenas, foreign handles, outliving handles
        3 => Profile { arenas: 3, sets_per_arena: 2, w: [18, 5, 10, 14, 8, 22, 14, 3, 3, 3, 3, 1, 1, 1, 3, 1, 12], debt_q: 160, junk: 6 },
        // sets being unlinked and collected
        4 => Profile { arenas: 2, sets_per_arena: 3, w: [20, 6, 10, 14, 8, 10, 20, 4, 8, 2, 5, 1, 1, 1, 3, 2, 8], debt_q: 80, junk: 10 },
        // colour-directed: weakly reached objects adopted by a (black) set while marking
        5 => Profile { arenas: 1, sets_per_arena: 2, w: [3, 2, 6, 8, 6, 2, 6, 2, 1, 0, 1, 1, 1, 30, 8, 3, 4], debt_q: 40, junk: 6 },
        // the same amid ordinary traffic and small increments
        6 => Profile { arenas: 2, sets_per_arena: 2, w: [12, 4, 8, 14, 6, 4, 24, 6, 2, 1, 2, 1, 1, 10, 12, 4, 4], debt_q: 16, junk: 30 },
        // mixed
        _ => Profile { arenas: 2, sets_per_arena: 2, w: [20, 6, 14, 20, 10, 8, 22, 5, 2, 1, 2, 1, 2, 2, 4, 2, 4], debt_q: 100, junk: 16 },
    }
}

struct Gen {
    rng: Rng,
    next_arena: u32,
    next_set: u32,
    next_handle: u32,
    next_pay: u64,
}

impl Gen {
    fn usable_sets(&self, ex: &Exec) -> Vec<u32> {
        ex.sets.keys().copied().filter(|s| ex.set_usable(*s)).collect()
    }
    fn live_arenas(&self, ex: &Exec) -> Vec<u32> {
        ex.arenas.keys().copied().filter(|a| ex.arena_alive(*a)).collect()
    }
    fn handles(&self, ex: &Exec) -> Vec<u32> {
        ex.handles.keys().copied().collect()
    }

    /// a stash of a freshly allocated object into `s`: a node (with child and weak entry) or one of
    /// the leaf classes; occasionally from inside `finalize`
    fn fresh_stash(&mut self, s: u32, allow_fin: bool) -> Op {
        let (p, h) = (self.next_pay, self.next_handle);
        self.next_pay += 1;
        self.next_handle += 1;
        let k = if self.rng.chance(1, 2) { 0 } else { 1 + self.rng.below(4) as u8 };
        if allow_fin && self.rng.chance(1, 8) {
            Op::StashFin { s, k, p, h }
        } else if k == 0 {
            Op::StashNew { s, p, h }
        } else {
            Op::StashLeaf { s, k, p, h }
        }
    }

    fn collect_op(&mut self, a: u32, prof: &Profile) -> Op {
        // small debts walk through a phase in several increments
        let x = if self.rng.chance(1, 2) { (1 + self.rng.below(8)) as f64 / 4.0 } else { (1 + self.rng.below(prof.debt_q)) as f64 / 4.0 };
        let k = match self.rng.below(12) {
            10 | 11 => CK::Step((1 + self.rng.below(12)) as f64 / 4.0),
            0..=3 => CK::Debt(x),
            4 => CK::Mark(x),
            5 | 6 => CK::FinMark,
            7 => CK::Cycle(x),
            _ => CK::FinCycle,
        };
        Op::Collect { a, k }
    }

    fn step(&mut self, ex: &mut Exec, prof: &Profile) {
        let total: u64 = prof.w.iter().sum();
        let mut r = self.rng.below(total);
        let mut kind = 0;
        for (i, w) in prof.w.iter().enumerate() {
            if r < *w {
                kind = i;
                break;
            }
            r -= *w;
        }
        let sets = self.usable_sets(ex);
        let arenas = self.live_arenas(ex);
        let handles = self.handles(ex);
        // a sweep is short: while one is in progress prefer handle operations to further collection
        let sweeping: Vec<u32> = arenas.iter().copied().filter(|a| ex.phase_of(*a) == "sweeping").collect();
        if !sweeping.is_empty() && (kind == 6 || kind == 7 || (10..=12).contains(&kind) || kind == 15) && self.rng.chance(3, 4) {
            kind = [0usize, 1, 2, 3, 3, 4, 5][self.rng.below(7) as usize];
        }
        // fully marked: a tiny debt starts the sweep without finishing it
        let marked: Vec<u32> = arenas.iter().copied().filter(|a| ex.phase_of(*a) == "marked").collect();
        if kind == 6 && !marked.is_empty() && self.rng.chance(1, 2) {
            let a = self.rng.pick(&marked).unwrap();
            let x = (1 + self.rng.below(3)) as f64 / 4.0;
            ex.exec(Op::Collect { a, k: if self.rng.chance(1, 2) { CK::Step(x) } else { CK::Debt(x) } });
            return;
        }
        let op = match kind {
            0 => self.rng.pick(&sets).map(|s| self.fresh_stash(s, true)),
            1 => {
                let cands: Vec<u32> = handles.iter().copied().filter(|h| ex.set_usable(ex.handles[h].set)).collect();
                self.rng.pick(&cands).and_then(|h0| {
                    let a = ex.sets[&ex.handles[&h0].set].arena;
                    let same: Vec<u32> = sets.iter().copied().filter(|s| ex.sets[s].arena == a).collect();
                    self.rng.pick(&same).map(|s| {
                        let h = self.next_handle;
                        self.next_handle += 1;
                        Op::StashVia { s, h0, h }
                    })
                })
            }
            2 => self.rng.pick(&handles).map(|h| {
                let h2 = self.next_handle;
                self.next_handle += 1;
                Op::Clone { h, h2 }
            }),
            3 => self.rng.pick(&handles).map(|h| Op::Drop { h }),
            4 => {
                let cands: Vec<u32> = handles.iter().copied().filter(|h| ex.set_usable(ex.handles[h].set)).collect();
                self.rng.pick(&cands).map(|h| {
                    let s = ex.handles[&h].set;
                    match self.rng.below(3) {
                        0 => Op::Fetch { s, h },
                        1 => Op::TryFetch { s, h },
                        _ => Op::Contains { s, h },
                    }
                })
            }
            5 => self.rng.pick(&handles).and_then(|h| {
                let cands: Vec<u32> = sets.iter().copied().filter(|s| *s != ex.handles[&h].set).collect();
                self.rng.pick(&cands).map(|s| match self.rng.below(3) {
                    0 => Op::Fetch { s, h },
                    1 => Op::TryFetch { s, h },
                    _ => Op::Contains { s, h },
                })
            }),
            6 => self.rng.pick(&arenas).map(|a| self.collect_op(a, prof)),
            7 => self.rng.pick(&arenas).map(|a| {
                let n = 1 + self.rng.below(prof.junk as u64 * 2) as u32;
                let keep = self.rng.below(n as u64 + 1) as u32;
                Op::Alloc { a, n, keep }
            }),
            8 => {
                // keep at least one usable set around most of the time
                if sets.len() > 1 || self.rng.chance(1, 4) { self.rng.pick(&sets).map(|s| Op::Unlink { s }) } else { None }
            }
            9 => {
                if arenas.len() > 1 || self.rng.chance(1, 6) { self.rng.pick(&arenas).map(|a| Op::DropArena { a }) } else { None }
            }
            10 => self.rng.pick(&arenas).map(|a| {
                let s = self.next_set;
                self.next_set += 1;
                Op::NewSet { a, s }
            }),
            11 => self.rng.pick(&arenas).map(|a| Op::ClearJunk { a }),
            12 => self.rng.pick(&sets).map(|s| Op::Dump { s }),
            13 => {
                self.weak_scenario(ex);
                None
            }
            14 => {
                // a single operation on the weak table
                let known: Vec<u64> = ex.pays.iter().filter(|(_, st)| st.weak && ex.arena_alive(st.arena)).map(|(p, _)| *p).collect();
                match self.rng.below(4) {
                    0 | 1 => self.rng.pick(&arenas).map(|a| {
                        let p = self.next_pay;
                        self.next_pay += 1;
                        Op::WeakNew { a, p }
                    }),
                    2 => self.rng.pick(&known).and_then(|p| {
                        let a = ex.pays[&p].arena;
                        let here: Vec<u32> = sets.iter().copied().filter(|s| ex.sets[s].arena == a).collect();
                        self.rng.pick(&here).map(|s| {
                            let h = self.next_handle;
                            self.next_handle += 1;
                            Op::StashWeak { s, p, h }
                        })
                    }),
                    _ => self.rng.pick(&known).map(|p| Op::WeakDrop { a: ex.pays[&p].arena, p }),
                }
            }
            15 => self.rng.pick(&sets).map(|s| if ex.sets[&s].parked { Op::Unpark { s } } else { Op::Park { s } }),
            _ => {
                self.clonefrom_scenario(ex, prof);
                None
            }
        };
        if let Some(op) = op {
            ex.exec(op);
            // stashing right after the marking finished: the set object is black
            if let Op::Collect { a, k: CK::FinMark } = op {
                if self.rng.chance(2, 3) {
                    let here: Vec<u32> = self.usable_sets(ex).into_iter().filter(|s| ex.sets[s].arena == a).collect();
                    if let Some(s) = self.rng.pick(&here) {
                        let st = self.fresh_stash(s, true);
                        let h = match st {
                            Op::StashNew { h, .. } | Op::StashLeaf { h, .. } | Op::StashFin { h, .. } => h,
                            _ => unreachable!(),
                        };
                        ex.exec(st);
                        if self.rng.chance(1, 2) && ex.handles.contains_key(&h) {
                            ex.exec(Op::Collect { a, k: CK::FinCycle });
                            ex.exec(Op::Fetch { s, h });
                        }
                    }
                }
            }
        }
    }

    /// Colour-directed scenario: an object that is reachable only through the root's weak table is
    /// weakly marked by a marking (white-weak) while the set object is black; the mutator upgrades
    /// the weak pointer and stashes the object — as the first stash of that cycle, so that nothing
    /// else has re-grayed the set — and keeps a handle across the sweep.  Variants: partial marking,
    /// sweep in progress (the upgrade must fail), already destructed object (shell), set reachable
    /// through the holder object, several sets.
    fn weak_scenario(&mut self, ex: &mut Exec) {
        let arenas = self.live_arenas(ex);
        let Some(a) = self.rng.pick(&arenas) else { return };
        let mut sets: Vec<u32> = self.usable_sets(ex).into_iter().filter(|s| ex.sets[s].arena == a).collect();
        if sets.is_empty() {
            let s = self.next_set;
            self.next_set += 1;
            ex.exec(Op::NewSet { a, s });
            sets.push(s);
        }
        let s = self.rng.pick(&sets).unwrap();
        // mostly start from a sleeping collector: the stash below is then the first of its cycle
        if self.rng.chance(3, 4) {
            ex.exec(Op::Collect { a, k: CK::FinCycle });
        }
        // the target: a fresh weak-only object, or one whose handles are all gone
        let orphans: Vec<u64> = ex
            .pays
            .iter()
            .filter(|(p, st)| st.weak && st.arena == a && !is_dropped(**p) && ex.live_count(**p) == 0)
            .map(|(p, _)| *p)
            .collect();
        let p = if !orphans.is_empty() && self.rng.chance(1, 4) {
            self.rng.pick(&orphans).unwrap()
        } else {
            let p = self.next_pay;
            self.next_pay += 1;
            ex.exec(Op::WeakNew { a, p });
            p
        };
        let small = |g: &mut Gen| (1 + g.rng.below(3)) as f64 / 4.0;
        let variant = self.rng.below(9);
        match variant {
            0..=2 | 7 | 8 => {
                ex.exec(Op::Collect { a, k: CK::FinMark });
            }
            3 => {
                let x = (1 + self.rng.below(16)) as f64 / 4.0;
                ex.exec(Op::Collect { a, k: CK::Mark(x) });
            }
            4 => {
                // a long sweep (the junk is newer than the target, hence swept before it): the
                // target is condemned but not yet swept, so the upgrade must fail
                let n = 40 + self.rng.below(60) as u32;
                ex.exec(Op::Alloc { a, n, keep: n / 2 });
                ex.exec(Op::Collect { a, k: CK::FinMark });
                let x = small(self);
                ex.exec(Op::Collect { a, k: CK::Step(x) });
            }
            5 => {
                ex.exec(Op::Collect { a, k: CK::FinCycle });
                ex.exec(Op::Collect { a, k: CK::FinCycle });
            }
            _ => {
                ex.exec(Op::Collect { a, k: CK::FinMark });
                ex.exec(if ex.sets[&s].parked { Op::Unpark { s } } else { Op::Park { s } });
            }
        }
        let h = self.next_handle;
        self.next_handle += 1;
        ex.exec(Op::StashWeak { s, p, h });
        let mut mine = vec![h];
        if variant == 7 {
            // a second set adopts the same object (not the first stash of the cycle any more)
            let s2 = match self.rng.pick(&sets.iter().copied().filter(|x| *x != s).collect::<Vec<_>>()) {
                Some(s2) => s2,
                None => s,
            };
            let h2 = self.next_handle;
            self.next_handle += 1;
            ex.exec(Op::StashWeak { s: s2, p, h: h2 });
            mine.push(h2);
        }
        mine.retain(|h| ex.handles.contains_key(h));
        if mine.is_empty() || ex.violated {
            return;
        }
        // clones / drops: exactly one handle (possibly a clone) survives
        if self.rng.chance(1, 2) {
            let c = self.next_handle;
            self.next_handle += 1;
            ex.exec(Op::Clone { h: mine[0], h2: c });
            mine.push(c);
        }
        while mine.len() > 1 {
            let i = self.rng.below(mine.len() as u64) as usize;
            let victim = mine.remove(i);
            ex.exec(Op::Drop { h: victim });
        }
        let keep = mine[0];
        if self.rng.chance(1, 3) {
            let x = small(self);
            ex.exec(Op::Collect { a, k: CK::Debt(x) });
        }
        ex.exec(Op::Collect { a, k: CK::FinCycle });
        ex.exec(Op::Collect { a, k: CK::FinCycle });
        if ex.violated || !ex.handles.contains_key(&keep) {
            return;
        }
        let ks = ex.handles[&keep].set;
        if ex.set_usable(ks) {
            ex.exec(if self.rng.chance(1, 2) { Op::Fetch { s: ks, h: keep } } else { Op::TryFetch { s: ks, h: keep } });
        }
        if self.rng.chance(1, 2) {
            // last handle gone: collectable again; afterwards only a shell is left behind the weak
            ex.exec(Op::Drop { h: keep });
            ex.exec(Op::Collect { a, k: CK::FinCycle });
            ex.exec(Op::Collect { a, k: CK::FinCycle });
            if self.rng.chance(1, 2) && ex.set_usable(s) {
                let h3 = self.next_handle;
                self.next_handle += 1;
                ex.exec(Op::StashWeak { s, p, h: h3 });
            }
        }
    }

    /// `dst.clone_from(&src)`, directed at the pairs that matter: handles of the same set (same
    /// slot, different slots) and of different sets / arenas whose slot numbers are EQUAL (both first
    /// stashes of fresh sets, or an equal number reached through free-list reuse) or different;
    /// then `src` is dropped, two full cycles run (src's object must live on through `dst`, dst's
    /// former object must go unless another handle has it) and `dst` is offered to both sets.
    fn clonefrom_scenario(&mut self, ex: &mut Exec, prof: &Profile) {
        let handles = self.handles(ex);
        let cat = self.rng.below(10);
        // candidate pairs among the live handles
        let mut pairs: Vec<(u32, u32)> = Vec::new();
        for &d in &handles {
            for &r in &handles {
                if d == r {
                    continue;
                }
                let (hd, hr) = (&ex.handles[&d], &ex.handles[&r]);
                if hd.h.class() != hr.h.class() {
                    continue; // `clone_from` is between handles of one type
                }
                let same_set = hd.set == hr.set;
                let same_arena = ex.sets[&hd.set].arena == ex.sets[&hr.set].arena;
                let eq = hd.idx.is_some() && hd.idx == hr.idx;
                let want = match cat {
                    0 => same_set && eq,
                    1 => same_set && !eq,
                    2..=4 => !same_set && same_arena && eq,
                    5..=6 => !same_arena && eq,
                    7 => !same_set && !eq,
                    _ => true,
                };
                if want {
                    pairs.push((d, r));
                }
            }
        }
        let mut pair = self.rng.pick(&pairs);
        if pair.is_none() && (2..=6).contains(&cat) {
            // make one: two fresh sets (of one arena or of two), the first stash of each gets slot 0
            let arenas = self.live_arenas(ex);
            let Some(a1) = self.rng.pick(&arenas) else { return };
            let a2 = if cat >= 5 {
                match self.rng.pick(&arenas.iter().copied().filter(|a| *a != a1).collect::<Vec<_>>()) {
                    Some(a) => a,
                    None => {
                        let a = self.next_arena;
                        self.next_arena += 1;
                        ex.exec(Op::Arena(a));
                        a
                    }
                }
            } else {
                a1
            };
            let mut made = Vec::new();
            let k = if self.rng.chance(1, 2) { 0 } else { 1 + self.rng.below(4) as u8 };
            for a in [a1, a2] {
                let s = self.next_set;
                self.next_set += 1;
                ex.exec(Op::NewSet { a, s });
                let (p, h) = (self.next_pay, self.next_handle);
                self.next_pay += 1;
                self.next_handle += 1;
                ex.exec(if k == 0 { Op::StashNew { s, p, h } } else { Op::StashLeaf { s, k, p, h } });
                made.push(h);
            }
            if made.iter().all(|h| ex.handles.contains_key(h)) {
                pair = Some((made[0], made[1]));
            }
        }
        let Some((dst, src)) = pair else { return };
        if ex.violated {
            return;
        }
        let old_set = ex.handles[&dst].set;
        let new_set = ex.handles[&src].set;
        // any phase
        if self.rng.chance(1, 2) {
            let a = ex.sets[&new_set].arena;
            if ex.arena_alive(a) {
                let op = self.collect_op(a, prof);
                ex.exec(op);
            }
        }
        ex.exec(Op::CloneFrom { dst, src });
        if self.rng.chance(3, 4) {
            ex.exec(Op::Drop { h: src });
        }
        for a in [ex.sets[&new_set].arena, ex.sets[&old_set].arena] {
            if ex.arena_alive(a) {
                ex.exec(Op::Collect { a, k: CK::FinCycle });
                ex.exec(Op::Collect { a, k: CK::FinCycle });
            }
        }
        if ex.violated || !ex.handles.contains_key(&dst) {
            return;
        }
        for s in [new_set, old_set] {
            if ex.set_usable(s) {
                ex.exec(match self.rng.below(3) {
                    0 => Op::Fetch { s, h: dst },
                    1 => Op::TryFetch { s, h: dst },
                    _ => Op::Contains { s, h: dst },
                });
            }
        }
        if self.rng.chance(1, 3) {
            ex.exec(Op::Drop { h: dst });
        }
    }

    fn run_case(&mut self, ex: &mut Exec, maxops: u32) {
        let prof = profile(&mut self.rng);
        let narenas = 1 + self.rng.below(prof.arenas as u64) as u32;
        for _ in 0..narenas {
            let a = self.next_arena;
            self.next_arena += 1;
            ex.exec(Op::Arena(a));
            if prof.junk > 0 {
                let n = prof.junk + self.rng.below(prof.junk as u64 + 1) as u32;
                ex.exec(Op::Alloc { a, n, keep: n / 2 });
            }
            let nsets = 1 + self.rng.below(prof.sets_per_arena as u64) as u32;
            for _ in 0..nsets {
                let s = self.next_set;
                self.next_set += 1;
                ex.exec(Op::NewSet { a, s });
            }
        }
        let nops = maxops / 4 + self.rng.below(3 * maxops as u64 / 4 + 1) as u32;
        for _ in 0..nops {
            if ex.violated {
                return;
            }
            self.step(ex, &prof);
        }
        // epilogue: settle, drop some handles, settle again, then let handles outlive arenas
        for a in self.live_arenas(ex) {
            ex.exec(Op::Collect { a, k: CK::FinCycle });
            ex.exec(Op::Collect { a, k: CK::FinCycle });
        }
        for h in self.handles(ex) {
            if self.rng.chance(1, 2) {
                ex.exec(Op::Drop { h });
            }
        }
        for a in self.live_arenas(ex) {
            ex.exec(Op::Collect { a, k: CK::FinCycle });
            ex.exec(Op::Collect { a, k: CK::FinCycle });
            for s in self.usable_sets(ex) {
                if ex.sets[&s].arena == a {
                    ex.exec(Op::Dump { s });
                }
            }
        }
        if self.rng.chance(1, 2) {
            for a in self.live_arenas(ex) {
                if self.rng.chance(2, 3) {
                    ex.exec(Op::DropArena { a });
                }
            }
            for h in self.handles(ex) {
                match self.rng.below(3) {
                    0 => {
                        let h2 = self.next_handle;
                        self.next_handle += 1;
                        ex.exec(Op::Clone { h, h2 });
                    }
                    1 => {
                        ex.exec(Op::Drop { h });
                    }
                    _ => {}
                }
            }
        }
    }
}

fn case_seed(seed: u64, case: u64) -> u64 {
    let mut r = Rng(seed ^ case.wrapping_mul(0xD6E8_FEB8_6659_FD93));
    r.next() ^ r.next().rotate_left(17)
}

fn reset_case_globals() {
    DROPPED.with(|d| d.borrow_mut().clear());
    DOUBLE_DESTRUCT.with(|d| d.borrow_mut().clear());
}

fn main() {
    std::panic::set_hook(Box::new(|_| {}));
    let args: Vec<String> = std::env::args().collect();
    let get = |name: &str, default: u64| -> u64 {
        args.iter().position(|a| a == name).and_then(|i| args.get(i + 1)).and_then(|v| v.parse().ok()).unwrap_or(default)
    };
    match args.get(1).map(|s| s.as_str()) {
        Some("gen") => {
            let seed = get("--seed", 1);
            let cases = get("--cases", 10);
            let start = get("--start", 0);
            let maxops = get("--maxops", 120) as u32;
            for case in start..cases {
                let cs = case_seed(seed, case);
                reset_case_globals();
                quarantine_begin();
                {
                    let mut ex = Exec::new();
                    ex.line('C', &format!("{case} {cs}"));
                    let mut g = Gen { rng: Rng(cs), next_arena: 0, next_set: 0, next_handle: 0, next_pay: 1 };
                    g.run_case(&mut ex, maxops);
                    ex.exec(Op::End { arenas_first: case % 2 == 0 });
                    ex.finish(case);
                }
                quarantine_end();
            }
            println!("Z");
        }
        Some("replay") => {
            let path = args.get(2).expect("replay <file>");
            let text = std::fs::read_to_string(path).expect("readable replay file");
            reset_case_globals();
            quarantine_begin();
            {
                let mut ex = Exec::new();
                ex.line('C', "0 0");
                for line in text.lines() {
                    let t = line.trim();
                    if t.is_empty() || t.starts_with('#') {
                        continue;
                    }
                    match Op::parse(t) {
                        Some(op) => {
                            if !ex.exec(op) && !ex.violated {
                                ex.line('S', t); // skipped: not executable in this state
                            }
                        }
                        None => ex.line('S', &format!("unparsable: {t}")),
                    }
                }
                ex.finish(0);
            }
            quarantine_end();
            println!("Z");
        }
        _ => {
            eprintln!("usage: gcverif-dynroots gen --seed <n> --cases <n> [--start <i>] [--maxops <n>] | replay <file>");
            std::process::exit(2);
        }
    }
}
