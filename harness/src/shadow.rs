//! Shadow object graph (spec level: no colours, phases or queues) and the property monitors that
//! judge the implementation's observed trace against it.

use std::collections::{HashMap, HashSet};

use crate::op::*;

#[derive(Clone, Debug)]
pub struct SObj {
    pub kind: Kind,
    /// no slots, `NEEDS_TRACE = false`
    pub leaf: bool,
    pub slots: Vec<SSlot>,
    pub dropped: u32,
    pub freed: u32,
}

#[derive(Clone, Copy, Debug, PartialEq, Eq, Hash)]
pub enum CPhase {
    Sleeping,
    Marking,
    Marked,
    Sweeping,
}
impl CPhase {
    pub fn name(self) -> &'static str {
        match self {
            CPhase::Sleeping => "Sleeping",
            CPhase::Marking => "Marking",
            CPhase::Marked => "Marked",
            CPhase::Sweeping => "Sweeping",
        }
    }
}

#[derive(Clone, Debug)]
pub struct Violation {
    pub property: &'static str,
    /// stable identifier of the failing pattern (matched against known_findings.txt); "" if none
    pub key: &'static str,
    pub what: String,
}

/// What the harness observed of one op, as far as the monitors need it.
#[derive(Clone, Debug)]
pub struct Observed {
    pub ret: String,
    pub events: Vec<(bool, u32)>, // (is_drop, id) in order
    pub foreign_events: usize,
    pub steps: String,
    pub phase_before: CPhase,
    pub phase_after: CPhase,
    pub debt_before: f64,
    pub debt_after: f64,
    pub total_before: usize,
    pub total_after: usize,
    /// the `traced_gcs` counter (verification hook) before / after the op
    pub traced_before: usize,
    pub traced_after: usize,
    /// the credit counters after the op: (marked, traced, remembered, dropped, freed)
    pub counters_after: (usize, usize, usize, usize, usize),
    /// objects the snapshot shows Gray that are in neither gray queue
    pub orphan_gray: Vec<u32>,
    /// a callback of another arena is running while this op executes
    pub foreign_callback: bool,
    pub live_blocks: usize,
    pub alloc_violations: Vec<String>,
}

#[derive(Clone, Debug, Default)]
pub struct Shadow {
    pub objs: Vec<SObj>,
    pub root: Vec<SSlot>,
    pub temps: Vec<SP>,
    pub cb: Option<Cb>,
    pub alive: bool,
    pub pacing: Option<PacingSpec>,
    /// the previous op was an un-faulted `finish_cycle` (for the C02 monitor)
    pub prev_finish_cycle: bool,
    /// a mutator step or fault happened since the last Sleep -> Mark switch (C07 exactness)
    pub mutated_since_wake: bool,
    /// allocations made since the collector last woke (C09)
    pub allocs_since_wake: usize,
    pub total_at_wake: usize,
    pub marked_available: bool,
    pub pending_fault: bool,
    /// the rho-bound monitor applies to the running cycle: it woke inside a debt-driven call, and
    /// since then the pacing was not changed and no artificial debt was removed
    pub rho_valid: bool,
    /// strongly reachable objects at the moment the MarkedArena was handed out (finalize entry):
    /// `is_dead` is specified relative to that moment, not to later mutations inside the callback
    pub fin_reach: HashSet<u32>,
    pub fin_mutated: bool,
    /// objects revived by `resurrect` in the running cycle (cleared when the cycle ends): they and
    /// everything strongly reachable from them must not be destructed by this cycle's sweep (C07)
    pub resurrected: Vec<u32>,
    /// undestructed objects for which `is_dead` answered `false` in the running cycle (cleared when
    /// the cycle ends): marked objects stay marked, so this cycle's sweep must not destruct them (C07)
    pub said_alive: Vec<u32>,
    /// The collector went to sleep with nothing owed (see `observe`): it must stay asleep until
    /// more than `wake` allocations were made.  `(wake, allocations since)`
    pub sleep_win: Option<(f64, usize)>,
    /// allocations made while the running sweep was in progress (the sweep does not visit them, so
    /// they are not among the survivors it counts)
    pub allocs_in_sweep: usize,
    /// which monitor hypotheses were met by the last op (drained into the coverage table)
    pub notes: Vec<&'static str>,
}

impl Shadow {
    pub fn new(nroot: usize) -> Shadow {
        Shadow { root: vec![None; nroot], alive: true, ..Default::default() }
    }

    pub fn holds(&self, p: SP) -> bool {
        self.temps.contains(&p)
    }
    pub fn push(&mut self, p: SP) {
        if !self.holds(p) {
            self.temps.push(p);
        }
    }

    /// Objects strongly reachable from the root (through undestructed objects).
    pub fn reachable(&self) -> HashSet<u32> {
        let mut seen = HashSet::new();
        let mut stack: Vec<u32> = vec![];
        for s in &self.root {
            if let Some(SP::S(t)) = s {
                stack.push(*t);
            }
        }
        while let Some(i) = stack.pop() {
            if !seen.insert(i) {
                continue;
            }
            if let Some(o) = self.objs.get(i as usize) {
                if o.dropped == 0 {
                    for s in &o.slots {
                        if let Some(SP::S(t)) = s {
                            stack.push(*t);
                        }
                    }
                }
            }
        }
        seen
    }

    /// Objects strongly reachable from the given objects (through undestructed objects), the
    /// starting objects included.
    pub fn closure_from(&self, starts: &[u32]) -> HashSet<u32> {
        let mut seen = HashSet::new();
        let mut stack: Vec<u32> = starts.to_vec();
        while let Some(i) = stack.pop() {
            if !seen.insert(i) {
                continue;
            }
            if let Some(o) = self.objs.get(i as usize) {
                if o.dropped == 0 {
                    for s in &o.slots {
                        if let Some(SP::S(t)) = s {
                            stack.push(*t);
                        }
                    }
                }
            }
        }
        seen
    }

    /// Objects strongly reachable from the root or from what the running callback holds.
    pub fn accessible(&self) -> HashSet<u32> {
        let mut seen = self.reachable();
        let mut stack: Vec<u32> = self.temps.iter().filter_map(|p| if let SP::S(t) = p { Some(*t) } else { None }).collect();
        while let Some(i) = stack.pop() {
            if !seen.insert(i) {
                continue;
            }
            if let Some(o) = self.objs.get(i as usize) {
                if o.dropped == 0 {
                    for s in &o.slots {
                        if let Some(SP::S(t)) = s {
                            stack.push(*t);
                        }
                    }
                }
            }
        }
        seen
    }

    /// Targets of weak pointers held by the root or by strongly reachable objects.
    pub fn weakly_held(&self, reach: &HashSet<u32>) -> HashSet<u32> {
        let mut out = HashSet::new();
        for s in &self.root {
            if let Some(SP::W(t)) = s {
                out.insert(*t);
            }
        }
        for i in reach {
            if let Some(o) = self.objs.get(*i as usize) {
                if o.dropped == 0 {
                    for s in &o.slots {
                        if let Some(SP::W(t)) = s {
                            out.insert(*t);
                        }
                    }
                }
            }
        }
        out
    }

    /// A shortest path of reads from the root to object `target` (strong pointers only), as ops.
    pub fn path_to(&self, target: u32) -> Option<Vec<Op>> {
        let mut prev: HashMap<u32, Op> = HashMap::new();
        let mut from: HashMap<u32, Option<u32>> = HashMap::new();
        let mut queue = std::collections::VecDeque::new();
        for (i, s) in self.root.iter().enumerate() {
            if let Some(SP::S(t)) = s {
                if !from.contains_key(t) {
                    from.insert(*t, None);
                    prev.insert(*t, Op::ReadRoot(i));
                    queue.push_back(*t);
                }
            }
        }
        for p in &self.temps {
            if let SP::S(t) = p {
                if !from.contains_key(t) {
                    from.insert(*t, None);
                    queue.push_back(*t);
                }
            }
        }
        while let Some(i) = queue.pop_front() {
            if i == target {
                break;
            }
            let o = &self.objs[i as usize];
            if o.dropped > 0 {
                continue;
            }
            for (k, s) in o.slots.iter().enumerate() {
                if let Some(SP::S(t)) = s {
                    if !from.contains_key(t) {
                        from.insert(*t, Some(i));
                        prev.insert(*t, Op::Read(i, k));
                        queue.push_back(*t);
                    }
                }
            }
        }
        if !from.contains_key(&target) {
            return None;
        }
        let mut ops = vec![];
        let mut cur = target;
        loop {
            if let Some(op) = prev.get(&cur) {
                ops.push(op.clone());
            }
            match from.get(&cur) {
                Some(Some(p)) => cur = *p,
                _ => break,
            }
        }
        ops.reverse();
        Some(ops)
    }

    /// Apply the spec-level effect of an op (given what the implementation returned) and run the
    /// monitors.  Called after every executed op.
    pub fn observe(&mut self, op: &Op, obs: &Observed, out: &mut Vec<Violation>) {
        let mut keyed: Vec<Violation> = vec![];
        let mut v = |property: &'static str, what: String| out.push(Violation { property, key: "", what });
        let in_cb = self.cb.is_some();
        let reach_before = self.reachable();
        let acc_before = if in_cb { self.accessible() } else { reach_before.clone() };

        for a in &obs.alloc_violations {
            let prop = if a.starts_with("layout") { "C17" } else { "C04" };
            v(prop, format!("allocator: {a}"));
        }
        if obs.foreign_events > 0 {
            v("C20", format!("{} destructor/release events of another arena during `{op}`", obs.foreign_events));
        }

        // ---- C07: what a resurrection protects for the rest of its cycle ----
        // (only when this op's events can only come from the sweep of that very cycle: at most one
        // sweep ran in the call)
        let sweeps_in_call = obs.steps.bytes().filter(|c| *c == b'S').count() + usize::from(obs.phase_before == CPhase::Sweeping);
        let protected: HashSet<u32> = if !self.resurrected.is_empty() && sweeps_in_call <= 1 && matches!(op, Op::Collect { .. }) {
            self.closure_from(&self.resurrected)
        } else {
            HashSet::new()
        };

        // ---- events: C01, C03, C04 ----
        let is_drop_arena = matches!(op, Op::DropArena);
        for (is_drop, id) in &obs.events {
            let Some(o) = self.objs.get_mut(*id as usize) else {
                v("C04", format!("event for unknown object {id}"));
                continue;
            };
            if *is_drop {
                o.dropped += 1;
                if o.dropped > 1 {
                    v("C04", format!("object {id} destructed {} times", o.dropped));
                }
                if o.freed > 0 {
                    v("C04", format!("object {id} destructed after its block was released"));
                }
            } else {
                o.freed += 1;
                if o.freed > 1 {
                    v("C04", format!("block of object {id} released {} times", o.freed));
                }
                if o.dropped == 0 {
                    v("C04", format!("block of object {id} released without destructing the value"));
                }
            }
            if !is_drop_arena && acc_before.contains(id) {
                let what = if *is_drop { "destructed" } else { "released" };
                v("C01", format!("object {id} {what} during `{op}` while strongly reachable"));
            }
            if *is_drop && sweeps_in_call <= 1 && matches!(op, Op::Collect { .. }) && self.said_alive.contains(id) {
                v("C07", format!("object {id} was destructed by the sweep of the very cycle in which is_dead reported it not dead"));
            }
            if *is_drop && protected.contains(id) {
                v("C07", format!("object {id} was destructed by the sweep of the cycle in which it (or an object it is strongly reachable from) was resurrected"));
            }
            if in_cb || matches!(op, Op::Enter(_) | Op::Leave { .. }) {
                v("C03", format!("object {id} destructed/released inside a callback (`{op}`)"));
            }
        }
        // destructed objects no longer hold pointers
        for (is_drop, id) in &obs.events {
            if *is_drop {
                if let Some(o) = self.objs.get_mut(*id as usize) {
                    for s in o.slots.iter_mut() {
                        *s = None;
                    }
                }
            }
        }

        // ---- C06 / C01: a Gray object is queued ----
        // Gray means "to be traced": every path that greys an object (tracing a pointer to it, a
        // backward barrier, resurrect, a trace that unwound) pushes it on `gray` or `gray_again`, and
        // popping blackens it at once; snapshots are taken between operations, never during a trace.
        for id in &obs.orphan_gray {
            let what = format!("`{op}` left object {id} gray in no queue: it will never be traced, and the sweep does not expect it");
            v("C06", what.clone());
            v("C01", what);
        }
        // ---- C09 / C20: a debt-driven call made in debt makes progress ----
        // (whatever else is going on on the thread: a callback of *another* arena may be running)
        if let Op::Collect { method, .. } = op {
            let debt_driven = matches!(method, Method::CollectDebt | Method::CycleDebt | Method::MarkDebt);
            // mark_debt while Sweeping has nothing to do: it stops before the sweep
            let idle_ok = *method == Method::MarkDebt && obs.phase_before == CPhase::Sweeping;
            if debt_driven && obs.debt_before > 0.0 && !idle_ok && !obs.ret.starts_with("panic") {
                if obs.foreign_callback {
                    self.notes.push("isolation|debt-driven call in debt while a callback of another arena runs");
                }
                if obs.steps == "-" {
                    let what = format!("{} made no progress although in debt ({}, phase {})", method.name(), obs.debt_before, obs.phase_before.name());
                    v("C09", what.clone());
                    if obs.foreign_callback {
                        v("C20", format!("{what} while a callback of another arena was running; standalone it does"));
                    }
                }
            }
        }
        // ---- C10: no credit counter outgrows the arena (theorem C10.counters_bounded) ----
        // marked, traced, remembered <= total_gc_count and dropped <= remembered + freed, in every
        // state of a live arena
        if !matches!(op, Op::DropArena) {
            let (mk, tr, rem, dr, fr) = obs.counters_after;
            if mk > obs.total_after || tr > obs.total_after || rem > obs.total_after || dr > rem + fr {
                v("C10", format!("credit counters outgrow the arena after `{op}`: marked={mk} traced={tr} remembered={rem} dropped={dr} freed={fr} with total_gc_count={} (marked, traced, remembered <= total; dropped <= remembered + freed)", obs.total_after));
            }
        }
        // ---- C10: count and debt ----
        if obs.total_after != obs.live_blocks {
            v("C10", format!("total_gc_count = {} but {} Gc blocks are allocated (after `{op}`)", obs.total_after, obs.live_blocks));
        }
        if !(obs.debt_after >= 0.0) || !obs.debt_after.is_finite() {
            v("C10", format!("allocation_debt = {} after `{op}`", obs.debt_after));
        }
        if obs.total_after == 0 && obs.debt_after != 0.0 {
            v("C10", format!("allocation_debt = {} with no allocations", obs.debt_after));
        }
        let forward_like = matches!(op, Op::Barrier(Barrier::Fb(..)) | Op::Barrier(Barrier::Fbw(..)) | Op::Resurrect(_));
        let mutator_op = in_cb || matches!(op, Op::Enter(_) | Op::Leave { .. });
        if mutator_op && obs.debt_after < obs.debt_before {
            let allowance = if forward_like { self.pacing.map(|p| p.mark.to_f64()).unwrap_or(0.125) } else { 0.0 };
            if obs.debt_before - obs.debt_after > allowance + 1e-9 {
                v("C10", format!("allocation_debt decreased {} -> {} by mutator op `{op}`", obs.debt_before, obs.debt_after));
            } else if forward_like && obs.debt_before - obs.debt_after > 1e-12 {
                // read literally, "never decreased by ... write barriers" fails here: the barrier marks
                // its child with the collector's own routine and is credited mark_factor for it
                keyed.push(Violation {
                    property: "C10",
                    key: "forward-like-barrier-pays-mark-credit",
                    what: format!("allocation_debt decreased {} -> {} by `{op}` (at most mark_factor per newly marked object)", obs.debt_before, obs.debt_after),
                });
            }
        }
        if let Op::Adjust(x) = op {
            if obs.debt_before > 0.0 && obs.debt_after > 0.0 {
                let want = obs.debt_before + x.to_f64();
                if (obs.debt_after - want).abs() > 1e-9 * want.abs().max(1.0) {
                    v("C10", format!("adjust_debt({x}) moved debt {} -> {} (expected {want})", obs.debt_before, obs.debt_after));
                }
            }
        }
        if obs.ret.starts_with("panic") && !self.pending_fault {
            let arith = obs.ret.contains("overflow") || obs.ret.contains("underflow");
            if mutator_op {
                v("C06", format!("unexpected panic in `{op}`: {}", obs.ret));
            }
            if arith || !mutator_op {
                v("C10", format!("unexpected panic in `{op}`: {}", obs.ret));
            }
            if !mutator_op && !arith {
                v("C08", format!("unexpected panic in `{op}`: {}", obs.ret));
            }
            if !mutator_op && obs.ret.contains("unexpected gray object in sweep list") {
                // the collector's own assertion: an object was left gray outside the queues (a
                // barrier path), and the sweep cannot reclaim it
                v("C06", format!("unexpected panic in `{op}`: {}", obs.ret));
                v("C02", format!("unexpected panic in `{op}`: {}", obs.ret));
            }
        }

        // ---- C08: phase protocol ----
        {
            use CPhase::*;
            let (b, a) = (obs.phase_before, obs.phase_after);
            if mutator_op || matches!(op, Op::Pacing(_) | Op::Adjust(_)) {
                let ok = a == b || (b == Marked && a == Marking);
                if !ok {
                    v("C08", format!("`{op}` changed the phase {} -> {}", b.name(), a.name()));
                }
            }
            if let Op::Collect { method, cont, fault } = op {
                let faulted = obs.ret == "panic";
                if fault.is_none() || !faulted {
                    let some = obs.ret == "some";
                    match method {
                        Method::MarkDebt | Method::FinishMarking => {
                            if b == Sweeping {
                                if some || a != Sweeping || !obs.steps.is_empty() && obs.steps != "-" {
                                    v("C08", format!("{} while Sweeping: ret={} phase {} steps={}", method.name(), obs.ret, a.name(), obs.steps));
                                }
                            }
                            if b == Marked && !(some && *cont == Cont::Sweep) {
                                if a != Marked || (obs.steps != "-" && obs.steps != "b") {
                                    v("C08", format!("{} left Marked: phase {} steps={}", method.name(), a.name(), obs.steps));
                                }
                            }
                            if *method == Method::FinishMarking && some != (b != Sweeping) {
                                v("C08", format!("finish_marking from {} returned {}", b.name(), obs.ret));
                            }
                            if *cont != Cont::Sweep {
                                if some != (a == Marked) {
                                    v("C08", format!("{} returned {} but ended {}", method.name(), obs.ret, a.name()));
                                }
                                if b != Sweeping && !matches!(a, Marking | Marked | Sleeping) {
                                    v("C08", format!("{} from {} ended {}", method.name(), b.name(), a.name()));
                                }
                            } else if some && a != Sweeping {
                                v("C08", format!("start_sweeping ended {}", a.name()));
                            }
                        }
                        Method::CycleDebt | Method::FinishCycle => {
                            // never Sweeping -> new Marking within one call
                            if let Some(z) = obs.steps.find('Z') {
                                if obs.steps[z..].contains('W') {
                                    v("C08", format!("{} woke again after finishing a cycle: steps={}", method.name(), obs.steps));
                                }
                            }
                            if *method == Method::FinishCycle && a != Sleeping {
                                v("C08", format!("finish_cycle ended {}", a.name()));
                            }
                        }
                        Method::CollectDebt => {}
                    }
                    // sweeping begins only from a fully marked arena: an 'S' must follow a 'b'
                    let st = obs.steps.as_bytes();
                    for (i, ch) in st.iter().enumerate() {
                        if *ch == b'S' && (i == 0 || st[i - 1] != b'b') {
                            v("C08", format!("sweep started without a completed mark: steps={}", obs.steps));
                        }
                    }
                }
            }
        }

        // ---- C09 / C10: collection work pays debt, it never creates any ----
        // Every credit counter only grows during a call, the debits do not change, and the debt
        // carried over a finished cycle is what was left of it (non-negative work factors).  This
        // holds for calls that unwind out of a panicking `trace` too: the trace credit such a call
        // takes back (`DropGuard` -> `make_gray_again` -> `mark_gc_untraced`) is exactly the one it
        // was given for that object ("no metric update ever ... underflows", mechanism "trace credit
        // is taken back when an object is re-queued by ... a panicking trace").
        if let Op::Collect { method, .. } = op {
            if !obs.ret.starts_with("panic:") {
                let nonneg = self.pacing.map(|p| [p.sleep, p.mark, p.trace, p.keep, p.drop, p.free].iter().all(|d| d.num >= 0)).unwrap_or(true);
                if nonneg && obs.debt_after > obs.debt_before + 1e-9 * obs.debt_before.abs().max(1.0) {
                    let what = format!("{} increased allocation_debt {} -> {} (phase {} -> {}, steps={}, ret={})", method.name(), obs.debt_before, obs.debt_after,
                        obs.phase_before.name(), obs.phase_after.name(), obs.steps, obs.ret);
                    v("C09", what.clone());
                    v("C10", what);
                }
                // C10, the trace-credit counter itself: it is reset when a cycle ends ('Z'), goes up by
                // one for every object popped and traced ('g'), and a trace that panics leaves it where
                // it was (+1, then the take-back).  Nothing else inside a collection call touches it.
                let tail = match obs.steps.rfind('Z') {
                    Some(z) => &obs.steps[z + 1..],
                    None => obs.steps.as_str(),
                };
                let base = if obs.steps.contains('Z') { 0 } else { obs.traced_before };
                let g = tail.bytes().filter(|c| *c == b'g').count();
                let last_traced = obs.steps.bytes().rev().find(|c| *c == b'g' || *c == b'r');
                let taken_back = usize::from(obs.ret == "panic" && last_traced == Some(b'g'));
                let want = base + g - taken_back.min(g);
                if taken_back == 1 {
                    self.notes.push(if obs.traced_before > 0 || g > 1 { "trace-credit|faulted trace after other objects were traced" } else { "trace-credit|faulted trace, nothing traced before" });
                    if obs.debt_before > 0.0 && obs.debt_after > 0.0 {
                        self.notes.push("trace-credit|faulted trace observed with positive debt before and after");
                    }
                }
                if obs.traced_after != want {
                    v("C10", format!("trace credit counter: traced_gcs {} -> {} over `{op}` (steps={}, ret={}); {} objects were traced to completion since {}: expected {want}",
                        obs.traced_before, obs.traced_after, obs.steps, obs.ret, g - taken_back.min(g), if obs.steps.contains('Z') { "the cycle began" } else { "the call began" }));
                }
                // C11 / C08: the phase a collection call leaves behind is the one its micro-steps led to
                // ('W' -> Mark, 'S' -> Sweep, 'Z' -> Sleep; nothing else changes it) — also, and in
                // particular, when the call unwound out of a panicking trace: a fault can only happen
                // while marking, and the faulted object (or the root) is still to be traced
                {
                    let raw = obs.steps.bytes().rev().find(|c| matches!(c, b'W' | b'S' | b'Z'));
                    let faulted = obs.ret == "panic";
                    let ok = match raw {
                        Some(b'W') => matches!(obs.phase_after, CPhase::Marking | CPhase::Marked),
                        Some(b'S') => obs.phase_after == CPhase::Sweeping,
                        Some(_) => obs.phase_after == CPhase::Sleeping,
                        None => match obs.phase_before {
                            CPhase::Marking | CPhase::Marked => matches!(obs.phase_after, CPhase::Marking | CPhase::Marked),
                            x => obs.phase_after == x,
                        },
                    } && (!faulted || obs.phase_after == CPhase::Marking);
                    if !ok {
                        let what = format!("{} from {} with steps={} (ret={}) left the arena {}: not the phase its steps led to", method.name(), obs.phase_before.name(), obs.steps, obs.ret, obs.phase_after.name());
                        v(if faulted { "C11" } else { "C08" }, what);
                    }
                    if faulted {
                        self.notes.push(if obs.steps.contains('W') { "phase-after-unwind|the faulted call woke the collector itself" } else { "phase-after-unwind|the faulted call continued a running mark" });
                    }
                }
                // C09 / C08: once a call has passed through Sleep it performs at most one whole cycle —
                // the cycle it ran as a single atomic unit ends the call ("resets inherited debt after
                // an atomic full cycle"): after the first 'W' at most one 'Z', and it is the last step
                if let Some(wk) = obs.steps.find('W') {
                    let rest = &obs.steps[wk + 1..];
                    let zs = rest.bytes().filter(|c| *c == b'Z').count();
                    if zs > 1 || (zs == 1 && !rest.ends_with('Z')) {
                        let what = format!("{} kept collecting after the cycle it ran as an atomic unit had ended: steps={}", method.name(), obs.steps);
                        v("C09", what.clone());
                        v("C08", what);
                    }
                }
            }
        }

        // ---- C09: debt after debt-driven calls ----
        if let Op::Collect { method, fault: None, cont } = op {
            if obs.ret != "panic" {
                match method {
                    Method::CollectDebt => {
                        if obs.debt_after != 0.0 {
                            v("C09", format!("collect_debt returned with debt {}", obs.debt_after));
                        }
                    }
                    Method::CycleDebt => {
                        if obs.debt_after != 0.0 && obs.phase_after != CPhase::Sleeping {
                            v("C09", format!("cycle_debt returned with debt {} in phase {}", obs.debt_after, obs.phase_after.name()));
                        }
                    }
                    Method::MarkDebt => {
                        if *cont != Cont::Sweep && obs.debt_after != 0.0 && obs.phase_after != CPhase::Marked && obs.phase_before != CPhase::Sweeping {
                            v("C09", format!("mark_debt returned with debt {} in phase {}", obs.debt_after, obs.phase_after.name()));
                        }
                    }
                    _ => {}
                }
                // asleep with no debt: no progress
                if obs.phase_before == CPhase::Sleeping && obs.debt_before == 0.0 && matches!(method, Method::CollectDebt | Method::CycleDebt | Method::MarkDebt) {
                    if obs.steps != "-" || !obs.events.is_empty() {
                        v("C09", format!("{} made progress while asleep with zero debt: steps={}", method.name(), obs.steps));
                    }
                }
                // stop-the-world
                if let Some(p) = self.pacing {
                    let zero = [p.mark, p.trace, p.keep, p.drop, p.free].iter().all(|d| d.num == 0);
                    if zero && obs.debt_before > 0.0 && matches!(method, Method::CollectDebt | Method::CycleDebt) && obs.phase_after != CPhase::Sleeping {
                        let what = format!("{} with zero work factors and debt {} returned in phase {} (total_gc_count = {})", method.name(), obs.debt_before, obs.phase_after.name(), obs.total_after);
                        v("C09", what);
                    }
                }
            }
        }

        // ---- spec-level effect of the op ----
        let was_finish_cycle = self.prev_finish_cycle;
        self.prev_finish_cycle = false;
        let marked_was = self.marked_available;
        self.marked_available = false;
        match op {
            Op::New(_) | Op::Pacing(_) | Op::Adjust(_) => {
                if let Op::Pacing(p) = op {
                    self.pacing = Some(*p);
                    self.rho_valid = false;
                }
                if let Op::Adjust(x) = op {
                    if x.num < 0 {
                        self.rho_valid = false;
                    }
                }
                self.prev_finish_cycle = was_finish_cycle && !matches!(op, Op::New(_));
            }
            Op::Collect { method, cont, fault } => {
                let faulted = obs.ret == "panic";
                if faulted {
                    self.mutated_since_wake = true;
                }
                if obs.steps.contains('W') {
                    // (conservative: a wake inside this call resets the exactness window only if
                    // nothing after it mutated, which is the case inside one collection call)
                    self.mutated_since_wake = faulted;
                    self.allocs_since_wake = 0;
                    self.total_at_wake = obs.total_before;
                    // woken by debt (a PayDebt method) at the very start of this call
                    self.rho_valid = matches!(method, Method::CollectDebt | Method::CycleDebt | Method::MarkDebt)
                        && obs.steps.starts_with('W') && obs.debt_before > 0.0 && !faulted;
                }
                if faulted {
                    self.rho_valid = false;
                }
                // C09 rho-bound: a cycle that woke with H allocations is still unfinished after a
                // cycle_debt call only if fewer than rho*H/(1-rho) allocations were made since
                if *method == Method::CycleDebt && !faulted && self.rho_valid && obs.phase_after != CPhase::Sleeping && !obs.steps.contains('Z') {
                    if let Some(p) = self.pacing {
                        let f = |d: Dy| d.to_f64();
                        let rho = (f(p.mark) + f(p.trace) + f(p.keep)).max(f(p.drop) + f(p.free)).max(f(p.mark) + f(p.drop) + f(p.keep));
                        if rho < 1.0 {
                            let bound = rho * self.total_at_wake as f64 / (1.0 - rho);
                            if (self.allocs_since_wake as f64) >= bound + 1e-9 && self.total_at_wake > 0 {
                                v("C09", format!("cycle woke with H = {} allocations, rho = {rho}: still unfinished ({}) after cycle_debt although {} allocations were made since (bound rho*H/(1-rho) = {bound})", self.total_at_wake, obs.phase_after.name(), self.allocs_since_wake));
                            }
                        }
                    }
                }
                if obs.ret == "some" && *cont == Cont::Finalize {
                    self.marked_available = true;
                }
                if *method == Method::FinishCycle && fault.is_none() && !faulted {
                    self.prev_finish_cycle = true;
                    if was_finish_cycle {
                        // C02: two consecutive finish_cycle calls, no mutation in between.
                        let reach = self.reachable();
                        let weak = self.weakly_held(&reach);
                        let mut shells = 0usize;
                        for (i, o) in self.objs.iter().enumerate() {
                            let i = i as u32;
                            if reach.contains(&i) {
                                if o.dropped > 0 {
                                    v("C02", format!("reachable object {i} destructed"));
                                }
                            } else {
                                if o.dropped == 0 {
                                    v("C02", format!("unreachable object {i} not destructed after finish_cycle x2"));
                                }
                                if o.freed == 0 {
                                    if weak.contains(&i) {
                                        shells += 1;
                                    } else {
                                        v("C02", format!("block of unreachable, not weakly held object {i} retained after finish_cycle x2"));
                                    }
                                }
                            }
                        }
                        if obs.total_after != reach.len() + shells {
                            v("C02", format!("total_gc_count = {} but |reachable| + |weakly held shells| = {} + {}", obs.total_after, reach.len(), shells));
                        }
                    }
                }
            }
            Op::Enter(k) => {
                if obs.ret == "ok" {
                    self.cb = Some(*k);
                    if *k == Cb::Finalize {
                        self.fin_reach = reach_before.clone();
                        self.fin_mutated = self.mutated_since_wake;
                    }
                    if *k == Cb::Finalize && !marked_was {
                        v("C07", "finalize entered without a MarkedArena".into());
                    }
                }
            }
            Op::Leave { .. } => {
                self.cb = None;
                self.temps.clear();
            }
            Op::Alloc { kind, slots } => {
                let id = self.objs.len() as u32;
                let slots = match kind {
                    Kind::Leaf | Kind::LeafCell => vec![],
                    Kind::OnceCell => vec![None],
                    _ => slots.clone(),
                };
                self.objs.push(SObj { kind: *kind, leaf: matches!(kind, Kind::Leaf | Kind::LeafCell), slots, dropped: 0, freed: 0 });
                self.push(SP::S(id));
                self.allocs_since_wake += 1;
                self.mutated_since_wake = true;
                if obs.ret != id.to_string() {
                    v("C01", format!("allocation returned `{}`, expected id {id}", obs.ret));
                }
            }
            Op::ReadRoot(i) => {
                let want = self.root.get(*i).cloned().flatten();
                if obs.ret != show_slot(&want) {
                    v("C01", format!("root slot {i} reads `{}`, stored `{}`", obs.ret, show_slot(&want)));
                }
                if let Some(p) = want {
                    self.push(p);
                }
            }
            Op::Read(p, i) => {
                let want = self.objs.get(*p as usize).and_then(|o| o.slots.get(*i).cloned()).flatten();
                if obs.ret != show_slot(&want) {
                    v("C01", format!("slot {i} of object {p} reads `{}`, stored `{}`", obs.ret, show_slot(&want)));
                }
                if let Some(q) = want {
                    self.push(q);
                }
            }
            Op::Downgrade(p) => self.push(SP::W(*p)),
            Op::Upgrade(w) => {
                let o = &self.objs[*w as usize];
                let some = obs.ret == "some";
                if some && o.dropped > 0 {
                    v("C05", format!("upgrade of destructed object {w} succeeded"));
                }
                if !some && o.dropped == 0 {
                    if acc_before.contains(w) {
                        v("C05", format!("upgrade of strongly reachable object {w} failed"));
                    }
                    if obs.phase_before != CPhase::Sweeping {
                        v("C05", format!("upgrade of undestructed object {w} failed in phase {}", obs.phase_before.name()));
                    }
                }
                if obs.ret.starts_with("bad-read") {
                    v("C05", format!("upgrade of {w} returned a pointer to a different/invalid value: {}", obs.ret));
                }
                if some {
                    self.push(SP::S(*w));
                }
            }
            Op::IsDropped(w) => {
                let o = &self.objs[*w as usize];
                if (obs.ret == "true") != (o.dropped > 0) {
                    v("C05", format!("is_dropped({w}) = {} but destructor ran {} times", obs.ret, o.dropped));
                }
                if o.freed > 0 {
                    v("C05", format!("weak query on released block {w}"));
                }
            }
            Op::IsDead(p) => {
                let id = p.id();
                let dead = obs.ret == "true";
                if dead && self.fin_reach.contains(&id) && reach_before.contains(&id) {
                    v("C07", format!("is_dead({p}) = true for an object that was strongly reachable when the MarkedArena was handed out"));
                }
                if !self.fin_mutated && !self.mutated_since_wake && !dead && !self.fin_reach.contains(&id) && (id as usize) < self.objs.len() {
                    v("C07", format!("is_dead({p}) = false for an unreachable object with no mutation since marking began"));
                }
                if !self.fin_mutated && !self.mutated_since_wake && (id as usize) < self.objs.len() {
                    self.notes.push(match (p, self.fin_reach.contains(&id), self.objs[id as usize].dropped > 0) {
                        (_, true, _) => "is-dead-exact|reachable object",
                        (_, false, true) => "is-dead-exact|destructed shell",
                        (SP::S(_), false, false) => "is-dead-exact|unreachable, undestructed, strong pointer",
                        (SP::W(_), false, false) => "is-dead-exact|unreachable, undestructed, weak pointer",
                    });
                }
                if obs.ret == "false" && self.objs.get(id as usize).is_some_and(|o| o.dropped == 0) && !self.said_alive.contains(&id) {
                    self.said_alive.push(id);
                }
            }
            Op::Resurrect(p) => {
                let was_mutated = self.mutated_since_wake;
                self.mutated_since_wake = true;
                if let SP::W(t) = p {
                    let o = &self.objs[*t as usize];
                    if (obs.ret == "none") != (o.dropped > 0) {
                        v("C07", format!("resurrect({p}) returned {} but destructor ran {} times", obs.ret, o.dropped));
                    }
                    if obs.ret == "some" {
                        self.push(SP::S(*t));
                    }
                }
                let t = match p {
                    SP::S(t) | SP::W(t) => *t,
                };
                if obs.ret != "none" && !obs.ret.starts_with("skip") && !obs.ret.starts_with("panic") {
                    if let Some(o) = self.objs.get(t as usize) {
                        if o.dropped == 0 {
                            // reviving a *dead* object (pointer-free or not: `Context::resurrect` queues
                            // every unmarked target) must make the arena report Marking.  Dead is known exactly when nothing mutated since this cycle's
                            // marking began: then unreachable objects are precisely the unmarked ones.
                            if obs.phase_before == CPhase::Marked && !was_mutated && !reach_before.contains(&t) && obs.phase_after != CPhase::Marking {
                                v("C07", format!("resurrect({p}) of a dead object left the arena {}", obs.phase_after.name()));
                            }
                            if !self.resurrected.contains(&t) {
                                self.resurrected.push(t);
                            }
                        }
                    }
                }
            }
            Op::Barrier(_) => {
                self.mutated_since_wake = true;
            }
            Op::Store { path, p, i, v: val } => {
                self.mutated_since_wake = true;
                let occupied = match self.objs.get(*p as usize) {
                    Some(o) if o.kind == Kind::OnceCell => o.slots.first().copied().flatten(),
                    _ => None,
                };
                if let Some(cur) = occupied {
                    // `set` / `get_or_init` on an occupied OnceLock: nothing is stored, the call
                    // hands back what the cell holds
                    if obs.ret != cur.to_string() {
                        v("C06", format!("`{op}` on an occupied cell returned `{}`, the cell holds `{cur}`", obs.ret));
                    }
                    if obs.ret == "ok" {
                        v("C01", format!("`{op}` replaced the content `{cur}` of a OnceLock"));
                    }
                    self.push(cur);
                } else {
                    if obs.ret == "ok" {
                        if let Some(o) = self.objs.get_mut(*p as usize) {
                            if *i < o.slots.len() {
                                o.slots[*i] = *val;
                            }
                        }
                    } else if path.sanctioned() && !obs.ret.starts_with("panic") {
                        v("C06", format!("sanctioned setter `{op}` did not store: {}", obs.ret));
                    }
                }
            }
            Op::RootStore { i, v: val } => {
                self.mutated_since_wake = true;
                if obs.ret == "ok" && *i < self.root.len() {
                    self.root[*i] = *val;
                }
            }
            Op::DropArena => {
                self.alive = false;
                for (i, o) in self.objs.iter().enumerate() {
                    if o.dropped != 1 {
                        v("C04", format!("after arena drop object {i} was destructed {} times", o.dropped));
                    }
                    if o.freed != 1 {
                        v("C04", format!("after arena drop block of object {i} was released {} times", o.freed));
                    }
                }
                if obs.total_after != 0 {
                    v("C10", format!("total_gc_count = {} after arena drop", obs.total_after));
                }
                if obs.live_blocks != 0 {
                    v("C04", format!("{} Gc blocks outstanding after arena drop", obs.live_blocks));
                }
            }
            Op::Marker => {}
        }
        if obs.steps.contains('Z') || obs.phase_after == CPhase::Sleeping || matches!(op, Op::DropArena) {
            self.resurrected.clear();
            self.said_alive.clear();
        }

        // ---- C09: sleep is honoured ----
        // "After a cycle that finished with no debt carried over, the collector stays asleep, making
        // no progress and reporting zero debt, until allocations since then exceed
        // max(min_sleep, sleep_factor x survivors), and reports positive debt once they do."
        // Judged from the implementation's observations alone (steps, phase, debt, counts); the
        // hypotheses mirror C09.sleep_schedule / sleep_honoured / stays_asleep: no debt was carried
        // over because the cycle was atomic (the call passed through Sleep before it: `has_slept`) or
        // because nothing was owed when the call began; no set_pacing / adjust_debt since.
        if matches!(op, Op::Alloc { .. }) && !obs.ret.contains('!') {
            if obs.phase_before == CPhase::Sweeping {
                self.allocs_in_sweep += 1;
            }
            if let Some(w) = &mut self.sleep_win {
                w.1 += 1;
            }
        }
        if let Some((wake, n)) = self.sleep_win {
            let few = (n as f64) <= wake;
            self.notes.push(match (op, few) {
                (Op::Collect { method: Method::CollectDebt | Method::CycleDebt | Method::MarkDebt, .. }, true) => "sleep-honoured|debt-driven call inside the sleep window",
                (Op::Collect { .. }, _) => "sleep-honoured|window closed by a collection call",
                (Op::Pacing(_) | Op::Adjust(_) | Op::DropArena | Op::New(_), _) => "sleep-honoured|window closed by set_pacing / adjust_debt / drop",
                (_, true) => "sleep-honoured|mutator op inside the sleep window (debt must be 0)",
                (_, false) => "sleep-honoured|mutator op past the wake-up amount (debt must be the excess)",
            });
            match op {
                Op::Pacing(_) | Op::Adjust(_) | Op::DropArena | Op::New(_) => self.sleep_win = None,
                Op::Collect { method, .. } => {
                    if few && matches!(method, Method::CollectDebt | Method::CycleDebt | Method::MarkDebt) {
                        if obs.steps != "-" || !obs.events.is_empty() || obs.phase_after != CPhase::Sleeping || obs.debt_after != 0.0 {
                            out.push(Violation { property: "C09", key: "", what: format!(
                                "sleep not honoured: {} made progress / reported debt after only {n} allocations since the collector went to sleep with nothing owed (it sleeps until more than max(min_sleep, sleep_factor x survivors) = {wake}): steps={} phase {} debt {}",
                                method.name(), obs.steps, obs.phase_after.name(), obs.debt_after) });
                            self.sleep_win = None;
                        }
                    } else {
                        // a forced call, or enough allocations were made: the collector may wake
                        self.sleep_win = None;
                    }
                }
                _ => {
                    if few {
                        if obs.debt_after != 0.0 {
                            out.push(Violation { property: "C09", key: "", what: format!(
                                "sleep not honoured: allocation_debt = {} after only {n} allocations since the collector went to sleep with nothing owed (zero until more than max(min_sleep, sleep_factor x survivors) = {wake})",
                                obs.debt_after) });
                            self.sleep_win = None;
                        }
                    } else if obs.total_after > 0 {
                        let want = n as f64 - wake;
                        if !(obs.debt_after > 0.0) || (obs.debt_after - want).abs() > 1e-9 * want.max(1.0) {
                            out.push(Violation { property: "C09", key: "", what: format!(
                                "sleep schedule: {n} allocations since the collector went to sleep with nothing owed exceed the wake-up amount {wake}, but allocation_debt = {} (expected the excess {want})",
                                obs.debt_after) });
                            self.sleep_win = None;
                        }
                    }
                }
            }
        }
        if let Op::Collect { .. } = op {
            if !obs.ret.starts_with("panic") && obs.steps.ends_with('Z') && obs.phase_after == CPhase::Sleeping {
                let z = obs.steps.len() - 1;
                let prev = obs.steps[..z].rfind('Z').map(|i| i + 1).unwrap_or(0);
                let atomic = obs.steps[..z].contains('W');
                let nonneg = self.pacing.map(|p| [p.sleep, p.mark, p.trace, p.keep, p.drop, p.free].iter().all(|d| d.num >= 0)).unwrap_or(true);
                let nothing_owed = obs.debt_before == 0.0 && nonneg;
                if atomic || nothing_owed {
                    // survivors = what the sweep that just ended kept: everything still allocated,
                    // except what was allocated while that sweep was under way
                    let sweep_in_call = obs.steps[prev..z].contains('S');
                    let survivors = obs.total_after.saturating_sub(if sweep_in_call { 0 } else { self.allocs_in_sweep });
                    let p = self.pacing.unwrap_or(crate::exec::P0);
                    let wake = (survivors as f64 * p.sleep.to_f64()).max(p.min_sleep as f64);
                    self.sleep_win = Some((wake, 0));
                    self.notes.push(if atomic { "sleep-honoured|window opened: atomic cycle" } else { "sleep-honoured|window opened: nothing owed" });
                    if obs.debt_after != 0.0 {
                        out.push(Violation { property: "C09", key: "", what: format!(
                            "a cycle that ended with nothing carried over went to sleep reporting allocation_debt = {} (steps={})", obs.debt_after, obs.steps) });
                        self.sleep_win = None;
                    }
                }
            }
            // a sweep began ('S') or ended ('Z') inside this call: what was allocated during an
            // earlier sweep no longer matters
            if obs.phase_after != CPhase::Sweeping || obs.steps.contains('S') || obs.steps.contains('Z') {
                self.allocs_in_sweep = 0;
            }
        }
        out.extend(keyed);
    }
}
