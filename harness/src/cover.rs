//! Coverage accounting: which (operation, collector state) combinations the run exercised.
//! Measured from the implementation's snapshots; printed into the evidence.

use std::collections::BTreeMap;

use gc_arena::verif::Snapshot;

use crate::op::*;
use crate::shadow::Observed;

#[derive(Default, Clone)]
pub struct Coverage {
    pub cells: BTreeMap<String, u64>,
    /// per-sequence: phases seen, collector steps between callbacks
    pub seq_phases: std::collections::BTreeSet<&'static str>,
    pub seq_collects_with_work: u64,
    pub seq_callbacks: u64,
}

fn op_kind(op: &Op) -> String {
    match op {
        Op::New(_) => "new".into(),
        Op::Pacing(_) => "pacing".into(),
        Op::Adjust(_) => "adjust".into(),
        Op::Collect { method, cont, fault } => format!(
            "collect:{}{}{}",
            method.name(),
            match cont {
                Cont::Drop => "",
                Cont::Finalize => "+finalize",
                Cont::Sweep => "+sweep",
            },
            if fault.is_some() { "+fault" } else { "" }
        ),
        Op::Enter(k) => format!("enter:{}", k.name()),
        Op::Leave { panic } => if *panic { "leave:panic".into() } else { "leave".into() },
        Op::Alloc { kind, .. } => format!("alloc:{}", kind.name()),
        Op::ReadRoot(_) => "readroot".into(),
        Op::Read(..) => "read".into(),
        Op::Downgrade(_) => "downgrade".into(),
        Op::Upgrade(_) => "upgrade".into(),
        Op::IsDropped(_) => "isdropped".into(),
        Op::IsDead(_) => "isdead".into(),
        Op::Resurrect(_) => "resurrect".into(),
        Op::Barrier(Barrier::Bb(_, None)) => "barrier:bb(p,-)".into(),
        Op::Barrier(Barrier::Bb(_, Some(_))) => "barrier:bb(p,c)".into(),
        Op::Barrier(Barrier::Bbw(..)) => "barrier:bbw(p,c)".into(),
        Op::Barrier(Barrier::Fb(None, _)) => "barrier:fb(-,c)".into(),
        Op::Barrier(Barrier::Fb(Some(_), _)) => "barrier:fb(p,c)".into(),
        Op::Barrier(Barrier::Fbw(None, _)) => "barrier:fbw(-,c)".into(),
        Op::Barrier(Barrier::Fbw(Some(_), _)) => "barrier:fbw(p,c)".into(),
        Op::Barrier(Barrier::CellSet(_)) => "barrier:cellset(p)".into(),
        Op::Store { path, v, .. } => format!(
            "store:{}:{}",
            path.name(),
            match v {
                None => "none",
                Some(SP::S(_)) => "strong",
                Some(SP::W(_)) => "weak",
            }
        ),
        Op::RootStore { v, .. } => format!(
            "rootstore:{}",
            match v {
                None => "none",
                Some(SP::S(_)) => "strong",
                Some(SP::W(_)) => "weak",
            }
        ),
        Op::DropArena => "drop".into(),
        Op::Marker => "marker".into(),
    }
}

impl Coverage {
    pub fn bump(&mut self, key: String) {
        *self.cells.entry(key).or_insert(0) += 1;
    }

    pub fn record(&mut self, op: &Op, obs: &Observed, _snap_after: &Snapshot, before: &std::collections::HashMap<u32, (u8, bool, bool)>, phase_before: u8, holder: Option<Kind>) {
        let col = |i: u32| before.get(&i).map(|c| (c.0 as char).to_string()).unwrap_or_else(|| "new".into());
        let ph = phase_before as char;
        let kind = op_kind(op);
        self.bump(format!("op×phase|{}|{}", kind, obs.phase_before.name()));
        self.seq_phases.insert(obs.phase_before.name());
        self.seq_phases.insert(obs.phase_after.name());
        match op {
            Op::Collect { .. } => {
                let debt = if obs.debt_before == 0.0 {
                    "zero"
                } else if obs.debt_before < 4.0 {
                    "small"
                } else {
                    "large"
                };
                self.bump(format!("collect×phase×debt|{}|{}|{}|->{}", kind, obs.phase_before.name(), debt, obs.phase_after.name()));
                if obs.steps != "-" && obs.steps != "b" {
                    self.seq_collects_with_work += 1;
                }
            }
            Op::Upgrade(_) | Op::IsDropped(_) | Op::IsDead(_) | Op::Resurrect(_) => {
                self.bump(format!("query×phase×result|{}|{}|{}", kind, obs.phase_before.name(), obs.ret));
            }
            Op::Enter(_) => self.seq_callbacks += 1,
            Op::Barrier(b) => {
                let (p, c) = match b {
                    Barrier::Bb(p, c) => (Some(*p), *c),
                    Barrier::Bbw(p, c) => (Some(*p), Some(*c)),
                    Barrier::Fb(p, c) => (*p, Some(*c)),
                    Barrier::Fbw(p, c) => (*p, Some(*c)),
                    Barrier::CellSet(p) => (Some(*p), None),
                };
                self.bump(format!("barrier×phase×parent×child|{}|{}|{}|{}", kind, ph, p.map(col).unwrap_or("-".into()), c.map(col).unwrap_or("-".into())));
            }
            Op::Store { path, p, v, .. } => {
                self.bump(format!("store×phase×parent×child|{}|{}|{}|{}", kind, ph, col(*p), v.map(|x| col(x.id())).unwrap_or("-".into())));
                // the same, per holder kind and outcome (the lock-valued kinds and their own setters)
                let outcome = if obs.ret == "ok" { "stored" } else if obs.ret.starts_with("panic") { "panic" } else { "occupied" };
                let child = match v {
                    None => "-".to_string(),
                    Some(SP::S(x)) => format!("s:{}", col(*x)),
                    Some(SP::W(x)) => format!("w:{}", col(*x)),
                };
                // (a successful get_or_init is counted by the executor, in its barrier phase)
                if !(*path == Path::GetOrInit && outcome == "stored") {
                if let Some(k) = holder.filter(|k| *k != Kind::Node) {
                    self.lock_setter(*path, k, outcome, ph, &col(*p), v);
                }
                self.bump(format!(
                    "setter×holder×phase×parent×child|{}|{}|{}|{}|{}|{}",
                    path.name(),
                    holder.map(|k| k.name()).unwrap_or("?"),
                    outcome,
                    ph,
                    col(*p),
                    child
                ));
                }
            }
            Op::Read(..) => {
                if let Some(k) = holder {
                    self.bump(format!("read×holder|{}|{}", k.name(), if obs.ret == "none" { "none" } else if obs.ret.starts_with('w') { "weak" } else { "strong" }));
                }
            }
            _ => {}
        }
    }

    /// Coarse cell of a store into an object whose whole value is a lock: route × holder kind ×
    /// outcome × phase × holder colour × child class (sorts first in the evidence table).
    pub fn lock_setter(&mut self, path: Path, holder: Kind, outcome: &str, ph: char, parent_col: &str, v: &SSlot) {
        let child = match v {
            None => "none",
            Some(SP::S(_)) => "strong",
            Some(SP::W(_)) => "weak",
        };
        if matches!(path, Path::Write | Path::Raw | Path::Stb) {
            return; // the generic routes: see the `setter×…` / `store×…` families
        }
        self.bump(format!("LockSetter|{}|{}|{}|{}|{}|{}", path.name(), holder.name(), outcome, ph, parent_col, child));
    }

    pub fn end_sequence(&mut self) -> bool {
        let nontrivial = self.seq_phases.len() >= 2 && self.seq_collects_with_work >= 1 && self.seq_callbacks >= 2;
        self.seq_phases.clear();
        self.seq_collects_with_work = 0;
        self.seq_callbacks = 0;
        nontrivial
    }
}
