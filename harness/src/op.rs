//! Operations of the line protocol (text form shared with the Lean driver).

use std::fmt;

#[derive(Clone, Copy, Debug, PartialEq, Eq, Hash)]
pub enum SP {
    S(u32),
    W(u32),
}
impl SP {
    pub fn id(self) -> u32 {
        match self {
            SP::S(i) | SP::W(i) => i,
        }
    }
}
pub type SSlot = Option<SP>;

impl fmt::Display for SP {
    fn fmt(&self, f: &mut fmt::Formatter<'_>) -> fmt::Result {
        match self {
            SP::S(i) => write!(f, "s{i}"),
            SP::W(i) => write!(f, "w{i}"),
        }
    }
}
pub fn show_slot(s: &SSlot) -> String {
    match s {
        None => "none".into(),
        Some(p) => p.to_string(),
    }
}
pub fn parse_sp(s: &str) -> Option<SP> {
    let (k, r) = s.split_at(1.min(s.len()));
    let n: u32 = r.parse().ok()?;
    match k {
        "s" => Some(SP::S(n)),
        "w" => Some(SP::W(n)),
        _ => None,
    }
}
pub fn parse_slot(s: &str) -> Option<SSlot> {
    if s == "none" { Some(None) } else { parse_sp(s).map(Some) }
}

/// Exact rational num / (2^shift * den), `den` odd (1 for the dyadic values used wherever the
/// model's exact arithmetic must agree with f64 bit for bit; other values only in the `decimal`
/// profile, whose debt comparison is tolerant).
#[derive(Clone, Copy, Debug, PartialEq, Eq, Hash)]
pub struct Dy {
    pub num: i64,
    pub shift: u32,
    pub den: u32,
}
impl Dy {
    pub fn new(num: i64, shift: u32) -> Dy {
        let mut d = Dy { num, shift, den: 1 };
        while d.shift > 0 && d.num % 2 == 0 {
            d.num /= 2;
            d.shift -= 1;
        }
        d
    }
    /// num / den for any positive denominator
    pub fn ratio(num: i64, den: u64) -> Dy {
        let shift = den.trailing_zeros();
        let odd = (den >> shift) as u32;
        let mut d = Dy { num, shift, den: odd.max(1) };
        while d.shift > 0 && d.num % 2 == 0 {
            d.num /= 2;
            d.shift -= 1;
        }
        d
    }
    pub fn int(n: i64) -> Dy {
        Dy { num: n, shift: 0, den: 1 }
    }
    pub fn is_dyadic(self) -> bool {
        self.den == 1
    }
    pub fn to_f64(self) -> f64 {
        self.num as f64 / ((1u64 << self.shift) * self.den as u64) as f64
    }
}
impl fmt::Display for Dy {
    fn fmt(&self, f: &mut fmt::Formatter<'_>) -> fmt::Result {
        if self.shift == 0 && self.den == 1 { write!(f, "{}", self.num) } else { write!(f, "{}/{}", self.num, (1u64 << self.shift) * self.den as u64) }
    }
}
pub fn parse_dy(s: &str) -> Option<Dy> {
    match s.split_once('/') {
        None => Some(Dy::int(s.parse().ok()?)),
        Some((n, d)) => {
            let n: i64 = n.parse().ok()?;
            let d: u64 = d.parse().ok()?;
            if d == 0 {
                return None;
            }
            Some(Dy::ratio(n, d))
        }
    }
}

/// Exact text of an f64 as a reduced rational (every finite f64 is dyadic).
pub fn show_f64(x: f64) -> String {
    if !x.is_finite() {
        return format!("~{x}");
    }
    if x == 0.0 {
        return "0".into();
    }
    let bits = x.to_bits();
    let sign = if bits >> 63 == 1 { -1i128 } else { 1 };
    let exp = ((bits >> 52) & 0x7ff) as i32;
    let frac = bits & ((1u64 << 52) - 1);
    let (mut mant, mut e) = if exp == 0 { (frac as i128, -1074) } else { ((frac | (1 << 52)) as i128, exp - 1075) };
    while mant % 2 == 0 && e < 0 {
        mant /= 2;
        e += 1;
    }
    if e >= 0 {
        if e > 60 {
            return format!("~{x}");
        }
        format!("{}", sign * (mant << e))
    } else {
        if -e > 120 {
            return format!("~{x}");
        }
        format!("{}/{}", sign * mant, 1u128 << (-e))
    }
}

#[derive(Clone, Copy, Debug, PartialEq, Eq, Hash)]
pub struct PacingSpec {
    pub sleep: Dy,
    pub min_sleep: usize,
    pub mark: Dy,
    pub trace: Dy,
    pub keep: Dy,
    pub drop: Dy,
    pub free: Dy,
}

#[derive(Clone, Copy, Debug, PartialEq, Eq, Hash)]
pub enum Method {
    CollectDebt,
    MarkDebt,
    FinishMarking,
    CycleDebt,
    FinishCycle,
}
impl Method {
    pub const ALL: [Method; 5] =
        [Method::CollectDebt, Method::MarkDebt, Method::FinishMarking, Method::CycleDebt, Method::FinishCycle];
    pub fn name(self) -> &'static str {
        match self {
            Method::CollectDebt => "collect_debt",
            Method::MarkDebt => "mark_debt",
            Method::FinishMarking => "finish_marking",
            Method::CycleDebt => "cycle_debt",
            Method::FinishCycle => "finish_cycle",
        }
    }
    pub fn returns_marked(self) -> bool {
        matches!(self, Method::MarkDebt | Method::FinishMarking)
    }
}

#[derive(Clone, Copy, Debug, PartialEq, Eq, Hash)]
pub enum Cont {
    Drop,
    Finalize,
    Sweep,
}

#[derive(Clone, Copy, Debug, PartialEq, Eq, Hash)]
pub enum Cb {
    Mutate,
    MutateRoot,
    Finalize,
    /// `Arena::map_root` (same root type): `root_barrier()` + a callback that owns the root
    MapRoot,
    /// `Arena::try_map_root` returning `Ok(root)`
    TryMapRootOk,
    /// `Arena::try_map_root` returning `Err(())`: the arena is consumed and dropped
    TryMapRootErr,
    /// the constructor callback of `Arena::new`
    NewCtor,
    /// the constructor callback of `Arena::try_new`, returning `Ok(root)`
    TryNewOk,
    /// … returning `Err(())`: everything allocated so far is released
    TryNewErr,
    /// the callback of `arena::rootless_mutate`: a throw-away arena without a root (`new 0`),
    /// dropped when the call returns
    Rootless,
}

impl Cb {
    pub const ALL_NAMES: [(&'static str, Cb); 10] = [
        ("mutate", Cb::Mutate),
        ("mutate_root", Cb::MutateRoot),
        ("finalize", Cb::Finalize),
        ("map_root", Cb::MapRoot),
        ("try_map_root_ok", Cb::TryMapRootOk),
        ("try_map_root_err", Cb::TryMapRootErr),
        ("new_ctor", Cb::NewCtor),
        ("try_new_ok", Cb::TryNewOk),
        ("try_new_err", Cb::TryNewErr),
        ("rootless_mutate", Cb::Rootless),
    ];
    pub fn name(self) -> &'static str {
        Cb::ALL_NAMES.iter().find(|(_, k)| *k == self).map(|(n, _)| *n).unwrap()
    }
    /// the callback may replace what the root holds
    pub fn root_mut(self) -> bool {
        !matches!(self, Cb::Mutate | Cb::Finalize | Cb::Rootless)
    }
    /// the callback has a root at all
    pub fn has_root(self) -> bool {
        self != Cb::Rootless
    }
    pub fn is_ctor(self) -> bool {
        matches!(self, Cb::NewCtor | Cb::TryNewOk | Cb::TryNewErr)
    }
    pub fn is_map(self) -> bool {
        matches!(self, Cb::MapRoot | Cb::TryMapRootOk | Cb::TryMapRootErr)
    }
    /// the API call fails when the callback leaves normally: the arena is dropped
    pub fn fails(self) -> bool {
        matches!(self, Cb::TryMapRootErr | Cb::TryNewErr)
    }
}

#[derive(Clone, Copy, Debug, PartialEq, Eq, Hash)]
pub enum Barrier {
    Bb(u32, Option<u32>),
    Bbw(u32, u32),
    Fb(Option<u32>, u32),
    Fbw(Option<u32>, u32),
    /// `Gc<RefLock<CellBody>>::borrow_mut(mc)` on a `leafcell` + a write of its plain value
    CellSet(u32),
}

/// The route by which a slot of an allocated object is written.  `Write` / `Raw` / `Stb` exist for
/// every slot-bearing kind but `OnceCell` (which takes `Raw` only); the others are the crate's own
/// safe setters of an object whose whole value is a lock (`Gc<Lock<T>>`, `Gc<RefLock<T>>`,
/// `Gc<OnceLock<T>>`).
#[derive(Clone, Copy, Debug, PartialEq, Eq, Hash)]
pub enum Path {
    /// `Gc::write(mc, g)` + `field!` / `unlock()` + the cell's own setter
    Write,
    /// unsafe `as_cell` / `as_ref_cell` / `as_once_cell` write, barrier placed by an earlier op
    Raw,
    /// unsafe write, then `backward_barrier(g, None)`
    Stb,
    /// `Gc<Lock<T>>::set(mc, v)`
    LockSet,
    /// `Gc<RefLock<T>>::borrow_mut(mc)`
    BorrowMut,
    /// `Gc<RefLock<T>>::try_borrow_mut(mc)`
    TryBorrowMut,
    /// `Gc::unlock(g, mc)` + the cell's own setter (`Cell::set` / `RefCell::borrow_mut`)
    Unlock,
    /// `Gc<OnceLock<T>>::set(mc, v)`; on an occupied cell nothing is stored (protocol word
    /// `onceset-full`, a read for the model)
    OnceSet,
    /// `Gc<OnceLock<T>>::get_or_init(mc, || v)`: barrier, then the closure (which allocates the
    /// child when `v` names the next fresh id), then the store; on an occupied cell a read
    /// (`getorinit-full`)
    GetOrInit,
}

impl Path {
    pub const ALL: [Path; 9] =
        [Path::Write, Path::Raw, Path::Stb, Path::LockSet, Path::BorrowMut, Path::TryBorrowMut, Path::Unlock, Path::OnceSet, Path::GetOrInit];
    pub fn name(self) -> &'static str {
        match self {
            Path::Write => "write",
            Path::Raw => "raw",
            Path::Stb => "stb",
            Path::LockSet => "lockset",
            Path::BorrowMut => "borrowmut",
            Path::TryBorrowMut => "tryborrowmut",
            Path::Unlock => "unlock",
            Path::OnceSet => "onceset",
            Path::GetOrInit => "getorinit",
        }
    }
    /// the path issues its own barrier (everything but `Raw`)
    pub fn sanctioned(self) -> bool {
        self != Path::Raw
    }
}

/// Object kinds of the harness (src/node.rs).
#[derive(Clone, Copy, Debug, PartialEq, Eq, Hash)]
pub enum Kind {
    /// struct with 3 `RefLock<Option<P>>` fields
    Node,
    /// `NEEDS_TRACE = false`, no slots
    Leaf,
    /// `Gc<RefLock<RefBody>>`: the whole value is a `RefLock`, 3 slots
    RefNode,
    /// `Gc<Lock<LockBody>>`: the whole value is a `Lock`, 1 slot; `Copy`, hence no drop glue
    LockCell,
    /// `Gc<OnceLock<OnceBody>>`: the whole value is a `OnceLock`, 1 slot, allocated empty
    OnceCell,
    /// 3 slots held behind a `Box<dyn DynSlots<'gc>>` whose `Collect` impl comes from
    /// `dyn_collect!`: every pointer is traced through the `DynCollect` adapter
    DynNode,
    /// `Gc<RefLock<CellBody>>`: the whole value is a pointer-free lock (`NEEDS_TRACE = false`), no
    /// slots; written through `Gc<RefLock<T>>::borrow_mut` (`barrier cellset p`: for the collector a
    /// backward barrier on a non-tracing object)
    LeafCell,
}

impl Kind {
    pub const ALL: [Kind; 7] = [Kind::Node, Kind::Leaf, Kind::RefNode, Kind::LockCell, Kind::OnceCell, Kind::DynNode, Kind::LeafCell];
    pub fn name(self) -> &'static str {
        match self {
            Kind::Node => "node",
            Kind::Leaf => "leaf",
            Kind::RefNode => "refnode",
            Kind::LockCell => "lockcell",
            Kind::OnceCell => "oncecell",
            Kind::DynNode => "dynnode",
            Kind::LeafCell => "leafcell",
        }
    }
    pub fn of_leaf(leaf: bool) -> Kind {
        if leaf { Kind::Leaf } else { Kind::Node }
    }
    pub fn nslots(self) -> usize {
        match self {
            Kind::Node | Kind::RefNode | Kind::DynNode => 3,
            Kind::Leaf | Kind::LeafCell => 0,
            Kind::LockCell | Kind::OnceCell => 1,
        }
    }
    /// number of slot words an `alloc` of this kind takes (a `OnceCell` is allocated empty)
    pub fn alloc_args(self) -> usize {
        match self {
            Kind::OnceCell => 0,
            k => k.nslots(),
        }
    }
    /// the value type has no drop glue: its destructor run is not observable (the `live` flag of
    /// the snapshot still is)
    pub fn nodrop(self) -> bool {
        matches!(self, Kind::LockCell | Kind::OnceCell)
    }
    pub fn paths(self) -> &'static [Path] {
        match self {
            Kind::Node | Kind::DynNode => &[Path::Write, Path::Raw, Path::Stb],
            Kind::Leaf | Kind::LeafCell => &[],
            Kind::RefNode => &[Path::Write, Path::Raw, Path::Stb, Path::BorrowMut, Path::TryBorrowMut, Path::Unlock],
            Kind::LockCell => &[Path::Write, Path::Raw, Path::Stb, Path::LockSet, Path::Unlock],
            Kind::OnceCell => &[Path::Raw, Path::OnceSet, Path::GetOrInit],
        }
    }
}

#[derive(Clone, Debug, PartialEq, Eq, Hash)]
pub enum Op {
    New(usize),
    Pacing(PacingSpec),
    Adjust(Dy),
    Collect { method: Method, cont: Cont, fault: Option<(usize, usize)> },
    Enter(Cb),
    Leave { panic: bool },
    Alloc { kind: Kind, slots: Vec<SSlot> },
    ReadRoot(usize),
    Read(u32, usize),
    Downgrade(u32),
    Upgrade(u32),
    IsDropped(u32),
    IsDead(SP),
    Resurrect(SP),
    Barrier(Barrier),
    Store { path: Path, p: u32, i: usize, v: SSlot },
    RootStore { i: usize, v: SSlot },
    DropArena,
    /// A protocol line that the executor writes by itself while executing the op that follows it in
    /// the trace (the barrier / allocation phases of `store getorinit`); ignored when replayed.
    Marker,
}

fn opt(o: &Option<u32>) -> String {
    match o {
        None => "-".into(),
        Some(x) => x.to_string(),
    }
}

impl fmt::Display for Op {
    fn fmt(&self, f: &mut fmt::Formatter<'_>) -> fmt::Result {
        match self {
            Op::New(n) => write!(f, "new {n}"),
            Op::Pacing(p) => write!(
                f,
                "pacing {} {} {} {} {} {} {}",
                p.sleep, p.min_sleep, p.mark, p.trace, p.keep, p.drop, p.free
            ),
            Op::Adjust(x) => write!(f, "adjust {x}"),
            Op::Collect { method, cont, fault } => {
                let c = match cont {
                    Cont::Drop => "drop",
                    Cont::Finalize => "finalize",
                    Cont::Sweep => "sweep",
                };
                let fl = match fault {
                    None => "-".to_string(),
                    Some((k, j)) => format!("{k},{j}"),
                };
                write!(f, "collect {} {} {}", method.name(), c, fl)
            }
            Op::Enter(k) => write!(f, "enter {}", k.name()),
            Op::Leave { panic: false } => write!(f, "leave"),
            Op::Leave { panic: true } => write!(f, "leave panic"),
            Op::Alloc { kind, slots } => {
                write!(f, "alloc {}", kind.name())?;
                for s in slots {
                    write!(f, " {}", show_slot(s))?;
                }
                Ok(())
            }
            Op::ReadRoot(i) => write!(f, "readroot {i}"),
            Op::Read(p, i) => write!(f, "read {p} {i}"),
            Op::Downgrade(p) => write!(f, "downgrade {p}"),
            Op::Upgrade(w) => write!(f, "upgrade {w}"),
            Op::IsDropped(w) => write!(f, "isdropped {w}"),
            Op::IsDead(p) => write!(f, "isdead {p}"),
            Op::Resurrect(p) => write!(f, "resurrect {p}"),
            Op::Barrier(Barrier::Bb(p, c)) => write!(f, "barrier bb {p} {}", opt(c)),
            Op::Barrier(Barrier::Bbw(p, c)) => write!(f, "barrier bbw {p} {c}"),
            Op::Barrier(Barrier::Fb(p, c)) => write!(f, "barrier fb {} {c}", opt(p)),
            Op::Barrier(Barrier::Fbw(p, c)) => write!(f, "barrier fbw {} {c}", opt(p)),
            Op::Barrier(Barrier::CellSet(p)) => write!(f, "barrier cellset {p}"),
            Op::Store { path, p, i, v } => write!(f, "store {} {p} {i} {}", path.name(), show_slot(v)),
            Op::RootStore { i, v } => write!(f, "rootstore {i} {}", show_slot(v)),
            Op::DropArena => write!(f, "drop"),
            Op::Marker => write!(f, "marker"),
        }
    }
}

fn popt(s: &str) -> Option<Option<u32>> {
    if s == "-" { Some(None) } else { s.parse().ok().map(Some) }
}

pub fn parse_op(ws: &[&str]) -> Option<Op> {
    Some(match ws {
        ["new", n] => Op::New(n.parse().ok()?),
        ["pacing", sf, ms, mf, tf, kf, df, ff] => Op::Pacing(PacingSpec {
            sleep: parse_dy(sf)?,
            min_sleep: ms.parse().ok()?,
            mark: parse_dy(mf)?,
            trace: parse_dy(tf)?,
            keep: parse_dy(kf)?,
            drop: parse_dy(df)?,
            free: parse_dy(ff)?,
        }),
        ["adjust", x] => Op::Adjust(parse_dy(x)?),
        ["collect", m, c, fl] => Op::Collect {
            method: *Method::ALL.iter().find(|x| x.name() == *m)?,
            cont: match *c {
                "drop" => Cont::Drop,
                "finalize" => Cont::Finalize,
                "sweep" => Cont::Sweep,
                _ => return None,
            },
            fault: if *fl == "-" {
                None
            } else {
                let (k, j) = fl.split_once(',')?;
                Some((k.parse().ok()?, j.parse().ok()?))
            },
        },
        ["enter", k] => Op::Enter(Cb::ALL_NAMES.iter().find(|(n, _)| n == k).map(|(_, c)| *c)?),
        ["leave"] => Op::Leave { panic: false },
        ["leave", "panic"] => Op::Leave { panic: true },
        ["barrier", "getorinit", _] | ["alloc", "getorinit-child", ..] | ["marker"] => Op::Marker,
        ["alloc", k, rest @ ..] => {
            let mut slots = vec![];
            for s in rest {
                slots.push(parse_slot(s)?);
            }
            Op::Alloc { kind: *Kind::ALL.iter().find(|x| x.name() == *k)?, slots }
        }
        ["readroot", i] => Op::ReadRoot(i.parse().ok()?),
        ["read", p, i] => Op::Read(p.parse().ok()?, i.parse().ok()?),
        ["downgrade", p] => Op::Downgrade(p.parse().ok()?),
        ["upgrade", p] => Op::Upgrade(p.parse().ok()?),
        ["isdropped", p] => Op::IsDropped(p.parse().ok()?),
        ["isdead", p] => Op::IsDead(parse_sp(p)?),
        ["resurrect", p] => Op::Resurrect(parse_sp(p)?),
        ["barrier", "cellset", p] => Op::Barrier(Barrier::CellSet(p.parse().ok()?)),
        ["barrier", "bb", p, c] => Op::Barrier(Barrier::Bb(p.parse().ok()?, popt(c)?)),
        ["barrier", "bbw", p, c] => Op::Barrier(Barrier::Bbw(p.parse().ok()?, c.parse().ok()?)),
        ["barrier", "fb", p, c] => Op::Barrier(Barrier::Fb(popt(p)?, c.parse().ok()?)),
        ["barrier", "fbw", p, c] => Op::Barrier(Barrier::Fbw(popt(p)?, c.parse().ok()?)),
        ["store", path, p, i, v] => Op::Store {
            // `onceset-full` / `getorinit-full`: what the executor writes when the cell turned out to
            // be occupied (a read for the model); the same op when replayed
            path: *Path::ALL.iter().find(|x| x.name() == path.strip_suffix("-full").unwrap_or(path))?,
            p: p.parse().ok()?,
            i: i.parse().ok()?,
            v: parse_slot(v)?,
        },
        ["rootstore", i, v] => Op::RootStore { i: i.parse().ok()?, v: parse_slot(v)? },
        ["drop"] => Op::DropArena,
        _ => return None,
    })
}
