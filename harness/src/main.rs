//! gcverif-harness: drives the real gc-arena crate with generated or replayed operation
//! sequences, writes the line protocol for the Lean model driver, and runs the property monitors.

mod alloc;
mod cover;
mod exec;
mod genr;
mod node;
mod op;
mod shadow;

use std::collections::{BTreeMap, HashSet, VecDeque};
use std::hash::{Hash, Hasher};
use std::io::Write as _;

use exec::World;
use genr::{Gen, Profile, Replay};

#[global_allocator]
static ALLOC: alloc::Tracking = alloc::Tracking;

fn json_str(s: &str) -> String {
    let mut o = String::from("\"");
    for c in s.chars() {
        match c {
            '"' => o.push_str("\\\""),
            '\\' => o.push_str("\\\\"),
            '\n' => o.push_str("\\n"),
            c if (c as u32) < 0x20 => o.push_str(&format!("\\u{:04x}", c as u32)),
            c => o.push(c),
        }
    }
    o.push('"');
    o
}

struct Args {
    map: BTreeMap<String, String>,
}
impl Args {
    fn get(&self, k: &str) -> Option<&str> {
        self.map.get(k).map(|s| s.as_str())
    }
    fn num(&self, k: &str, d: u64) -> u64 {
        self.get(k).and_then(|s| s.parse().ok()).unwrap_or(d)
    }
}

fn parse_args() -> (String, Args) {
    let mut it = std::env::args().skip(1);
    let cmd = it.next().unwrap_or_default();
    let mut map = BTreeMap::new();
    while let Some(k) = it.next() {
        if let Some(k) = k.strip_prefix("--") {
            let v = it.next().unwrap_or_default();
            map.insert(k.to_string(), v);
        }
    }
    (cmd, Args { map })
}

fn read_ops(path: &str) -> Vec<Vec<(usize, op::Op)>> {
    let text = std::fs::read_to_string(path).expect("read ops file");
    let mut seqs = vec![];
    let mut cur = vec![];
    for line in text.lines() {
        let line = line.trim();
        if line.starts_with("seq ") {
            if !cur.is_empty() {
                seqs.push(std::mem::take(&mut cur));
            }
        } else if let Some(rest) = line.strip_prefix("op ") {
            let ws: Vec<&str> = rest.split_whitespace().collect();
            if ws.len() >= 2 {
                if let (Ok(ai), Some(op)) = (ws[0].parse::<usize>(), op::parse_op(&ws[1..])) {
                    cur.push((ai, op));
                } else {
                    eprintln!("unparsable op line: {line}");
                }
            }
        }
    }
    if !cur.is_empty() {
        seqs.push(cur);
    }
    seqs
}

fn main() {
    // The default panic hook prints a message per (expected) injected panic; keep stderr quiet.
    std::panic::set_hook(Box::new(|_| {}));
    let (cmd, args) = parse_args();
    let out_path = args.get("out").unwrap_or("/dev/stdout").to_string();
    let report_path = args.get("report").map(|s| s.to_string());
    let out: Box<dyn std::io::Write> = Box::new(std::io::BufWriter::new(std::fs::File::create(&out_path).expect("create out")));
    let mut w = World::new(out);
    let mut nseq = 0u64;
    let mut nops = 0u64;
    let mut nontrivial = 0u64;
    let mut distinct: HashSet<u64> = HashSet::new();
    let mut distinct_nontrivial = 0u64;
    let mut viol_json: Vec<String> = vec![];
    let mut samples: Vec<String> = vec![];
    let mut skipped = 0u64;
    let mut lens: Vec<usize> = vec![];
    let mut nt_hashes: Vec<u64> = vec![];

    let mut finish_seq = |w: &mut World, label: &str, nseq: &mut u64| {
        let _ = writeln!(w.out, "end");
        let _ = w.out.flush();
        *nseq += 1;
        nops += w.op_index as u64;
        lens.push(w.op_index);
        let nt = w.cover.end_sequence();
        let mut h = std::collections::hash_map::DefaultHasher::new();
        w.ops_text.hash(&mut h);
        let fresh = distinct.insert(h.finish());
        if nt {
            nontrivial += 1;
            if fresh {
                distinct_nontrivial += 1;
                nt_hashes.push(h.finish());
            }
        }
        if samples.len() < 3 && nt {
            samples.push(format!("{{\"sequence\":{},\"ops\":[{}]}}", json_str(label), w.ops_text.iter().take(80).map(|s| json_str(s)).collect::<Vec<_>>().join(",")));
        }
        for (idx, v, optext) in w.violations.drain(..) {
            viol_json.push(format!(
                "{{\"sequence\":{},\"op_index\":{},\"property\":{},\"key\":{},\"op\":{},\"what\":{}}}",
                json_str(label),
                idx,
                json_str(v.property),
                json_str(v.key),
                json_str(&optext),
                json_str(&v.what)
            ));
        }
        skipped += w.skipped as u64;
        w.skipped = 0;
        w.reset();
    };

    match cmd.as_str() {
        "gen" => {
            let profile = Profile::parse(args.get("profile").unwrap_or("core")).expect("profile");
            let seed = args.num("seed", 1);
            let count = args.num("count", 10);
            let max_ops = args.num("maxops", 60) as usize;
            let only = args.get("only").and_then(|s| s.parse::<u64>().ok());
            let status = args.get("status").map(|s| s.to_string());
            for k in 0..count {
                if only.is_some_and(|o| o != k) {
                    continue;
                }
                if let Some(p) = &status {
                    let _ = std::fs::write(p, format!("{k}\n"));
                }
                let s = seed.wrapping_mul(0x9E37_79B9_7F4A_7C15).wrapping_add(k.wrapping_mul(0xD1B5_4A32_D192_ED03));
                let label = format!("{}-{}-{}", args.get("profile").unwrap_or("core"), seed, k);
                let _ = writeln!(w.out, "seq {label} seed={s} maxops={max_ops}");
                let mut g = Gen::new(s, profile, max_ops);
                g.decimal = args.get("profile") == Some("decimal");
                w.run(&mut g);
                finish_seq(&mut w, &label, &mut nseq);
            }
        }
        "replay" => {
            let seqs = read_ops(args.get("in").expect("--in"));
            for (k, ops) in seqs.into_iter().enumerate() {
                let label = format!("replay-{k}");
                let _ = writeln!(w.out, "seq {label}");
                let mut r = Replay { ops: VecDeque::from(ops) };
                w.run(&mut r);
                finish_seq(&mut w, &label, &mut nseq);
            }
        }
        _ => {
            eprintln!("usage: harness gen|replay --out <trace> [--report <json>] …");
            std::process::exit(2);
        }
    }
    drop(finish_seq);
    let cov: Vec<String> = w.cover.cells.iter().map(|(k, v)| format!("{}:{}", json_str(k), v)).collect();
    lens.sort();
    let report = format!(
        "{{\"hashes\":[{}],\"sequences\":{},\"ops\":{},\"nontrivial\":{},\"distinct\":{},\"distinct_nontrivial\":{},\"skipped_ops\":{},\"len_min\":{},\"len_median\":{},\"len_max\":{},\"violations\":[{}],\"samples\":[{}],\"coverage\":{{{}}}}}\n",
        nt_hashes.iter().map(|h| format!("\"{h:016x}\"")).collect::<Vec<_>>().join(","),
        nseq,
        nops,
        nontrivial,
        distinct.len(),
        distinct_nontrivial,
        skipped,
        lens.first().copied().unwrap_or(0),
        lens.get(lens.len() / 2).copied().unwrap_or(0),
        lens.last().copied().unwrap_or(0),
        viol_json.join(","),
        samples.join(","),
        cov.join(",")
    );
    match report_path {
        Some(p) => std::fs::write(p, report).expect("write report"),
        None => eprint!("{report}"),
    }
}
