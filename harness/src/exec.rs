//! Executes operations against the real crate, in-process, and writes the line protocol:
//! `op <arena> <op>` followed by `obs <ret> | <ev> | <steps> | <snap> | <met>`.

use std::collections::HashMap;
use std::io::Write as _;
use std::panic::{AssertUnwindSafe, catch_unwind};

use gc_arena::arena::CollectionPhase;
use gc_arena::barrier::field;
use gc_arena::metrics::{Metrics, Pacing};
use gc_arena::verif::Snapshot;
use gc_arena::{Arena, Finalization, Gc, Mutation, Rootable};

use crate::alloc::{self, Ev};
use crate::node::*;
use crate::op::*;
use crate::shadow::*;

pub type TestArena = Arena<Rootable![Root<'_>]>;
/// an arena whose root type has `NEEDS_TRACE = false` (protocol: `new 0` not followed by
/// `enter rootless_mutate`)
pub type PlainArena = Arena<Rootable![PlainRoot]>;

/// Run `$body` with `$a` bound to whichever arena flavour slot `$ai` holds (taken out of the slot
/// for the duration, so `$self` stays usable inside).
macro_rules! with_arena {
    ($self:ident, $ai:expr, $a:ident => $body:expr) => {
        if $self.arenas[$ai].plain.is_some() {
            #[allow(unused_mut)]
            let mut $a = $self.arenas[$ai].plain.take().unwrap();
            let r = $body;
            $self.arenas[$ai].plain = Some($a);
            r
        } else {
            #[allow(unused_mut)]
            let mut $a = $self.arenas[$ai].arena.take().unwrap();
            let r = $body;
            $self.arenas[$ai].arena = Some($a);
            r
        }
    };
}

/// How a callback sees the root of either flavour.
trait RootView<'gc> {
    fn shared<'a>(&'gc self) -> RootRef<'a, 'gc>;
    fn exclusive<'a>(&'a mut self) -> RootRef<'a, 'gc>;
}
impl<'gc> RootView<'gc> for Root<'gc> {
    fn shared<'a>(&'gc self) -> RootRef<'a, 'gc> {
        RootRef::Shared(self)
    }
    fn exclusive<'a>(&'a mut self) -> RootRef<'a, 'gc> {
        RootRef::Mut(self)
    }
}
impl<'gc> RootView<'gc> for PlainRoot {
    fn shared<'a>(&'gc self) -> RootRef<'a, 'gc> {
        RootRef::Absent
    }
    fn exclusive<'a>(&'a mut self) -> RootRef<'a, 'gc> {
        self.counter += 1;
        RootRef::Absent
    }
}

pub struct CallbackPanic;

/// Where the next op comes from: the online generator or a replay file.
pub trait Source {
    fn next(&mut self, w: &World) -> Option<(usize, Op)>;
    /// A collection call returned a `MarkedArena` that was kept for `finalize`: enter it now?
    fn want_finalize(&mut self, w: &World, ai: usize) -> bool;
    /// `new` is about to create arena `ai`: run its constructor callback with ops (`Arena::new` /
    /// `try_new` with a non-trivial closure)?  Returns the constructor kind.
    fn want_ctor(&mut self, _w: &World, _ai: usize) -> Option<Cb> {
        None
    }
    /// `new 0` (= `rootless_mutate`) is about to run on arena index `ai`: the executor writes the
    /// `enter rootless_mutate` line by itself; a replay drops the copy it read from the trace.
    fn begin_rootless(&mut self, _w: &World, _ai: usize) -> bool {
        false
    }
}

pub struct ArenaSlot {
    /// colour / flags of every object in the last snapshot: id -> (colour byte, needs_trace, live)
    pub colors: HashMap<u32, (u8, bool, bool)>,
    pub phase: u8,
    pub arena: Option<TestArena>,
    pub plain: Option<PlainArena>,
    pub metrics: Option<Metrics>,
    pub addr2id: HashMap<usize, u32>,
    pub shadow: Shadow,
}

pub struct World {
    pub arenas: Vec<ArenaSlot>,
    pub out: Box<dyn std::io::Write>,
    pub violations: Vec<(usize, Violation, String)>, // (op index, violation, op text)
    pub op_index: usize,
    pub ops_text: Vec<String>,
    pub cover: crate::cover::Coverage,
    pub skipped: usize,
    /// A monitor found a strongly reachable object destructed / released: the rest of the sequence
    /// would run on freed memory, so it is abandoned (callbacks are left, the arenas dropped) and
    /// the verdict survives instead of dying with the process.
    pub abandon: bool,
}

enum RootRef<'a, 'gc> {
    Shared(&'gc Root<'gc>),
    Mut(&'a mut Root<'gc>),
    /// `rootless_mutate`: there is no root
    Absent,
}
impl<'a, 'gc> RootRef<'a, 'gc> {
    fn get(&self) -> Option<&Root<'gc>> {
        match self {
            RootRef::Shared(r) => Some(r),
            RootRef::Mut(r) => Some(r),
            RootRef::Absent => None,
        }
    }
}

struct CbCtx<'a, 'gc> {
    mc: &'gc Mutation<'gc>,
    fc: Option<&'gc Finalization<'gc>>,
    root: RootRef<'a, 'gc>,
    temps: Vec<(SP, P<'gc>)>,
    /// emit the observation of `leave` from inside the callback (the arena may not exist any more
    /// once the API call returns: `try_map_root` / `try_new` failing, a panic inside `map_root`)
    leave_inside: bool,
}

fn cphase(p: CollectionPhase) -> CPhase {
    match p {
        CollectionPhase::Sleeping => CPhase::Sleeping,
        CollectionPhase::Marking => CPhase::Marking,
        CollectionPhase::Marked => CPhase::Marked,
        CollectionPhase::Sweeping => CPhase::Sweeping,
    }
}

fn cphase_of_snapshot(s: &Snapshot) -> CPhase {
    match s.phase {
        b'M' => {
            if !s.gray.is_empty() || !s.gray_again.is_empty() || s.root_needs_trace {
                CPhase::Marking
            } else {
                CPhase::Marked
            }
        }
        b'S' => CPhase::Sweeping,
        _ => CPhase::Sleeping,
    }
}

fn pacing_of(p: &PacingSpec) -> Pacing {
    Pacing {
        sleep_factor: p.sleep.to_f64(),
        min_sleep: p.min_sleep,
        mark_factor: p.mark.to_f64(),
        trace_factor: p.trace.to_f64(),
        keep_factor: p.keep.to_f64(),
        drop_factor: p.drop.to_f64(),
        free_factor: p.free.to_f64(),
    }
}

/// Initial pacing of every harness arena (mirrored by the Lean driver's handling of `new`).
pub const P0: PacingSpec = PacingSpec {
    sleep: Dy { num: 1, shift: 1, den: 1 },
    min_sleep: 4,
    mark: Dy { num: 1, shift: 3, den: 1 },
    trace: Dy { num: 3, shift: 3, den: 1 },
    keep: Dy { num: 1, shift: 4, den: 1 },
    drop: Dy { num: 1, shift: 2, den: 1 },
    free: Dy { num: 1, shift: 2, den: 1 },
};

fn tag(ai: usize, id: u32) -> u64 {
    ((ai as u64) << 32) | id as u64
}

fn show_snapshot(s: &Snapshot, addr2id: &HashMap<usize, u32>) -> String {
    let name = |a: usize| match addr2id.get(&a) {
        Some(i) => i.to_string(),
        None => format!("?{a:x}"),
    };
    let all: Vec<String> = s
        .all
        .iter()
        .map(|o| {
            format!(
                "{}:{}{}{}",
                name(o.addr),
                o.color as char,
                if o.needs_trace { "t" } else { "n" },
                if o.live { "l" } else { "d" }
            )
        })
        .collect();
    let (cur, prev) = if s.phase == b'S' {
        let cur = match s.sweep {
            None => s.all.len().to_string(),
            Some(a) => match s.all.iter().position(|o| o.addr == a) {
                Some(k) => k.to_string(),
                None => format!("?{a:x}"),
            },
        };
        let prev = match s.sweep_prev {
            None => "-".to_string(),
            Some(a) => name(a),
        };
        (cur, prev)
    } else {
        let cur = match s.sweep {
            None => "-".to_string(),
            Some(a) => format!("!{}", name(a)),
        };
        let prev = match s.sweep_prev {
            None => "-".to_string(),
            Some(a) => format!("!{}", name(a)),
        };
        (cur, prev)
    };
    let q = |v: &Vec<usize>| v.iter().map(|a| name(*a)).collect::<Vec<_>>().join(",");
    format!(
        "ph={} rnt={} all=[{}]{} cur={} prev={} gray=[{}] again=[{}] cphase={}",
        s.phase as char,
        if s.root_needs_trace { 1 } else { 0 },
        all.join(","),
        if s.truncated { "!truncated" } else { "" },
        cur,
        prev,
        q(&s.gray),
        q(&s.gray_again),
        cphase_of_snapshot(s).name()
    )
}

fn show_metrics(m: &Metrics) -> String {
    let c = m.verif_counters();
    format!(
        "tot={} alloc={} drop={} free={} mark={} trac={} rem={} wake={} art={} debt={}",
        c.total_gcs,
        c.allocated_gcs,
        c.dropped_gcs,
        c.freed_gcs,
        c.marked_gcs,
        c.traced_gcs,
        c.remembered_gcs,
        show_f64(c.wakeup_amount),
        show_f64(c.artificial_debt),
        show_f64(m.allocation_debt())
    )
}

struct Pre {
    phase: CPhase,
    debt: f64,
    total: usize,
    traced: usize,
}

impl World {
    pub fn new(out: Box<dyn std::io::Write>) -> World {
        World {
            arenas: vec![],
            out,
            violations: vec![],
            op_index: 0,
            ops_text: vec![],
            cover: Default::default(),
            skipped: 0,
            abandon: false,
        }
    }

    pub fn reset(&mut self) {
        // Drop any arenas still alive, then release the quarantine.
        for s in self.arenas.iter_mut() {
            s.arena.take();
            s.plain.take();
        }
        self.arenas.clear();
        alloc::reset();
        self.violations.clear();
        self.abandon = false;
        self.op_index = 0;
        self.ops_text.clear();
    }

    fn pre(&self, ai: usize) -> Pre {
        let s = &self.arenas[ai];
        let phase = match (&s.arena, &s.plain) {
            (Some(a), _) => cphase(a.collection_phase()),
            (_, Some(a)) => cphase(a.collection_phase()),
            _ => CPhase::Sleeping,
        };
        match &s.metrics {
            Some(m) => Pre { phase, debt: m.allocation_debt(), total: m.total_gc_count(), traced: m.verif_counters().traced_gcs },
            None => Pre { phase: CPhase::Sleeping, debt: 0.0, total: 0, traced: 0 },
        }
    }

    fn write_op(&mut self, ai: usize, op: &Op) {
        self.write_text(ai, &op.to_string());
    }

    /// Write an op line whose text is not the op's canonical one (`store onceset-full …`, the
    /// phase lines of `store getorinit`).
    fn write_text(&mut self, ai: usize, op_text: &str) {
        let text = format!("op {ai} {op_text}");
        let _ = writeln!(self.out, "{text}");
        let _ = self.out.flush();
        self.ops_text.push(text);
    }

    /// Emit the observation of the op just executed and run the monitors.
    #[allow(clippy::too_many_arguments)]
    fn finish_op(
        &mut self,
        ai: usize,
        op: &Op,
        ret: String,
        pre: Pre,
        snap: Option<&Snapshot>,
        phase_after: CPhase,
        steps: String,
    ) {
        let events = alloc::take_events();
        let mut mine = vec![];
        let mut foreign = 0usize;
        for e in events {
            let (is_drop, t) = match e {
                Ev::Dropped(t) => (true, t),
                Ev::Freed(t) => (false, t),
            };
            if t == TOMB {
                self.violations.push((
                    self.op_index,
                    Violation { property: "C04", key: "", what: "destructor ran on an already destructed value".into() },
                    format!("op {ai} {op}"),
                ));
                continue;
            }
            if (t >> 32) as usize == ai {
                mine.push((is_drop, t as u32));
            } else {
                foreign += 1;
            }
        }
        // the protocol carries the events that were observed ...
        let ev_text = if mine.is_empty() {
            "-".to_string()
        } else {
            mine.iter().map(|(d, i)| format!("{}{}", if *d { "d" } else { "f" }, i)).collect::<Vec<_>>().join(" ")
        };
        // ... and the monitors additionally get the destructor runs of values without drop glue
        // (`Kind::nodrop`), inferred from the `live` flag of the snapshots: live before this op, and
        // now not live or gone.  (The flag itself is compared with the model in the `snap` section;
        // the Lean driver leaves the model's `d` events of these objects out of the comparison.)
        {
            let slot = &self.arenas[ai];
            let after: Option<HashMap<u32, bool>> =
                snap.map(|s| s.all.iter().filter_map(|o| slot.addr2id.get(&o.addr).map(|i| (*i, o.live))).collect());
            let mut inferred: Vec<u32> = slot
                .colors
                .iter()
                .filter(|(id, c)| c.2 && slot.shadow.objs.get(**id as usize).is_some_and(|o| o.kind.nodrop()))
                .filter(|(id, _)| match &after {
                    None => true,
                    Some(m) => !m.get(*id).copied().unwrap_or(false),
                })
                .map(|(id, _)| *id)
                .collect();
            inferred.sort();
            let mut all: Vec<(bool, u32)> = inferred.into_iter().map(|i| (true, i)).collect();
            all.append(&mut mine);
            mine = all;
        }
        let slot = &self.arenas[ai];
        let snap_text = match snap {
            Some(s) => show_snapshot(s, &slot.addr2id),
            None => "dropped".to_string(),
        };
        let m = slot.metrics.as_ref().unwrap();
        let met_text = show_metrics(m);
        let debt_after = m.allocation_debt();
        let total_after = m.total_gc_count();
        let steps_text = if steps.is_empty() { "-".to_string() } else { steps };
        let _ = writeln!(self.out, "obs {ret} | {ev_text} | {steps_text} | {snap_text} | {met_text}");
        let obs = Observed {
            ret,
            events: mine,
            foreign_events: foreign,
            steps: steps_text,
            phase_before: pre.phase,
            phase_after,
            debt_before: pre.debt,
            debt_after,
            total_before: pre.total,
            total_after,
            traced_before: pre.traced,
            traced_after: m.verif_counters().traced_gcs,
            orphan_gray: match snap {
                None => vec![],
                Some(sn) => sn
                    .all
                    .iter()
                    .filter(|o| o.color == b'G' && !sn.gray.contains(&o.addr) && !sn.gray_again.contains(&o.addr))
                    .map(|o| slot.addr2id.get(&o.addr).copied().unwrap_or(u32::MAX))
                    .collect(),
            },
            foreign_callback: self.arenas.iter().enumerate().any(|(i, s)| i != ai && s.shadow.cb.is_some()),
            counters_after: {
                let c = m.verif_counters();
                (c.marked_gcs, c.traced_gcs, c.remembered_gcs, c.dropped_gcs, c.freed_gcs)
            },
            live_blocks: alloc::live_blocks(ai as u32),
            alloc_violations: alloc::take_violations(),
        };
        if let Some(s) = snap {
            let before = std::mem::take(&mut self.arenas[ai].colors);
            let holder = match op {
                Op::Store { p, .. } | Op::Read(p, _) => self.arenas[ai].shadow.objs.get(*p as usize).map(|o| o.kind),
                _ => None,
            };
            self.cover.record(op, &obs, s, &before, self.arenas[ai].phase, holder);
            let slot = &mut self.arenas[ai];
            slot.colors = before;
            slot.colors.clear();
            slot.phase = s.phase;
            for o in &s.all {
                if let Some(id) = slot.addr2id.get(&o.addr) {
                    slot.colors.insert(*id, (o.color, o.needs_trace, o.live));
                }
            }
        }
        let mut out = vec![];
        self.arenas[ai].shadow.observe(op, &obs, &mut out);
        for n in std::mem::take(&mut self.arenas[ai].shadow.notes) {
            self.cover.bump(format!("monitor|{n}"));
        }
        for v in out {
            if v.property == "C01" && v.what.contains("while strongly reachable") {
                self.abandon = true;
            }
            self.violations.push((self.op_index, v, format!("op {ai} {op}")));
        }
        self.op_index += 1;
    }

    fn skip(&mut self, ai: usize, op: &Op) {
        let _ = writeln!(self.out, "# skipped (not executable here): op {ai} {op}");
        self.skipped += 1;
    }

    /// Top-level loop: ops outside callbacks.
    pub fn run(&mut self, src: &mut dyn Source) {
        while !self.abandon {
            let Some((ai, op)) = src.next(self) else { break };
            self.top_op(ai, op, src);
        }
    }

    fn top_op(&mut self, ai: usize, op: Op, src: &mut dyn Source) {
        if op == Op::Marker {
            return;
        }
        if op == Op::New(0) && ai == self.arenas.len() {
            if src.begin_rootless(self, ai) {
                return self.rootless(ai, src);
            }
            // an arena with a pointer-free root
            self.write_op(ai, &op);
            let arena = PlainArena::new(|_mc| PlainRoot { counter: 0 });
            let metrics = arena.metrics().clone();
            metrics.set_pacing(pacing_of(&P0));
            let snap = arena.verif_snapshot();
            self.arenas.push(ArenaSlot { colors: HashMap::new(), phase: b'Z', arena: None, plain: Some(arena), metrics: Some(metrics), addr2id: HashMap::new(), shadow: Shadow::new(0) });
            let ph = cphase_of_snapshot(&snap);
            self.finish_op(ai, &op, "ok".into(), Pre { phase: CPhase::Sleeping, debt: 0.0, total: 0, traced: 0 }, Some(&snap), ph, String::new());
            return;
        }
        if let Op::New(n) = op {
            if ai != self.arenas.len() || n != NROOT {
                self.skip(ai, &op);
                return;
            }
            if let Some(kind) = src.want_ctor(self, ai) {
                return self.new_with_ctor(ai, n, kind, src);
            }
            self.write_op(ai, &op);
            let arena = TestArena::new(|_mc| Root { slots: [None; NROOT] });
            let metrics = arena.metrics().clone();
            // The protocol's `new` = `Arena::new` + `set_pacing(P0)` with the dyadic pacing P0, so
            // that every amount the run computes is exact in f64 (DESIGN §4, numerics).
            metrics.set_pacing(pacing_of(&P0));
            self.arenas.push(ArenaSlot { colors: HashMap::new(), phase: b'Z', arena: Some(arena), plain: None, metrics: Some(metrics), addr2id: HashMap::new(), shadow: Shadow::new(n) });
            let snap = self.arenas[ai].arena.as_ref().unwrap().verif_snapshot();
            let ph = cphase_of_snapshot(&snap);
            self.finish_op(ai, &op, "ok".into(), Pre { phase: CPhase::Sleeping, debt: 0.0, total: 0, traced: 0 }, Some(&snap), ph, String::new());
            return;
        }
        if ai >= self.arenas.len() || (self.arenas[ai].arena.is_none() && self.arenas[ai].plain.is_none()) {
            self.skip(ai, &op);
            return;
        }
        if self.arenas[ai].plain.is_some() && matches!(op, Op::Enter(k) if k.is_map()) {
            // (map_root / try_map_root are exercised on the slot-root flavour)
            self.skip(ai, &op);
            return;
        }
        match op {
            Op::Pacing(p) => {
                self.write_op(ai, &op);
                let pre = self.pre(ai);
                self.arenas[ai].metrics.as_ref().unwrap().set_pacing(pacing_of(&p));
                self.finish_top(ai, &op, "ok".into(), pre, String::new());
            }
            Op::Adjust(x) => {
                self.write_op(ai, &op);
                let pre = self.pre(ai);
                self.arenas[ai].metrics.as_ref().unwrap().adjust_debt(x.to_f64());
                self.finish_top(ai, &op, "ok".into(), pre, String::new());
            }
            Op::DropArena => {
                self.write_op(ai, &op);
                let pre = self.pre(ai);
                let r = match self.arenas[ai].plain.take() {
                    Some(arena) => catch_unwind(AssertUnwindSafe(move || drop(arena))),
                    None => {
                        let arena = self.arenas[ai].arena.take().unwrap();
                        catch_unwind(AssertUnwindSafe(move || drop(arena)))
                    }
                };
                let ret = if r.is_ok() { "ok" } else { "panic" };
                self.finish_op(ai, &op, ret.into(), pre, None, CPhase::Sleeping, String::new());
            }
            Op::Collect { method, cont, fault } => self.collect(ai, method, cont, fault, src),
            Op::Enter(Cb::Mutate) => {
                self.write_op(ai, &op);
                let pre = self.pre(ai);
                let r = with_arena!(self, ai, arena => catch_unwind(AssertUnwindSafe(|| {
                    arena.mutate(|mc, root| {
                        let mut cb = CbCtx { mc, fc: None, root: root.shared(), temps: vec![], leave_inside: false };
                        self.enter_obs(ai, &op, &cb, pre);
                        self.callback_loop(ai, &mut cb, src)
                    })
                })));
                self.after_callback(ai, r);
            }
            Op::Enter(Cb::MutateRoot) => {
                self.write_op(ai, &op);
                let pre = self.pre(ai);
                let r = with_arena!(self, ai, arena => catch_unwind(AssertUnwindSafe(|| {
                    arena.mutate_root(|mc, root| {
                        let mut cb = CbCtx { mc, fc: None, root: root.exclusive(), temps: vec![], leave_inside: false };
                        self.enter_obs(ai, &op, &cb, pre);
                        self.callback_loop(ai, &mut cb, src)
                    })
                })));
                self.after_callback(ai, r);
            }
            Op::Enter(kind) if kind.is_map() => {
                self.write_op(ai, &op);
                let pre = self.pre(ai);
                let arena = self.arenas[ai].arena.take().unwrap();
                // Ok(Some(arena)): mapped; Ok(None): the callback returned Err, the arena was dropped
                // inside `try_map_root`; Err(_): the callback panicked, the arena was dropped by the
                // unwind
                let r = catch_unwind(AssertUnwindSafe(|| {
                    if kind == Cb::MapRoot {
                        Some(arena.map_root::<Rootable![Root<'_>]>(|mc, mut root| {
                            let mut cb = CbCtx { mc, fc: None, root: RootRef::Mut(&mut root), temps: vec![], leave_inside: true };
                            self.enter_obs(ai, &op, &cb, pre);
                            self.callback_loop(ai, &mut cb, src);
                            drop(cb);
                            root
                        }))
                    } else {
                        arena
                            .try_map_root::<Rootable![Root<'_>], ()>(|mc, mut root| {
                                let mut cb = CbCtx { mc, fc: None, root: RootRef::Mut(&mut root), temps: vec![], leave_inside: true };
                                self.enter_obs(ai, &op, &cb, pre);
                                self.callback_loop(ai, &mut cb, src);
                                drop(cb);
                                if kind == Cb::TryMapRootErr { Err(()) } else { Ok(root) }
                            })
                            .ok()
                    }
                }));
                self.after_owned_callback(ai, r);
            }
            _ => self.skip(ai, &op),
        }
    }

    /// `Arena::new` / `try_new` whose constructor closure runs ops.  Protocol: `new n` (observed
    /// from inside the constructor), `enter <ctor kind>`, the ops, `leave`, and — when the
    /// constructor fails or panics, so that no arena comes into being — `droparena`.
    fn new_with_ctor(&mut self, ai: usize, n: usize, kind: Cb, src: &mut dyn Source) {
        let op_new = Op::New(n);
        let op_enter = Op::Enter(kind);
        self.write_op(ai, &op_new);
        let r = catch_unwind(AssertUnwindSafe(|| {
            let body = |this: &mut World, mc: &Mutation<'_>| {
                let metrics = mc.metrics().clone();
                metrics.set_pacing(pacing_of(&P0));
                this.arenas.push(ArenaSlot { colors: HashMap::new(), phase: b'Z', arena: None, plain: None, metrics: Some(metrics), addr2id: HashMap::new(), shadow: Shadow::new(n) });
                let snap = mc.verif_snapshot();
                let ph = cphase_of_snapshot(&snap);
                this.finish_op(ai, &op_new, "ok".into(), Pre { phase: CPhase::Sleeping, debt: 0.0, total: 0, traced: 0 }, Some(&snap), ph, String::new());
                this.write_op(ai, &op_enter);
            };
            if kind == Cb::NewCtor {
                Some(TestArena::new(|mc| {
                    body(self, mc);
                    let mut root = Root { slots: [None; NROOT] };
                    let pre = Pre { phase: CPhase::Sleeping, debt: 0.0, total: 0, traced: 0 };
                    let mut cb = CbCtx { mc, fc: None, root: RootRef::Mut(&mut root), temps: vec![], leave_inside: true };
                    self.enter_obs(ai, &op_enter, &cb, pre);
                    self.callback_loop(ai, &mut cb, src);
                    drop(cb);
                    root
                }))
            } else {
                TestArena::try_new::<_, ()>(|mc| {
                    body(self, mc);
                    let mut root = Root { slots: [None; NROOT] };
                    let pre = Pre { phase: CPhase::Sleeping, debt: 0.0, total: 0, traced: 0 };
                    let mut cb = CbCtx { mc, fc: None, root: RootRef::Mut(&mut root), temps: vec![], leave_inside: true };
                    self.enter_obs(ai, &op_enter, &cb, pre);
                    self.callback_loop(ai, &mut cb, src);
                    drop(cb);
                    if kind == Cb::TryNewErr { Err(()) } else { Ok(root) }
                })
                .ok()
            }
        }));
        if self.arenas.len() == ai {
            // the constructor never ran its body (cannot happen): keep the protocol aligned
            self.arenas.push(ArenaSlot { colors: HashMap::new(), phase: b'Z', arena: None, plain: None, metrics: None, addr2id: HashMap::new(), shadow: Shadow::new(n) });
        }
        self.after_owned_callback(ai, r);
    }

    /// `arena::rootless_mutate(|mc| …)`: a throw-away arena without a root.  Protocol: `new 0`
    /// (observed from inside the callback, like a constructor), `enter rootless_mutate`, the ops,
    /// `leave` (observed inside: nothing may have been destructed or released by then — the C03
    /// monitor), and `drop` once the call has returned: everything allocated must have been
    /// destructed and released exactly once (C04 monitor at `drop`).
    fn rootless(&mut self, ai: usize, src: &mut dyn Source) {
        let op_new = Op::New(0);
        let op_enter = Op::Enter(Cb::Rootless);
        self.write_op(ai, &op_new);
        let r = catch_unwind(AssertUnwindSafe(|| {
            gc_arena::arena::rootless_mutate(|mc| {
                let metrics = mc.metrics().clone();
                metrics.set_pacing(pacing_of(&P0));
                self.arenas.push(ArenaSlot { colors: HashMap::new(), phase: b'Z', arena: None, plain: None, metrics: Some(metrics), addr2id: HashMap::new(), shadow: Shadow::new(0) });
                let snap = mc.verif_snapshot();
                let ph = cphase_of_snapshot(&snap);
                self.finish_op(ai, &op_new, "ok".into(), Pre { phase: CPhase::Sleeping, debt: 0.0, total: 0, traced: 0 }, Some(&snap), ph, String::new());
                self.write_op(ai, &op_enter);
                let pre = Pre { phase: CPhase::Sleeping, debt: 0.0, total: 0, traced: 0 };
                let mut cb = CbCtx { mc, fc: None, root: RootRef::Absent, temps: vec![], leave_inside: true };
                self.enter_obs(ai, &op_enter, &cb, pre);
                self.callback_loop(ai, &mut cb, src);
                drop(cb);
            });
            None::<TestArena>
        }));
        if self.arenas.len() == ai {
            self.arenas.push(ArenaSlot { colors: HashMap::new(), phase: b'Z', arena: None, plain: None, metrics: None, addr2id: HashMap::new(), shadow: Shadow::new(0) });
        }
        self.after_owned_callback(ai, r);
    }

    /// After a callback that owned the root (`map_root`, `try_map_root`, the constructor of `new` /
    /// `try_new`): the observation of `leave` was emitted inside the callback.  If the API call
    /// produced an arena it goes (back) into the slot; otherwise the arena is gone — everything it
    /// allocated must have been released — which the protocol records as `droparena`.
    fn after_owned_callback(&mut self, ai: usize, r: std::thread::Result<Option<TestArena>>) {
        match r {
            Ok(Some(arena)) => {
                self.arenas[ai].arena = Some(arena);
            }
            Ok(None) => self.arena_gone(ai, "ok"),
            Err(e) => {
                if e.downcast_ref::<CallbackPanic>().is_none() {
                    let msg = e.downcast_ref::<String>().cloned().or_else(|| e.downcast_ref::<&str>().map(|s| s.to_string())).unwrap_or_else(|| "?".into());
                    let _ = writeln!(self.out, "# unexpected panic inside an owning callback: {msg}");
                    self.violations.push((
                        self.op_index,
                        Violation { property: "C06", key: "", what: format!("unexpected panic inside map_root / try_map_root / new: {msg}") },
                        format!("op {ai} leave"),
                    ));
                }
                self.arenas[ai].shadow.pending_fault = false;
                self.arena_gone(ai, "ok")
            }
        }
    }

    fn arena_gone(&mut self, ai: usize, ret: &str) {
        let op = Op::DropArena;
        self.write_op(ai, &op);
        let pre = self.pre(ai);
        self.finish_op(ai, &op, ret.into(), pre, None, CPhase::Sleeping, String::new());
    }

    fn finish_top(&mut self, ai: usize, op: &Op, ret: String, pre: Pre, steps: String) {
        let (snap, ph) = match (&self.arenas[ai].arena, &self.arenas[ai].plain) {
            (Some(a), _) => (a.verif_snapshot(), cphase(a.collection_phase())),
            (_, Some(a)) => (a.verif_snapshot(), cphase(a.collection_phase())),
            _ => unreachable!("finish_top without an arena"),
        };
        self.finish_op(ai, op, ret, pre, Some(&snap), ph, steps);
    }

    fn enter_obs(&mut self, ai: usize, op: &Op, cb: &CbCtx<'_, '_>, pre: Pre) {
        let snap = cb.mc.verif_snapshot();
        let ph = cphase_of_snapshot(&snap);
        self.finish_op(ai, op, "ok".into(), pre, Some(&snap), ph, String::new());
    }

    /// The `leave` op was written by `callback_loop`; emit its observation once the arena is back.
    fn after_callback(&mut self, ai: usize, r: std::thread::Result<(Pre, bool)>) {
        let (pre, panicked) = match r {
            Ok((pre, _)) => (pre, false),
            Err(e) => {
                if e.downcast_ref::<CallbackPanic>().is_none() {
                    // A panic that the harness did not ask for: report it on the op being executed.
                    let msg = e.downcast_ref::<String>().cloned().or_else(|| e.downcast_ref::<&str>().map(|s| s.to_string())).unwrap_or_else(|| "?".into());
                    let op = Op::Leave { panic: true };
                    let pre = self.pre(ai);
                    self.arenas[ai].shadow.pending_fault = false;
                    let _ = writeln!(self.out, "# unexpected panic inside callback: {msg}");
                    self.finish_top(ai, &op, format!("panic:{}", msg.replace(['|', '\n'], " ")), pre, String::new());
                    return;
                }
                (self.pre(ai), true)
            }
        };
        let op = Op::Leave { panic: panicked };
        self.finish_top(ai, &op, "ok".into(), pre, String::new());
    }

    fn collect(&mut self, ai: usize, method: Method, cont: Cont, fault: Option<(usize, usize)>, src: &mut dyn Source) {
        // A trace fault is "the k-th trace call panics"; tracing an *empty* `OnceLock` runs no client
        // code, so with such a cell around the index would not mean the same thing on both sides:
        // the call is then made (and written) without the fault.
        // (The same goes for a `leafcell` that a barrier re-queued: its trace runs no client code.)
        let gray_cell = self.arenas[ai].colors.iter().any(|(id, c)| c.0 == b'G' && self.arenas[ai].shadow.objs.get(*id as usize).is_some_and(|o| o.kind == Kind::LeafCell));
        let fault = if gray_cell || self.arenas[ai].shadow.objs.iter().any(|o| o.kind == Kind::OnceCell && o.dropped == 0 && o.freed == 0 && o.slots.first().is_some_and(|s| s.is_none())) {
            None
        } else {
            fault
        };
        let op = Op::Collect { method, cont, fault };
        self.write_op(ai, &op);
        let pre = self.pre(ai);
        FAULT.with(|f| f.set(fault));
        TRACE_COUNT.with(|c| c.set(0));
        self.arenas[ai].shadow.pending_fault = fault.is_some();
        // Phase 1: the collection method itself (and start_sweeping, if asked for).
        let (r, steps) = with_arena!(self, ai, arena => {
            let r = catch_unwind(AssertUnwindSafe(|| match method {
                Method::CollectDebt => {
                    arena.collect_debt();
                    "-"
                }
                Method::CycleDebt => {
                    arena.cycle_debt();
                    "-"
                }
                Method::FinishCycle => {
                    arena.finish_cycle();
                    "-"
                }
                Method::MarkDebt | Method::FinishMarking => {
                    let m = if method == Method::MarkDebt { arena.mark_debt() } else { arena.finish_marking() };
                    match m {
                        None => "none",
                        Some(m) => {
                            if cont == Cont::Sweep {
                                m.start_sweeping();
                            }
                            "some"
                        }
                    }
                }
            }));
            (r, String::from_utf8(arena.verif_take_log()).unwrap_or_default())
        });
        FAULT.with(|f| f.set(None));
        let ret = match &r {
            Ok(s) => s.to_string(),
            Err(e) => {
                if e.downcast_ref::<TraceFault>().is_some() {
                    "panic".to_string()
                } else {
                    let msg = e.downcast_ref::<String>().cloned().or_else(|| e.downcast_ref::<&str>().map(|s| s.to_string())).unwrap_or_else(|| "?".into());
                    self.arenas[ai].shadow.pending_fault = false;
                    format!("panic:{}", msg.replace(['|', '\n'], " "))
                }
            }
        };
        let is_some = ret == "some";
        self.finish_top(ai, &op, ret, pre, steps);
        self.arenas[ai].shadow.pending_fault = false;
        // Phase 2: finalize callback on the MarkedArena (re-obtained: the arena is still Marked,
        // so the same method hands it out again without doing any work).
        if is_some && cont == Cont::Finalize {
            if src.want_finalize(self, ai) {
                let op = Op::Enter(Cb::Finalize);
                self.write_op(ai, &op);
                let pre = self.pre(ai);
                let r = with_arena!(self, ai, arena => {
                    let r = catch_unwind(AssertUnwindSafe(|| {
                        let m = arena.finish_marking();
                        match m {
                            None => Err(()),
                            Some(m) => Ok(m.finalize(|fc, root| {
                                let mut cb = CbCtx { mc: fc, fc: Some(fc), root: root.shared(), temps: vec![], leave_inside: false };
                                self.enter_obs(ai, &op, &cb, pre);
                                self.callback_loop(ai, &mut cb, src)
                            })),
                        }
                    }));
                    let _ = arena.verif_take_log();
                    r
                });
                match r {
                    Ok(Err(())) => {
                        let pre = self.pre(ai);
                        self.finish_top(ai, &op, "no-marked-arena".into(), pre, String::new());
                    }
                    Ok(Ok(x)) => self.after_callback(ai, Ok(x)),
                    Err(e) => self.after_callback(ai, Err(e)),
                }
            }
        }
    }

    fn lookup<'gc>(cb: &CbCtx<'_, 'gc>, p: SP) -> Option<P<'gc>> {
        cb.temps.iter().find(|(s, _)| *s == p).map(|(_, v)| *v)
    }

    fn push_temp<'gc>(cb: &mut CbCtx<'_, 'gc>, s: SP, p: P<'gc>) {
        if !cb.temps.iter().any(|(t, _)| *t == s) {
            cb.temps.push((s, p));
        }
    }

    /// Identify a real pointer: which shadow object does it point to?  For strong pointers the
    /// payload id is read through the pointer (the C01 "dereference reads what was stored" oracle).
    fn identify<'gc>(&self, ai: usize, p: P<'gc>) -> Result<SP, String> {
        let by_addr = self.arenas[ai].addr2id.get(&p.addr()).copied();
        match p.payload_id() {
            // strong: `pid` is `None` for an empty `OnceCell` (no payload to read)
            Some(pid) => match by_addr {
                Some(i) if pid.is_none_or(|id| tag(ai, i) == id) => Ok(SP::S(i)),
                _ => Err(format!("bad-read:addr={:?} payload-id={:#x}", by_addr, pid.unwrap_or(0))),
            },
            None => match by_addr {
                Some(i) => Ok(SP::W(i)),
                None => Err("bad-read:unknown-weak-address".into()),
            },
        }
    }

    fn value_of<'gc>(cb: &CbCtx<'_, 'gc>, v: &SSlot) -> Option<Option<P<'gc>>> {
        match v {
            None => Some(None),
            Some(sp) => Self::lookup(cb, *sp).map(Some),
        }
    }

    /// Ops inside a callback, until `leave`.  Returns the pre-state of the `leave` op.
    fn callback_loop<'gc>(&mut self, ai: usize, cb: &mut CbCtx<'_, 'gc>, src: &mut dyn Source) -> (Pre, bool) {
        loop {
            let next = if self.abandon { None } else { src.next(self) };
            let Some((ai2, op)) = next else {
                // source exhausted inside a callback: leave normally
                let op = Op::Leave { panic: false };
                self.write_op(ai, &op);
                let pre = self.pre_cb(ai, cb);
                if cb.leave_inside {
                    let pre2 = self.pre_cb(ai, cb);
                    self.finish_cb(ai, cb, &op, "ok".into(), pre2);
                }
                return (pre, false);
            };
            if ai2 != ai {
                // an op on another arena, issued from inside this callback
                self.top_op(ai2, op, src);
                continue;
            }
            match op {
                Op::Leave { panic } => {
                    self.write_op(ai, &op);
                    let pre = self.pre_cb(ai, cb);
                    if cb.leave_inside {
                        let pre2 = self.pre_cb(ai, cb);
                        self.finish_cb(ai, cb, &op, "ok".into(), pre2);
                    }
                    if panic {
                        std::panic::panic_any(CallbackPanic);
                    }
                    return (pre, false);
                }
                Op::Marker => {}
                Op::Enter(Cb::Rootless) if matches!(cb.root, RootRef::Absent) => {}
                _ => self.cb_op(ai, cb, op),
            }
        }
    }

    fn pre_cb(&self, ai: usize, cb: &CbCtx<'_, '_>) -> Pre {
        let m = cb.mc.metrics();
        let snap = cb.mc.verif_snapshot();
        let _ = ai;
        Pre { phase: cphase_of_snapshot(&snap), debt: m.allocation_debt(), total: m.total_gc_count(), traced: m.verif_counters().traced_gcs }
    }

    fn finish_cb(&mut self, ai: usize, cb: &CbCtx<'_, '_>, op: &Op, ret: String, pre: Pre) {
        let snap = cb.mc.verif_snapshot();
        let ph = cphase_of_snapshot(&snap);
        self.finish_op(ai, op, ret, pre, Some(&snap), ph, String::new());
    }

    fn cb_op<'gc>(&mut self, ai: usize, cb: &mut CbCtx<'_, 'gc>, op: Op) {
        let mc = cb.mc;
        match &op {
            Op::Alloc { kind, slots } => {
                let kind = *kind;
                if slots.len() != kind.alloc_args() {
                    return self.skip(ai, &op);
                }
                let mut vals = [None; NSLOTS];
                for (k, s) in slots.iter().enumerate() {
                    match Self::value_of(cb, s) {
                        Some(v) => vals[k] = v,
                        None => return self.skip(ai, &op),
                    }
                }
                self.write_op(ai, &op);
                let pre = self.pre_cb(ai, cb);
                let (id, p, consumed) = self.alloc_obj(ai, mc, kind, vals);
                Self::push_temp(cb, SP::S(id), p);
                let ret = if consumed { id.to_string() } else { format!("{id}!no-block-allocated") };
                self.finish_cb(ai, cb, &op, ret, pre);
            }
            Op::ReadRoot(i) => {
                if *i >= NROOT || cb.root.get().is_none() {
                    return self.skip(ai, &op);
                }
                self.write_op(ai, &op);
                let pre = self.pre_cb(ai, cb);
                let v = cb.root.get().unwrap().slots[*i];
                let ret = self.read_result(ai, cb, v);
                self.finish_cb(ai, cb, &op, ret, pre);
            }
            Op::Read(p, i) => {
                let Some(h) = Self::lookup(cb, SP::S(*p)) else { return self.skip(ai, &op) };
                if *i >= Self::kind_of(h).nslots() {
                    return self.skip(ai, &op);
                }
                self.write_op(ai, &op);
                let pre = self.pre_cb(ai, cb);
                let v = Self::read_slot(h, *i);
                let ret = self.read_result(ai, cb, v);
                self.finish_cb(ai, cb, &op, ret, pre);
            }
            Op::Downgrade(p) => {
                let Some(v) = Self::lookup(cb, SP::S(*p)) else { return self.skip(ai, &op) };
                self.write_op(ai, &op);
                let pre = self.pre_cb(ai, cb);
                let w = v.downgrade();
                Self::push_temp(cb, SP::W(*p), w);
                self.finish_cb(ai, cb, &op, "ok".into(), pre);
            }
            Op::Upgrade(w) => {
                let Some(v) = Self::lookup(cb, SP::W(*w)) else { return self.skip(ai, &op) };
                self.write_op(ai, &op);
                let pre = self.pre_cb(ai, cb);
                let up = v.upgrade(mc);
                let ret = match up {
                    None => "none".to_string(),
                    Some(p) => match self.identify(ai, p) {
                        Ok(SP::S(i)) if i == *w => {
                            Self::push_temp(cb, SP::S(i), p);
                            "some".to_string()
                        }
                        Ok(other) => format!("bad-read:upgraded-to-{other}"),
                        Err(e) => e,
                    },
                };
                self.finish_cb(ai, cb, &op, ret, pre);
            }
            Op::IsDropped(w) => {
                let Some(v) = Self::lookup(cb, SP::W(*w)) else { return self.skip(ai, &op) };
                self.write_op(ai, &op);
                let pre = self.pre_cb(ai, cb);
                let d = v.is_dropped();
                self.finish_cb(ai, cb, &op, d.to_string(), pre);
            }
            Op::IsDead(p) => {
                let (Some(fc), Some(v)) = (cb.fc, Self::lookup(cb, *p)) else { return self.skip(ai, &op) };
                self.write_op(ai, &op);
                let pre = self.pre_cb(ai, cb);
                let d = v.is_dead(fc);
                self.finish_cb(ai, cb, &op, d.to_string(), pre);
            }
            Op::Resurrect(p) => {
                let (Some(fc), Some(v)) = (cb.fc, Self::lookup(cb, *p)) else { return self.skip(ai, &op) };
                self.write_op(ai, &op);
                let pre = self.pre_cb(ai, cb);
                let ret = match v.resurrect(fc) {
                    Ok(()) => "ok".to_string(),
                    Err(None) => "none".to_string(),
                    Err(Some(s)) => {
                        Self::push_temp(cb, SP::S(p.id()), s);
                        "some".to_string()
                    }
                };
                self.finish_cb(ai, cb, &op, ret, pre);
            }
            Op::Barrier(b) => {
                let strong = |cb: &CbCtx<'_, 'gc>, p: u32| Self::lookup(cb, SP::S(p)).and_then(|v| v.erased_strong());
                let weak = |cb: &CbCtx<'_, 'gc>, p: u32| Self::lookup(cb, SP::W(p)).and_then(|v| v.erased_weak());
                let run: Option<Box<dyn FnOnce() + '_>> = match *b {
                    Barrier::Bb(p, None) => strong(cb, p).map(|p| Box::new(move || mc.backward_barrier(p, None)) as Box<dyn FnOnce()>),
                    Barrier::Bb(p, Some(c)) => match (strong(cb, p), strong(cb, c)) {
                        (Some(p), Some(c)) => Some(Box::new(move || mc.backward_barrier(p, Some(c)))),
                        _ => None,
                    },
                    Barrier::Bbw(p, c) => match (strong(cb, p), weak(cb, c)) {
                        (Some(p), Some(c)) => Some(Box::new(move || mc.backward_barrier_weak(p, c))),
                        _ => None,
                    },
                    Barrier::Fb(None, c) => strong(cb, c).map(|c| Box::new(move || mc.forward_barrier(None, c)) as Box<dyn FnOnce()>),
                    Barrier::Fb(Some(p), c) => match (strong(cb, p), strong(cb, c)) {
                        (Some(p), Some(c)) => Some(Box::new(move || mc.forward_barrier(Some(p), c))),
                        _ => None,
                    },
                    Barrier::CellSet(p) => match Self::lookup(cb, SP::S(p)) {
                        Some(P::SK(g)) => Some(Box::new(move || {
                            let mut b = g.borrow_mut(mc);
                            b.val = b.val.wrapping_add(1);
                        })),
                        _ => None,
                    },
                    Barrier::Fbw(None, c) => weak(cb, c).map(|c| Box::new(move || mc.forward_barrier_weak(None, c)) as Box<dyn FnOnce()>),
                    Barrier::Fbw(Some(p), c) => match (strong(cb, p), weak(cb, c)) {
                        (Some(p), Some(c)) => Some(Box::new(move || mc.forward_barrier_weak(Some(p), c))),
                        _ => None,
                    },
                };
                let Some(run) = run else { return self.skip(ai, &op) };
                self.write_op(ai, &op);
                let pre = self.pre_cb(ai, cb);
                let r = catch_unwind(AssertUnwindSafe(run));
                let ret = match r {
                    Ok(()) => "ok".to_string(),
                    Err(e) => format!("panic:{}", e.downcast_ref::<String>().cloned().or_else(|| e.downcast_ref::<&str>().map(|s| s.to_string())).unwrap_or_else(|| "?".into()).replace(['|', '\n'], " ")),
                };
                self.finish_cb(ai, cb, &op, ret, pre);
            }
            Op::Store { path, p, i, v } => self.store_op(ai, cb, &op, *path, *p, *i, *v),
            Op::RootStore { i, v } => {
                let Some(val) = Self::value_of(cb, v) else { return self.skip(ai, &op) };
                if *i >= NROOT || !matches!(cb.root, RootRef::Mut(_)) {
                    return self.skip(ai, &op);
                }
                self.write_op(ai, &op);
                let pre = self.pre_cb(ai, cb);
                if let RootRef::Mut(r) = &mut cb.root {
                    r.slots[*i] = val;
                }
                self.finish_cb(ai, cb, &op, "ok".into(), pre);
            }
            _ => self.skip(ai, &op),
        }
    }

    fn kind_of(p: P<'_>) -> Kind {
        match p {
            P::S(_) | P::W(_) => Kind::Node,
            P::SL(_) | P::WL(_) => Kind::Leaf,
            P::SR(_) | P::WR(_) => Kind::RefNode,
            P::SC(_) | P::WC(_) => Kind::LockCell,
            P::SO(_) | P::WO(_) => Kind::OnceCell,
            P::SD(_) | P::WD(_) => Kind::DynNode,
            P::SK(_) | P::WK(_) => Kind::LeafCell,
        }
    }

    /// What slot `i` of the object holds, read through the strong pointer `h`.
    fn read_slot<'gc>(h: P<'gc>, i: usize) -> Option<P<'gc>> {
        match h {
            P::S(g) => *g.slots[i].borrow(),
            P::SR(g) => g.borrow().slots[i],
            P::SC(g) => g.get().v,
            P::SO(g) => g.get().map(|b| b.v),
            P::SD(g) => g.inner.get(i),
            _ => None,
        }
    }

    /// Allocate an object of the given kind with the next id of arena `ai`.
    fn alloc_obj<'gc>(&mut self, ai: usize, mc: &'gc Mutation<'gc>, kind: Kind, vals: [Option<P<'gc>>; NSLOTS]) -> (u32, P<'gc>, bool) {
        use gc_arena::lock::{Lock, OnceLock, RefLock};
        let id = self.arenas[ai].shadow.objs.len() as u32;
        let t = tag(ai, id);
        let p = match kind {
            Kind::Leaf => {
                let v = Leaf { id: std::cell::Cell::new(t), val: RefLock::new(0) };
                alloc::expect_gc(t);
                P::SL(Gc::new(mc, v))
            }
            Kind::Node => {
                let v = Node { id: std::cell::Cell::new(t), slots: vals.map(RefLock::new) };
                alloc::expect_gc(t);
                P::S(Gc::new(mc, v))
            }
            Kind::RefNode => {
                let v: RefNode<'gc> = RefLock::new(RefBody { id: std::cell::Cell::new(t), slots: vals });
                alloc::expect_gc(t);
                P::SR(Gc::new(mc, v))
            }
            Kind::LockCell => {
                let v: LockCell<'gc> = Lock::new(LockBody { id: t, v: vals[0] });
                alloc::expect_gc(t);
                P::SC(Gc::new(mc, v))
            }
            Kind::OnceCell => {
                let v: OnceCellT<'gc> = OnceLock::new();
                alloc::expect_gc(t);
                P::SO(Gc::new(mc, v))
            }
            Kind::LeafCell => {
                let v: LeafCell = RefLock::new(CellBody { id: std::cell::Cell::new(t), val: 0 });
                alloc::expect_gc(t);
                P::SK(Gc::new(mc, v))
            }
            Kind::DynNode => {
                // (the box is allocated before the Gc block is announced to the allocator)
                let inner: Box<dyn DynSlots<'gc> + 'gc> = Box::new(DynBody { id: std::cell::Cell::new(t), slots: vals.map(RefLock::new) });
                let v = DynNode { inner };
                alloc::expect_gc(t);
                P::SD(Gc::new(mc, v))
            }
        };
        let consumed = alloc::expect_consumed();
        alloc::untracked(|_| self.arenas[ai].addr2id.insert(p.addr(), id));
        (id, p, consumed)
    }

    /// `store <path> p i v`: one of the store routes of `Kind::paths`.
    #[allow(clippy::too_many_arguments)]
    fn store_op<'gc>(&mut self, ai: usize, cb: &mut CbCtx<'_, 'gc>, op: &Op, path: Path, p: u32, i: usize, v: SSlot) {
        let mc = cb.mc;
        let Some(h) = Self::lookup(cb, SP::S(p)) else { return self.skip(ai, op) };
        let kind = Self::kind_of(h);
        if !kind.paths().contains(&path) || i >= kind.nslots() {
            return self.skip(ai, op);
        }
        // `getorinit` whose value names the next fresh id: the closure allocates the child
        let fresh = path == Path::GetOrInit && v == Some(SP::S(self.arenas[ai].shadow.objs.len() as u32)) && Self::lookup(cb, v.unwrap()).is_none();
        let val = if fresh {
            None
        } else {
            match Self::value_of(cb, &v) {
                Some(x) => x,
                None => return self.skip(ai, op),
            }
        };
        let panic_text = |e: Box<dyn std::any::Any + Send>| format!("panic:{}", e.downcast_ref::<String>().cloned().or_else(|| e.downcast_ref::<&str>().map(|s| s.to_string())).unwrap_or_else(|| "?".into()).replace(['|', '\n'], " "));
        if let P::SO(g) = h {
            // ---- a `Gc<OnceLock<_>>` cell ----
            if val.is_none() && !fresh {
                return self.skip(ai, op); // a OnceLock cannot be emptied
            }
            let t = tag(ai, p);
            if g.get().is_some() {
                // occupied: `set` fails, `get_or_init` returns what is there; neither may store or
                // issue a barrier.  For the model this is a read (`… -full` line).
                if path == Path::Raw {
                    return self.skip(ai, op);
                }
                self.write_text(ai, &format!("store {}-full {p} {i} {}", path.name(), show_slot(&v)));
                let pre = self.pre_cb(ai, cb);
                let r = catch_unwind(AssertUnwindSafe(|| match (path, val) {
                    (Path::OnceSet, Some(x)) => match g.set(mc, OnceBody { id: t, v: x }) {
                        Ok(()) => Err("stored-into-occupied-cell".to_string()),
                        Err(_) => Ok(g.get().map(|b| b.v)),
                    },
                    _ => {
                        let mut called = false;
                        let got = g.get_or_init(mc, || {
                            called = true;
                            OnceBody { id: t, v: val.unwrap_or(h) }
                        });
                        if called { Err("closure-run-on-occupied-cell".to_string()) } else { Ok(Some(got.v)) }
                    }
                }));
                let ret = match r {
                    Ok(Ok(cur)) => self.read_result(ai, cb, cur),
                    Ok(Err(e)) => e,
                    Err(e) => panic_text(e),
                };
                return self.finish_cb(ai, cb, op, ret, pre);
            }
            match path {
                Path::OnceSet | Path::Raw => {
                    let Some(x) = val else { return self.skip(ai, op) };
                    self.write_op(ai, op);
                    let pre = self.pre_cb(ai, cb);
                    let r = catch_unwind(AssertUnwindSafe(|| {
                        let body = OnceBody { id: t, v: x };
                        if path == Path::OnceSet { g.set(mc, body).is_ok() } else { unsafe { gc_arena::barrier::Unlock::unlock_unchecked(g.as_ref()).set(body).is_ok() } }
                    }));
                    let ret = match r {
                        Ok(true) => "ok".to_string(),
                        Ok(false) => "set-failed-on-empty-cell".to_string(),
                        Err(e) => panic_text(e),
                    };
                    self.finish_cb(ai, cb, op, ret, pre);
                }
                _ => {
                    // get_or_init on an empty cell, in its three phases: the barrier (observed at
                    // the start of the closure), the closure (which allocates the child if `fresh`),
                    // the store (observed after the call).  For the model: `bb p -`, `alloc`, and a
                    // store covered by that barrier.
                    let op_b = Op::Barrier(Barrier::Bb(p, None));
                    self.write_text(ai, &format!("barrier getorinit {p}"));
                    let pre_b = self.pre_cb(ai, cb);
                    let mut pre_b = Some(pre_b);
                    let mut pre_s = None;
                    let r = catch_unwind(AssertUnwindSafe(|| {
                        g.get_or_init(mc, || {
                            {
                                // coverage cell of the setter, with the colours as they were before
                                // the barrier phase (the final `store getorinit` line sees them after)
                                let slot = &self.arenas[ai];
                                let col = |x: u32| slot.colors.get(&x).map(|c| (c.0 as char).to_string()).unwrap_or_else(|| "new".into());
                                let child = match v {
                                    Some(SP::S(x)) => format!("s:{}", col(x)),
                                    Some(SP::W(x)) => format!("w:{}", col(x)),
                                    None => "-".into(),
                                };
                                let key = format!("setter×holder×phase×parent×child|getorinit|oncecell|stored|{}|{}|{}", slot.phase as char, col(p), child);
                                let (ph, pc) = (slot.phase as char, col(p));
                                self.cover.bump(key);
                                self.cover.lock_setter(Path::GetOrInit, Kind::OnceCell, "stored", ph, &pc, &v);
                            }
                            self.finish_cb(ai, cb, &op_b, "ok".into(), pre_b.take().unwrap());
                            self.cover.bump(format!("getorinit×closure|{}", if fresh { "allocates" } else { "returns-held" }));
                            let x = if fresh {
                                let op_a = Op::Alloc { kind: Kind::Node, slots: vec![None; NSLOTS] };
                                self.write_text(ai, "alloc getorinit-child none none none");
                                let pre = self.pre_cb(ai, cb);
                                let (id, c, consumed) = self.alloc_obj(ai, mc, Kind::Node, [None; NSLOTS]);
                                Self::push_temp(cb, SP::S(id), c);
                                let ret = if consumed { id.to_string() } else { format!("{id}!no-block-allocated") };
                                self.finish_cb(ai, cb, &op_a, ret, pre);
                                c
                            } else {
                                val.unwrap()
                            };
                            pre_s = Some(self.pre_cb(ai, cb));
                            OnceBody { id: t, v: x }
                        });
                    }));
                    if let Some(pre) = pre_b.take() {
                        // the closure was never run (or the call unwound before it)
                        let ret = match &r {
                            Ok(()) => "closure-not-run".to_string(),
                            Err(_) => "panic-before-closure".to_string(),
                        };
                        self.finish_cb(ai, cb, &op_b, ret, pre);
                    }
                    self.write_op(ai, op);
                    let pre = match pre_s {
                        Some(x) => x,
                        None => self.pre_cb(ai, cb),
                    };
                    let ret = match r {
                        Ok(()) => "ok".to_string(),
                        Err(e) => panic_text(e),
                    };
                    self.finish_cb(ai, cb, op, ret, pre);
                }
            }
            return;
        }
        self.write_op(ai, op);
        let pre = self.pre_cb(ai, cb);
        let r = catch_unwind(AssertUnwindSafe(|| -> Result<(), &'static str> {
            match h {
                P::S(g) => match path {
                    Path::Write => {
                        // Gc::write -> field! -> IndexWrite -> Unlock -> RefCell::borrow_mut
                        let w = Gc::write(mc, g);
                        let slots = field!(w, Node, slots);
                        *slots[i].unlock().borrow_mut() = val;
                    }
                    Path::Raw => unsafe {
                        *g.slots[i].as_ref_cell().borrow_mut() = val;
                    },
                    _ => unsafe {
                        *g.slots[i].as_ref_cell().borrow_mut() = val;
                        mc.backward_barrier(Gc::erase(g), None);
                    },
                },
                P::SR(g) => match path {
                    Path::Write => Gc::write(mc, g).unlock().borrow_mut().slots[i] = val,
                    Path::BorrowMut => g.borrow_mut(mc).slots[i] = val,
                    Path::TryBorrowMut => match g.try_borrow_mut(mc) {
                        Ok(mut b) => b.slots[i] = val,
                        Err(_) => return Err("try-borrow-mut-failed"),
                    },
                    Path::Unlock => g.unlock(mc).borrow_mut().slots[i] = val,
                    Path::Raw => unsafe { g.as_ref_cell().borrow_mut().slots[i] = val },
                    _ => unsafe {
                        g.as_ref_cell().borrow_mut().slots[i] = val;
                        mc.backward_barrier(Gc::erase(g), None);
                    },
                },
                P::SD(g) => match path {
                    Path::Write => {
                        let w = Gc::write(mc, g);
                        unsafe { w.inner.set(i, val) };
                    }
                    Path::Raw => unsafe { g.inner.set(i, val) },
                    _ => unsafe {
                        g.inner.set(i, val);
                        mc.backward_barrier(Gc::erase(g), None);
                    },
                },
                P::SC(g) => {
                    let body = LockBody { id: g.get().id, v: val };
                    match path {
                        Path::Write => Gc::write(mc, g).unlock().set(body),
                        Path::LockSet => g.set(mc, body),
                        Path::Unlock => g.unlock(mc).set(body),
                        Path::Raw => unsafe { g.as_cell().set(body) },
                        _ => unsafe {
                            g.as_cell().set(body);
                            mc.backward_barrier(Gc::erase(g), None);
                        },
                    }
                }
                _ => return Err("no-slots"),
            }
            Ok(())
        }));
        let ret = match r {
            Ok(Ok(())) => "ok".to_string(),
            Ok(Err(e)) => e.to_string(),
            Err(e) => panic_text(e),
        };
        self.finish_cb(ai, cb, op, ret, pre);
    }

    fn read_result<'gc>(&mut self, ai: usize, cb: &mut CbCtx<'_, 'gc>, v: Option<P<'gc>>) -> String {
        match v {
            None => "none".into(),
            Some(p) => match self.identify(ai, p) {
                Ok(sp) => {
                    Self::push_temp(cb, sp, p);
                    sp.to_string()
                }
                Err(e) => e,
            },
        }
    }
}
