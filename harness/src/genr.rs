//! Online generator of structured, mostly-valid operation sequences, driven by the shadow graph.
//! Every random choice derives from one SplitMix64 state, so a sequence replays from its seed.

use std::collections::VecDeque;

use crate::exec::{Source, World};
use crate::op::*;
use crate::shadow::Shadow;

pub struct Rng(pub u64);
impl Rng {
    pub fn next(&mut self) -> u64 {
        self.0 = self.0.wrapping_add(0x9E37_79B9_7F4A_7C15);
        let mut z = self.0;
        z = (z ^ (z >> 30)).wrapping_mul(0xBF58_476D_1CE4_E5B9);
        z = (z ^ (z >> 27)).wrapping_mul(0x94D0_49BB_1331_11EB);
        z ^ (z >> 31)
    }
    pub fn below(&mut self, n: usize) -> usize {
        if n == 0 { 0 } else { (self.next() % n as u64) as usize }
    }
    pub fn chance(&mut self, num: u32, den: u32) -> bool {
        (self.next() % den as u64) < num as u64
    }
    pub fn pick<'a, T>(&mut self, xs: &'a [T]) -> Option<&'a T> {
        if xs.is_empty() { None } else { Some(&xs[self.below(xs.len())]) }
    }
}

#[derive(Clone, Copy, Debug, PartialEq, Eq)]
pub enum Profile {
    /// balanced mix (C01, C03, C04)
    Core,
    /// weak-pointer heavy (C05)
    Weak,
    /// explicit barrier paths x colours (C06)
    Barrier,
    /// finalize rounds (C07)
    Finalize,
    /// API calls x phases x debt classes (C08)
    Protocol,
    /// workloads x pacing families (C09)
    Pacing,
    /// barriers on non-tracing objects, adjust_debt, counters (C10)
    Metrics,
    /// trace faults and callback panics (C11)
    Fault,
    /// exact reclamation: finish_cycle pairs (C02)
    Reclaim,
    /// several arenas interleaved (C20)
    Multi,
    /// sustained allocation against debt-driven cycles with rho close to 1 (C09 rho-bound)
    Soak,
}

impl Profile {
    pub fn parse(s: &str) -> Option<Profile> {
        Some(match s {
            "core" => Profile::Core,
            "weak" => Profile::Weak,
            "barrier" => Profile::Barrier,
            "finalize" => Profile::Finalize,
            "protocol" => Profile::Protocol,
            "pacing" => Profile::Pacing,
            "metrics" => Profile::Metrics,
            "fault" => Profile::Fault,
            "reclaim" => Profile::Reclaim,
            "multi" => Profile::Multi,
            "soak" => Profile::Soak,
            // the pacing profile with decimal (non-dyadic) factors: `Gen::decimal`
            "decimal" => Profile::Pacing,
            _ => return None,
        })
    }
}

pub struct Gen {
    pub rng: Rng,
    pub profile: Profile,
    pub max_ops: usize,
    emitted: usize,
    queue: VecDeque<(usize, Op)>,
    cb_stack: Vec<(usize, usize)>, // (arena, ops left in this callback)
    narenas: usize,
    finishing: u8,
    done: bool,
    /// after the current callback: run finish_cycle twice (exact-reclamation check)
    want_reclaim: bool,
    soak_prev: Option<u32>,
    soak_pacing: Option<PacingSpec>,
    /// the multi-step "move a shell's weak pointer into a black holder mid-mark" script:
    /// (stage, arena, b, a, t)
    shell_script: Option<(u8, usize, u32, u32, u32)>,
    /// the "weak shells" soak variant: stage (0 = not chosen yet, 1 = declined, 2.. = running)
    weak_soak: u8,
    /// decimal (non-dyadic) pacing factors, incl. `Pacing::DEFAULT` and `STOP_THE_WORLD`: the
    /// model's exact rationals then differ from f64 by rounding, compared with a tolerance (`odt`)
    pub decimal: bool,
    /// the `new 0` just pushed is a `rootless_mutate` call (otherwise: an arena with a plain root)
    rootless_pending: bool,
}

/// `x` as an exact dyadic rational, if it is one with a small denominator.
fn dy_exact(x: f64) -> Option<Dy> {
    for shift in 0..=12u32 {
        let n = x * (1u64 << shift) as f64;
        if n.fract() == 0.0 && n.abs() < (1u64 << 40) as f64 {
            return Some(Dy::new(n as i64, shift));
        }
    }
    None
}

fn dy(n: i64, s: u32) -> Dy {
    Dy::new(n, s)
}

impl Gen {
    pub fn new(seed: u64, profile: Profile, max_ops: usize) -> Gen {
        let mut rng = Rng(seed);
        let narenas = if profile == Profile::Multi { 2 + rng.below(2) } else { 1 };
        Gen { rng, profile, max_ops, emitted: 0, queue: VecDeque::new(), cb_stack: vec![], narenas, finishing: 0, done: false, want_reclaim: false, soak_prev: None, soak_pacing: None, shell_script: None, weak_soak: 0, decimal: false, rootless_pending: false }
    }

    fn pacing(&mut self) -> PacingSpec {
        if self.decimal {
            let q = |n: i64, d: u64| Dy::ratio(n, d);
            let ms = [0usize, 1, 2, 4, 16, 64, 256][self.rng.below(7)];
            return match self.rng.below(6) {
                // Pacing::DEFAULT (src/metrics.rs), with a min_sleep that lets short sequences wake
                0 | 1 => PacingSpec { sleep: q(1, 2), min_sleep: ms, mark: q(1, 10), trace: q(2, 5), keep: q(1, 20), drop: q(1, 5), free: q(3, 10) },
                // Pacing::STOP_THE_WORLD
                2 => PacingSpec { sleep: q(1, 1), min_sleep: ms, mark: q(0, 1), trace: q(0, 1), keep: q(0, 1), drop: q(0, 1), free: q(0, 1) },
                // thirds and sevenths
                3 => PacingSpec { sleep: q(1, 3), min_sleep: ms, mark: q(1, 7), trace: q(2, 7), keep: q(1, 21), drop: q(1, 3), free: q(1, 3) },
                // random hundredths
                _ => {
                    let mut f = || Dy::ratio(self.rng.below(101) as i64, 100);
                    PacingSpec { sleep: f(), min_sleep: ms, mark: f(), trace: f(), keep: f(), drop: f(), free: f() }
                }
            };
        }
        let fam = match self.profile {
            Profile::Pacing | Profile::Protocol | Profile::Metrics => self.rng.below(6),
            _ => self.rng.below(4),
        };
        let mut ms = self.rng.below(7);
        // occasionally a wake-up threshold far above what a short sequence allocates
        let big = matches!(self.profile, Profile::Pacing | Profile::Protocol) && self.rng.chance(1, 7);
        if big {
            ms = [64, 256][self.rng.below(2)];
        }
        match fam {
            // unit: every micro-step pays one unit; adjust_debt(k) buys about k steps
            0 | 1 => PacingSpec { sleep: dy(0, 0), min_sleep: if big { ms } else { ms.min(2) }, mark: dy(1, 0), trace: dy(1, 0), keep: dy(1, 0), drop: dy(1, 0), free: dy(1, 0) },
            // stop-the-world
            2 => PacingSpec { sleep: dy(1, 0), min_sleep: ms, mark: dy(0, 0), trace: dy(0, 0), keep: dy(0, 0), drop: dy(0, 0), free: dy(0, 0) },
            // dyadic rho < 1
            3 => PacingSpec { sleep: dy(1, 1), min_sleep: ms, mark: dy(1, 3), trace: dy(3, 3), keep: dy(1, 4), drop: dy(1, 2), free: dy(1, 2) },
            // rho close to 1
            4 => PacingSpec { sleep: dy(1, 2), min_sleep: ms, mark: dy(1, 3), trace: dy(3, 3), keep: dy(7, 4), drop: dy(3, 3), free: dy(1, 1) },
            // random dyadic
            _ => {
                let mut f = || dy(self.rng.below(17) as i64, 4);
                PacingSpec { sleep: f(), min_sleep: ms, mark: f(), trace: f(), keep: f(), drop: f(), free: f() }
            }
        }
    }

    fn push(&mut self, ai: usize, op: Op) {
        self.queue.push_back((ai, op));
    }

    /// profiles that allocate the lock-valued kinds and use the crate's own setters
    fn lock_kinds(&self) -> bool {
        matches!(self.profile, Profile::Core | Profile::Barrier | Profile::Weak | Profile::Fault)
    }

    /// profiles that allocate `dynnode` objects (pointers traced through the `DynCollect` adapter)
    fn dyn_kinds(&self) -> bool {
        matches!(self.profile, Profile::Core | Profile::Weak | Profile::Barrier | Profile::Finalize | Profile::Reclaim | Profile::Multi | Profile::Fault)
    }

    /// object `i` can take a store now: it has slots, is undestructed, and — a `OnceCell` — is empty
    fn can_adopt(sh: &Shadow, i: u32) -> bool {
        let o = &sh.objs[i as usize];
        !o.leaf && o.dropped == 0 && (o.kind != Kind::OnceCell || o.slots[0].is_none())
    }

    /// a barrier-issuing route into an object of this kind: mostly the kind's own safe setters
    fn sanctioned_path(&mut self, kind: Kind, v: &SSlot) -> Path {
        let own: &[Path] = match kind {
            Kind::RefNode => &[Path::BorrowMut, Path::BorrowMut, Path::TryBorrowMut, Path::Unlock, Path::Write],
            Kind::LockCell => &[Path::LockSet, Path::LockSet, Path::Unlock, Path::Write],
            Kind::OnceCell => &[Path::OnceSet, Path::OnceSet, Path::GetOrInit],
            _ => &[Path::Write],
        };
        let _ = v;
        own[self.rng.below(own.len())]
    }

    /// Push the ops that store `v` into slot `i` of `p` by route `route`: 0 = a sanctioned setter of
    /// the kind, 1 = store-then-barrier, 2 = the explicit barrier `b` followed by a barrier-less store.
    fn emit_store(&mut self, ai: usize, kind: Kind, p: u32, i: usize, v: SSlot, route: u8, b: Option<Barrier>) {
        match route {
            2 => {
                if let Some(b) = b {
                    self.push(ai, Op::Barrier(b));
                }
                self.push(ai, Op::Store { path: Path::Raw, p, i, v });
            }
            1 if kind.paths().contains(&Path::Stb) => self.push(ai, Op::Store { path: Path::Stb, p, i, v }),
            _ => {
                let path = self.sanctioned_path(kind, &v);
                self.push(ai, Op::Store { path, p, i, v });
            }
        }
    }

    /// Scenario (mark phase): an already traced (black) object whose whole value is a lock adopts a
    /// not yet marked — mostly fresh — child through one of the crate's own setters: the cell where
    /// only the setter's barrier keeps the child alive.
    fn scenario_lock_setter(&mut self, w: &World, ai: usize) -> bool {
        let sh = &w.arenas[ai].shadow;
        let cols = &w.arenas[ai].colors;
        let col = |i: u32| cols.get(&i).map(|c| c.0);
        let reach = sh.reachable();
        let mut holders: Vec<u32> = sh
            .accessible()
            .into_iter()
            .filter(|i| matches!(sh.objs[*i as usize].kind, Kind::RefNode | Kind::LockCell | Kind::OnceCell) && sh.objs[*i as usize].dropped == 0)
            .filter(|i| col(*i) == Some(b'B'))
            .collect();
        holders.sort();
        // prefer holders the root reaches (the adoption then outlives the callback) and cells that
        // can still be filled
        let mut weighted: Vec<u32> = vec![];
        for h in &holders {
            let n = if Self::can_adopt(sh, *h) { 3 } else { 1 } * if reach.contains(h) { 2 } else { 1 };
            for _ in 0..n {
                weighted.push(*h);
            }
        }
        let Some(p) = self.rng.pick(&weighted).copied() else { return false };
        let kind = sh.objs[p as usize].kind;
        if !sh.holds(SP::S(p)) {
            match sh.path_to(p) {
                Some(path) => path.into_iter().for_each(|op| self.push(ai, op)),
                None => return false,
            }
        }
        let i = self.rng.below(kind.nslots());
        let fresh = sh.objs.len() as u32;
        let unmarked: Vec<SP> = sh.temps.iter().copied().filter(|t| matches!(col(t.id()), Some(b'W') | Some(b'w')) && sh.objs[t.id() as usize].dropped == 0).collect();
        let occupied = kind == Kind::OnceCell && !Self::can_adopt(sh, p);
        if kind == Kind::OnceCell && !occupied && self.rng.chance(1, 3) {
            // the closure of get_or_init allocates the child
            self.push(ai, Op::Store { path: Path::GetOrInit, p, i, v: Some(SP::S(fresh)) });
            return true;
        }
        let v = match self.rng.pick(&unmarked).copied() {
            Some(t) if self.rng.chance(1, 3) && (kind != Kind::OnceCell || matches!(t, SP::S(_))) => t,
            _ => {
                let ck = [Kind::Node, Kind::Node, Kind::RefNode, Kind::LockCell, Kind::Leaf][self.rng.below(5)];
                self.push(ai, Op::Alloc { kind: ck, slots: vec![None; ck.alloc_args()] });
                if kind != Kind::OnceCell && self.rng.chance(1, 4) {
                    self.push(ai, Op::Downgrade(fresh));
                    // the weak pointer alone is adopted: the target must stay queryable
                    SP::W(fresh)
                } else {
                    SP::S(fresh)
                }
            }
        };
        let route = if kind != Kind::OnceCell && self.rng.chance(1, 8) { 1 } else { 0 };
        self.emit_store(ai, kind, p, i, Some(v), route, None);
        true
    }

    /// Script: hang a fresh lock-valued object from the root, mark the arena completely (the holder
    /// is black now), let it adopt a fresh — white — child through one of its own setters, run two
    /// full cycles and read the child back through the holder.  The child is held by nothing else
    /// once the callback has returned: only the setter's barrier keeps it.
    fn lock_script(&mut self, w: &World, ai: usize) {
        let n = w.arenas[ai].shadow.objs.len() as u32;
        let hk = [Kind::RefNode, Kind::LockCell, Kind::OnceCell, Kind::OnceCell][self.rng.below(4)];
        let i = self.rng.below(hk.nslots());
        let ri = self.rng.below(4);
        let via_node = self.rng.chance(1, 3);
        self.push(ai, Op::Enter(Cb::MutateRoot));
        self.push(ai, Op::Alloc { kind: hk, slots: vec![None; hk.alloc_args()] });
        // c: the id the child will get
        let c = if via_node {
            self.push(ai, Op::Alloc { kind: Kind::Node, slots: vec![None, Some(SP::S(n)), None] });
            self.push(ai, Op::RootStore { i: ri, v: Some(SP::S(n + 1)) });
            n + 2
        } else {
            self.push(ai, Op::RootStore { i: ri, v: Some(SP::S(n)) });
            n + 1
        };
        self.push(ai, Op::Leave { panic: false });
        self.push(ai, Op::Collect { method: Method::FinishMarking, cont: Cont::Drop, fault: None });
        self.push(ai, Op::Enter(Cb::Mutate));
        self.push(ai, Op::ReadRoot(ri));
        if via_node {
            self.push(ai, Op::Read(n + 1, 1));
        }
        let ck = [Kind::Node, Kind::Node, Kind::RefNode, Kind::LockCell, Kind::Leaf][self.rng.below(5)];
        let mut weak_only = false;
        if hk == Kind::OnceCell && self.rng.chance(1, 2) {
            // the closure of get_or_init allocates the child (a Node)
            self.push(ai, Op::Store { path: Path::GetOrInit, p: n, i, v: Some(SP::S(c)) });
        } else {
            self.push(ai, Op::Alloc { kind: ck, slots: vec![None; ck.alloc_args()] });
            weak_only = hk != Kind::OnceCell && self.rng.chance(1, 4);
            if weak_only {
                self.push(ai, Op::Downgrade(c));
            }
            let v = Some(if weak_only { SP::W(c) } else { SP::S(c) });
            let path = self.sanctioned_path(hk, &v);
            self.push(ai, Op::Store { path, p: n, i, v });
        }
        self.push(ai, Op::Leave { panic: false });
        self.push(ai, Op::Collect { method: Method::FinishCycle, cont: Cont::Drop, fault: None });
        self.push(ai, Op::Collect { method: Method::FinishCycle, cont: Cont::Drop, fault: None });
        self.push(ai, Op::Enter(Cb::Mutate));
        self.push(ai, Op::ReadRoot(ri));
        if via_node {
            self.push(ai, Op::Read(n + 1, 1));
        }
        self.push(ai, Op::Read(n, i));
        if weak_only {
            self.push(ai, Op::IsDropped(c));
            self.push(ai, Op::Upgrade(c));
        }
        self.push(ai, Op::Leave { panic: false });
        self.cb_stack.clear();
    }

    /// Script (C10 / C11): trace faults that hit *after* other objects of the same cycle were traced,
    /// observed with a clearly positive debt.  Dyadic pacing with mark / trace factors > 0, several
    /// tracing nodes hung from the root, `adjust_debt` far above the wake-up amount, then repeated
    /// `finish_marking` / `mark_debt` with the fault at trace index k >= 1 (j varied), then a
    /// fault-free finish.  A collection call that unwinds must leave the debt where it was or lower
    /// and the trace-credit counter at the number of completed traces.
    fn fault_credit_script(&mut self, w: &World, ai: usize) {
        let n = w.arenas[ai].shadow.objs.len() as u32;
        let tf = [dy(1, 1), dy(1, 2), dy(3, 3), dy(1, 0)][self.rng.below(4)];
        let mf = [dy(1, 2), dy(1, 3), dy(1, 1)][self.rng.below(3)];
        let p = PacingSpec { sleep: dy(1, 1), min_sleep: 1 + self.rng.below(4), mark: mf, trace: tf, keep: dy(1, 4), drop: dy(1, 2), free: dy(1, 2) };
        self.push(ai, Op::Pacing(p));
        // root slots 0..=3 hold nodes, each possibly with a child (all NEEDS_TRACE)
        self.push(ai, Op::Enter(Cb::MutateRoot));
        let mut id = n;
        let tops = 3 + self.rng.below(2);
        for r in 0..tops {
            let child = if self.rng.chance(1, 2) {
                self.push(ai, Op::Alloc { kind: Kind::Node, slots: vec![None, None, None] });
                id += 1;
                Some(SP::S(id - 1))
            } else {
                None
            };
            let k = self.rng.below(3);
            let mut slots = vec![None, None, None];
            slots[k] = child;
            self.push(ai, Op::Alloc { kind: Kind::Node, slots });
            self.push(ai, Op::RootStore { i: r, v: Some(SP::S(id)) });
            id += 1;
        }
        self.push(ai, Op::Leave { panic: false });
        // a known starting point: asleep, nothing counted
        self.push(ai, Op::Collect { method: Method::FinishCycle, cont: Cont::Drop, fault: None });
        let extra = 64 + self.rng.below(64) as i64;
        self.push(ai, Op::Adjust(dy(extra, 0)));
        let rounds = 3 + self.rng.below(4);
        for round in 0..rounds {
            let method = if self.rng.chance(1, 2) { Method::FinishMarking } else { Method::MarkDebt };
            // first some objects are traced to completion before the fault (k >= 1); in the later
            // calls the very first trace mostly faults (k = 0): such a call completes no work at all,
            // so whatever it does to the debt is the fault path's own doing
            let k = if round == 0 { 1 + self.rng.below(3) } else { [0, 0, 0, 1, 2][self.rng.below(5)] };
            let j = self.rng.below(5);
            self.push(ai, Op::Collect { method, cont: Cont::Drop, fault: Some((k, j)) });
        }
        self.push(ai, Op::Collect { method: Method::FinishMarking, cont: Cont::Drop, fault: None });
        self.push(ai, Op::Collect { method: Method::FinishCycle, cont: Cont::Drop, fault: None });
        self.cb_stack.clear();
    }

    /// Script (C09 / C08): one `collect_debt` that enters mid-cycle with a large burst outstanding,
    /// rolls over the end of that cycle and runs the next one as an atomic unit; afterwards allocate
    /// one by one with a debt-driven call after each — the collector must sleep through
    /// max(min_sleep, sleep_factor x survivors) of them.  Stop-the-world pacing or default-like
    /// dyadic pacing.
    fn rollover_script(&mut self, w: &World, ai: usize) {
        let sh = &w.arenas[ai].shadow;
        let n = sh.objs.len() as u32;
        let reach = sh.reachable();
        let held = reach.len() + sh.weakly_held(&reach).len();
        let stw = self.rng.chance(1, 2);
        let ms = 2 + self.rng.below(3);
        let p = if stw {
            PacingSpec { sleep: dy(1, 0), min_sleep: ms, mark: dy(0, 0), trace: dy(0, 0), keep: dy(0, 0), drop: dy(0, 0), free: dy(0, 0) }
        } else {
            PacingSpec { sleep: dy(1, 1), min_sleep: ms, mark: dy(1, 3), trace: dy(3, 3), keep: dy(1, 4), drop: dy(1, 2), free: dy(1, 2) }
        };
        self.push(ai, Op::Pacing(p));
        let s = 2 + self.rng.below(3);
        self.push(ai, Op::Enter(Cb::MutateRoot));
        let ri = self.rng.below(4);
        let replaced = match sh.root.get(ri) {
            Some(Some(SP::S(_))) => 1,
            _ => 0,
        };
        let mut prev: SSlot = None;
        for k in 0..s as u32 {
            self.push(ai, Op::Alloc { kind: Kind::Node, slots: vec![prev, None, None] });
            prev = Some(SP::S(n + k));
        }
        self.push(ai, Op::RootStore { i: ri, v: prev });
        self.push(ai, Op::Leave { panic: false });
        self.push(ai, Op::Collect { method: Method::FinishCycle, cont: Cont::Drop, fault: None });
        // park mid-cycle
        match self.rng.below(4) {
            0 => self.push(ai, Op::Collect { method: Method::FinishMarking, cont: Cont::Drop, fault: None }),
            1 => self.push(ai, Op::Collect { method: Method::FinishMarking, cont: Cont::Sweep, fault: None }),
            2 => {
                self.push(ai, Op::Adjust(dy(16, 0)));
                self.push(ai, Op::Collect { method: Method::MarkDebt, cont: Cont::Drop, fault: None });
            }
            _ => {
                self.push(ai, Op::Adjust(dy(16, 0)));
                self.push(ai, Op::Collect { method: Method::MarkDebt, cont: Cont::Sweep, fault: None });
            }
        }
        // survivors (upper estimate) and the sleep they buy
        let surv = held + s - replaced.min(held);
        let sleep = if stw { surv } else { surv.div_ceil(2) };
        let wake = sleep.max(ms);
        // the burst: garbage, far more than the sleep amount plus the work of a whole cycle
        let burst = 4 * wake + 2 * surv + 8;
        self.push(ai, Op::Enter(Cb::Mutate));
        for _ in 0..burst {
            self.push(ai, Op::Alloc { kind: Kind::Leaf, slots: vec![] });
        }
        self.push(ai, Op::Leave { panic: false });
        self.push(ai, Op::Collect { method: Method::CollectDebt, cont: Cont::Drop, fault: None });
        // one by one, until (past) the wake-up amount
        for _ in 0..wake + 2 {
            self.push(ai, Op::Enter(Cb::Mutate));
            self.push(ai, Op::Alloc { kind: Kind::Leaf, slots: vec![] });
            self.push(ai, Op::Leave { panic: false });
            let method = if self.rng.chance(1, 2) { Method::CollectDebt } else { Method::CycleDebt };
            self.push(ai, Op::Collect { method, cont: Cont::Drop, fault: None });
        }
        self.cb_stack.clear();
    }

    /// Script (C07): `is_dead` on pointers the marker never traced.  From Sleep, build T, an
    /// optional D and a holder H with a *weak* slot -> T (and a strong slot -> D); the root holds
    /// only a weak pointer to H.  `finish_marking` straight from Sleeping (no mutation since marking
    /// began) and, inside `finalize`: the root's weak pointer (target weakly marked), then — through
    /// `upgrade` — H's own weak slot (target plain white: never traced), H's strong slot, and a weak
    /// pointer made by `downgrade` inside the callback.  All four targets are unreachable: `is_dead`
    /// must say so, for `Gc` and `GcWeak` alike.
    fn dead_weak_script(&mut self, w: &World, ai: usize) {
        if w.arenas[ai].phase != b'Z' {
            self.push(ai, Op::Collect { method: Method::FinishCycle, cont: Cont::Drop, fault: None });
        }
        let n = w.arenas[ai].shadow.objs.len() as u32;
        let ri = self.rng.below(4);
        let with_d = self.rng.chance(2, 3);
        let tk = [Kind::Node, Kind::Node, Kind::Leaf, Kind::DynNode][self.rng.below(4)];
        self.push(ai, Op::Enter(Cb::MutateRoot));
        self.push(ai, Op::Alloc { kind: tk, slots: vec![None; tk.alloc_args()] });
        self.push(ai, Op::Downgrade(n));
        let mut h = n + 1;
        let d = if with_d {
            self.push(ai, Op::Alloc { kind: Kind::Node, slots: vec![None, None, None] });
            h += 1;
            Some(n + 1)
        } else {
            None
        };
        let (wi, si) = [(0, 1), (1, 2), (2, 0)][self.rng.below(3)];
        let mut slots = vec![None, None, None];
        slots[wi] = Some(SP::W(n));
        slots[si] = d.map(SP::S);
        let hk = if self.rng.chance(1, 4) { Kind::DynNode } else { Kind::Node };
        self.push(ai, Op::Alloc { kind: hk, slots });
        self.push(ai, Op::Downgrade(h));
        self.push(ai, Op::RootStore { i: ri, v: Some(SP::W(h)) });
        self.push(ai, Op::Leave { panic: false });
        self.push(ai, Op::Collect { method: Method::FinishMarking, cont: Cont::Finalize, fault: None });
        // inside finalize (the executor enters it by itself; `want_finalize` says yes)
        self.push(ai, Op::ReadRoot(ri));
        self.push(ai, Op::IsDead(SP::W(h)));
        self.push(ai, Op::Upgrade(h));
        self.push(ai, Op::Read(h, wi));
        self.push(ai, Op::IsDead(SP::W(n)));
        if let Some(d) = d {
            self.push(ai, Op::Read(h, si));
            self.push(ai, Op::IsDead(SP::S(d)));
            self.push(ai, Op::Downgrade(d));
            self.push(ai, Op::IsDead(SP::W(d)));
        }
        self.push(ai, Op::IsDead(SP::S(h)));
        if self.rng.chance(1, 3) {
            // a finalizer of the form "if dead then resurrect" (is_dead is true here)
            self.push(ai, Op::Resurrect(SP::W(n)));
        }
        self.push(ai, Op::Leave { panic: false });
        self.push(ai, Op::Collect { method: Method::FinishCycle, cont: Cont::Drop, fault: None });
    }

    /// Script (C09 rho-bound / C10 counters): writes to black, pointer-free lock cells while a cycle
    /// runs.  Default-like dyadic pacing (rho = 9/16); a holder node with three `leafcell`s in the
    /// root (H = 4); a full cycle; allocations past the wake-up amount and a `cycle_debt` that wakes
    /// the collector; then rounds of (one allocation, K in 1..=3 cell writes, `cycle_debt` or
    /// `collect_debt`) for at least 2 rho H / (1 - rho) rounds.  Each write re-queues a black cell
    /// and takes its (saturating) trace credit back; re-tracing it gives the credit again: writes
    /// alone pay nothing, so the cycle must complete within the rho-bound.
    fn leaf_write_soak(&mut self, w: &World, ai: usize) {
        let n = w.arenas[ai].shadow.objs.len() as u32;
        let reach = w.arenas[ai].shadow.reachable().len();
        let ms = 2;
        let p = PacingSpec { sleep: dy(1, 1), min_sleep: ms, mark: dy(1, 3), trace: dy(3, 3), keep: dy(1, 4), drop: dy(1, 2), free: dy(1, 2) };
        self.push(ai, Op::Pacing(p));
        self.push(ai, Op::Enter(Cb::MutateRoot));
        for _ in 0..3 {
            self.push(ai, Op::Alloc { kind: Kind::LeafCell, slots: vec![] });
        }
        self.push(ai, Op::Alloc { kind: Kind::Node, slots: vec![Some(SP::S(n)), Some(SP::S(n + 1)), Some(SP::S(n + 2))] });
        let ri = self.rng.below(4);
        self.push(ai, Op::RootStore { i: ri, v: Some(SP::S(n + 3)) });
        self.push(ai, Op::Leave { panic: false });
        self.push(ai, Op::Collect { method: Method::FinishCycle, cont: Cont::Drop, fault: None });
        // wake by allocation: past max(min_sleep, survivors / 2)
        let h = reach + 4;
        let wake = (h.div_ceil(2)).max(ms);
        self.push(ai, Op::Enter(Cb::Mutate));
        for _ in 0..wake + 1 {
            self.push(ai, Op::Alloc { kind: Kind::Leaf, slots: vec![] });
        }
        self.push(ai, Op::Leave { panic: false });
        self.push(ai, Op::Collect { method: Method::CycleDebt, cont: Cont::Drop, fault: None });
        // 2 rho H / (1 - rho) = 18 H / 7 rounds, and a few more
        let rounds = (18 * (h + wake + 1)).div_ceil(7) + 2;
        for _ in 0..rounds {
            self.push(ai, Op::Enter(Cb::Mutate));
            self.push(ai, Op::ReadRoot(ri));
            let k = 1 + self.rng.below(3);
            let first = self.rng.below(3);
            for c in 0..k {
                self.push(ai, Op::Read(n + 3, (first + c) % 3));
            }
            self.push(ai, Op::Alloc { kind: Kind::Leaf, slots: vec![] });
            for c in 0..k {
                self.push(ai, Op::Barrier(Barrier::CellSet(n + ((first + c) % 3) as u32)));
            }
            self.push(ai, Op::Leave { panic: false });
            let method = if self.rng.chance(3, 4) { Method::CycleDebt } else { Method::CollectDebt };
            self.push(ai, Op::Collect { method, cont: Cont::Drop, fault: None });
        }
        self.cb_stack.clear();
    }

    /// Script (C02 / C06): a backward barrier on a *black, non-tracing* object during Mark (a leaf,
    /// or the safe setter of a pointer-free lock cell), then the object is unrooted and two full
    /// cycles run: it must be destructed and released like any other garbage.
    fn gray_leaf_script(&mut self, w: &World, ai: usize) {
        let n = w.arenas[ai].shadow.objs.len() as u32;
        let cell = self.rng.chance(2, 3);
        let ri = self.rng.below(4);
        self.push(ai, Op::Enter(Cb::MutateRoot));
        self.push(ai, Op::Alloc { kind: if cell { Kind::LeafCell } else { Kind::Leaf }, slots: vec![] });
        self.push(ai, Op::RootStore { i: ri, v: Some(SP::S(n)) });
        self.push(ai, Op::Leave { panic: false });
        self.push(ai, Op::Collect { method: Method::FinishMarking, cont: Cont::Drop, fault: None });
        self.push(ai, Op::Enter(Cb::MutateRoot));
        self.push(ai, Op::ReadRoot(ri));
        self.push(ai, Op::Barrier(if cell { Barrier::CellSet(n) } else { Barrier::Bb(n, None) }));
        if self.rng.chance(3, 4) {
            self.push(ai, Op::RootStore { i: ri, v: None });
        }
        self.push(ai, Op::Leave { panic: false });
        self.push(ai, Op::Collect { method: Method::FinishCycle, cont: Cont::Drop, fault: None });
        self.push(ai, Op::Collect { method: Method::FinishCycle, cont: Cont::Drop, fault: None });
        self.cb_stack.clear();
    }

    /// an op that does nothing of interest: `readroot`, or — without a root — an allocation
    fn idle_op(&mut self, w: &World, ai: usize) {
        if w.arenas[ai].shadow.cb.is_some_and(|k| k.has_root()) && !w.arenas[ai].shadow.root.is_empty() {
            let i = self.rng.below(4);
            self.push(ai, Op::ReadRoot(i));
        } else {
            self.push(ai, Op::Alloc { kind: Kind::Node, slots: vec![None, None, None] });
        }
    }

    /// choose a value for a slot from what the callback holds
    fn slot_value(&mut self, w: &World, ai: usize, weak_bias: u32) -> SSlot {
        let sh = &w.arenas[ai].shadow;
        if sh.temps.is_empty() || self.rng.chance(1, 5) {
            return None;
        }
        let weak: Vec<SP> = sh.temps.iter().copied().filter(|p| matches!(p, SP::W(_))).collect();
        let strong: Vec<SP> = sh.temps.iter().copied().filter(|p| matches!(p, SP::S(_))).collect();
        if !weak.is_empty() && self.rng.chance(weak_bias, 10) {
            return self.rng.pick(&weak).copied();
        }
        self.rng.pick(&strong).copied().or_else(|| self.rng.pick(&weak).copied())
    }

    /// Scenario: a target that is (at most) weakly marked is upgraded and adopted by an already
    /// traced holder through a randomly chosen sanctioned path.  Returns false if the current
    /// state offers no such target.
    fn scenario_adopt_weak(&mut self, w: &World, ai: usize) -> bool {
        let sh = &w.arenas[ai].shadow;
        let cols = &w.arenas[ai].colors;
        let acc = sh.accessible();
        // weak slots of accessible objects (or the root) whose target is not marked strongly
        let mut cands: Vec<(Option<u32>, usize, u32)> = vec![];
        for (k, s) in sh.root.iter().enumerate() {
            if let Some(SP::W(t)) = s {
                cands.push((None, k, *t));
            }
        }
        let mut ids: Vec<u32> = acc.iter().copied().collect();
        ids.sort();
        for h in ids {
            let o = &sh.objs[h as usize];
            if o.dropped == 0 {
                for (k, s) in o.slots.iter().enumerate() {
                    if let Some(SP::W(t)) = s {
                        cands.push((Some(h), k, *t));
                    }
                }
            }
        }
        cands.retain(|(_, _, t)| sh.objs[*t as usize].dropped == 0 && matches!(cols.get(t).map(|c| c.0), Some(b'w') | Some(b'W')));
        let Some((h, k, t)) = self.rng.pick(&cands).copied() else { return false };
        // a traced holder to adopt it
        let mut parents: Vec<u32> = acc.iter().copied().filter(|i| Self::can_adopt(sh, *i) && cols.get(i).map(|c| c.0) == Some(b'B')).collect();
        parents.sort();
        let Some(p) = self.rng.pick(&parents).copied() else { return false };
        let pk = sh.objs[p as usize].kind;
        match h {
            None => self.push(ai, Op::ReadRoot(k)),
            Some(h) => {
                if !sh.holds(SP::S(h)) {
                    match sh.path_to(h) {
                        Some(path) => path.into_iter().for_each(|op| self.push(ai, op)),
                        None => return false,
                    }
                }
                self.push(ai, Op::Read(h, k));
            }
        }
        self.push(ai, Op::Upgrade(t));
        if !sh.holds(SP::S(p)) {
            match sh.path_to(p) {
                Some(path) => path.into_iter().for_each(|op| self.push(ai, op)),
                None => return false,
            }
        }
        let i = self.rng.below(pk.nslots());
        match self.rng.below(7) {
            0 => self.emit_store(ai, pk, p, i, Some(SP::S(t)), 0, None),
            1 => self.emit_store(ai, pk, p, i, Some(SP::S(t)), 1, None),
            n => {
                let b = match n {
                    2 => Barrier::Bb(p, None),
                    3 | 4 => Barrier::Bb(p, Some(t)),
                    5 => Barrier::Fb(None, t),
                    _ => Barrier::Fb(Some(p), t),
                };
                self.emit_store(ai, pk, p, i, Some(SP::S(t)), 2, Some(b));
            }
        }
        true
    }

    /// Scenario: during marking, *move* a weak pointer whose target is not (yet) weakly marked — a
    /// live object or the value-less shell of one destructed in an earlier cycle — from a holder
    /// the marker has not traced yet into a holder that is already black, through one of the weak
    /// barrier paths, and clear it in the old holder: from then on only the barrier keeps the
    /// block queryable through the sweep.
    fn scenario_move_weak(&mut self, w: &World, ai: usize) -> bool {
        let sh = &w.arenas[ai].shadow;
        let cols = &w.arenas[ai].colors;
        let acc = sh.accessible();
        let mut cands: Vec<(u32, usize, u32)> = vec![];
        let mut ids: Vec<u32> = acc.iter().copied().collect();
        ids.sort();
        for h in ids {
            let o = &sh.objs[h as usize];
            // the old holder: not traced yet (white or queued); its slot can be cleared afterwards
            if o.dropped == 0 && !o.leaf && o.kind != Kind::OnceCell && matches!(cols.get(&h).map(|c| c.0), Some(b'W') | Some(b'G') | Some(b'w')) {
                for (k, s) in o.slots.iter().enumerate() {
                    if let Some(SP::W(t)) = s {
                        // target not weakly marked yet; shells (destructed earlier) preferred
                        if sh.objs[*t as usize].freed == 0 && cols.get(t).map(|c| c.0) == Some(b'W') {
                            cands.push((h, k, *t));
                            if sh.objs[*t as usize].dropped > 0 {
                                cands.push((h, k, *t));
                                cands.push((h, k, *t));
                            }
                        }
                    }
                }
            }
        }
        let Some((h, k, t)) = self.rng.pick(&cands).copied() else { return false };
        let mut parents: Vec<u32> = acc.iter().copied().filter(|i| *i != h && Self::can_adopt(sh, *i) && cols.get(i).map(|c| c.0) == Some(b'B')).collect();
        parents.sort();
        let Some(p) = self.rng.pick(&parents).copied() else { return false };
        let pk = sh.objs[p as usize].kind;
        let hk = sh.objs[h as usize].kind;
        if !sh.holds(SP::S(h)) {
            match sh.path_to(h) {
                Some(path) => path.into_iter().for_each(|op| self.push(ai, op)),
                None => return false,
            }
        }
        self.push(ai, Op::Read(h, k));
        if !sh.holds(SP::S(p)) {
            match sh.path_to(p) {
                Some(path) => path.into_iter().for_each(|op| self.push(ai, op)),
                None => return false,
            }
        }
        let i = self.rng.below(pk.nslots());
        match self.rng.below(7) {
            0 => self.emit_store(ai, pk, p, i, Some(SP::W(t)), 0, None),
            1 => self.emit_store(ai, pk, p, i, Some(SP::W(t)), 1, None),
            n => {
                let b = match n {
                    2 | 3 | 4 => Barrier::Bbw(p, t),
                    5 => Barrier::Fbw(None, t),
                    _ => Barrier::Fbw(Some(p), t),
                };
                self.emit_store(ai, pk, p, i, Some(SP::W(t)), 2, Some(b));
            }
        }
        // forget it in the old holder
        self.emit_store(ai, hk, h, k, None, 0, None);
        true
    }

    /// Scenario (mirror of `scenario_move_weak`, for strong pointers and *fresh* holders): during
    /// marking, an older object `c` that the marker has not reached yet — read from a holder that is
    /// still white or queued, or obtained by upgrading a weak pointer to a weakly marked target — is
    /// put in the INITIAL slots of a new tracing allocation `n`; `n` is attached to an already black
    /// owner through a sanctioned path; the old edge to `c` is cleared.  From then on `c` is
    /// reachable only through `n`, whose initial contents the marker must still trace.  Followed by
    /// two full cycles.
    fn scenario_move_into_fresh(&mut self, w: &World, ai: usize) -> bool {
        let sh = &w.arenas[ai].shadow;
        let cols = &w.arenas[ai].colors;
        let col = |i: u32| cols.get(&i).map(|c| c.0);
        let reach = sh.reachable();
        let acc = sh.accessible();
        let mut ids: Vec<u32> = acc.iter().copied().collect();
        ids.sort();
        // (holder, slot, child, via upgrade)
        let mut cands: Vec<(u32, usize, u32, bool)> = vec![];
        for h in &ids {
            let o = &sh.objs[*h as usize];
            if o.dropped > 0 || o.leaf || o.kind == Kind::OnceCell {
                continue;
            }
            for (k, s) in o.slots.iter().enumerate() {
                match s {
                    // strong edge from a holder the marker has not traced yet to a white child
                    Some(SP::S(c)) if matches!(col(*h), Some(b'W') | Some(b'G') | Some(b'w')) && matches!(col(*c), Some(b'W') | Some(b'w')) && sh.objs[*c as usize].dropped == 0 && c != h => cands.push((*h, k, *c, false)),
                    // weak edge (any holder) to a target that is at most weakly marked
                    Some(SP::W(c)) if matches!(col(*c), Some(b'w') | Some(b'W')) && sh.objs[*c as usize].dropped == 0 && c != h => cands.push((*h, k, *c, true)),
                    _ => {}
                }
            }
        }
        let Some((h, k, c, up)) = self.rng.pick(&cands).copied() else { return false };
        let mut owners: Vec<u32> = reach.iter().copied().filter(|i| *i != h && *i != c && Self::can_adopt(sh, *i) && col(*i) == Some(b'B')).collect();
        owners.sort();
        let Some(p) = self.rng.pick(&owners).copied() else { return false };
        let (pk, hk) = (sh.objs[p as usize].kind, sh.objs[h as usize].kind);
        if !sh.holds(SP::S(h)) {
            match sh.path_to(h) {
                Some(path) => path.into_iter().for_each(|op| self.push(ai, op)),
                None => return false,
            }
        }
        self.push(ai, Op::Read(h, k));
        if up {
            self.push(ai, Op::Upgrade(c));
        }
        if !sh.holds(SP::S(p)) {
            match sh.path_to(p) {
                Some(path) => path.into_iter().for_each(|op| self.push(ai, op)),
                None => return false,
            }
        }
        let n = sh.objs.len() as u32;
        let nk = if self.dyn_kinds() && self.rng.chance(1, 4) { Kind::DynNode } else if self.lock_kinds() && self.rng.chance(1, 4) { Kind::RefNode } else { Kind::Node };
        let mut slots = vec![None, None, None];
        slots[self.rng.below(3)] = Some(SP::S(c));
        self.push(ai, Op::Alloc { kind: nk, slots });
        let i = self.rng.below(pk.nslots());
        let route = if self.rng.chance(1, 6) { 1 } else { 0 };
        self.emit_store(ai, pk, p, i, Some(SP::S(n)), route, None);
        if !up {
            // forget the old edge: only the fresh object holds c now
            self.emit_store(ai, hk, h, k, None, 0, None);
        }
        self.want_reclaim = true;
        true
    }

    /// Scenario: during a sweep, a forward barrier naming a holder the sweep has not reached yet
    /// (still black) and a fresh object that is then forgotten; followed by finish_cycle x2.
    fn scenario_barrier_in_sweep(&mut self, w: &World, ai: usize) -> bool {
        let sh = &w.arenas[ai].shadow;
        let cols = &w.arenas[ai].colors;
        let mut parents: Vec<u32> = sh.accessible().into_iter().filter(|i| !sh.objs[*i as usize].leaf && cols.get(i).map(|c| c.0) == Some(b'B')).collect();
        parents.sort();
        let Some(p) = self.rng.pick(&parents).copied() else { return false };
        if !sh.holds(SP::S(p)) {
            match sh.path_to(p) {
                Some(path) => path.into_iter().for_each(|op| self.push(ai, op)),
                None => return false,
            }
        }
        let id = sh.objs.len() as u32;
        let leaf = self.rng.chance(1, 3);
        self.push(ai, Op::Alloc { kind: Kind::of_leaf(leaf), slots: if leaf { vec![] } else { vec![None, None, None] } });
        let b = match self.rng.below(4) {
            0 => Barrier::Fb(Some(p), id),
            1 => Barrier::Fb(None, id),
            2 => Barrier::Bb(p, Some(id)),
            _ => Barrier::Fb(Some(p), id),
        };
        self.push(ai, Op::Barrier(b));
        self.want_reclaim = true;
        true
    }

    fn callback_op(&mut self, w: &World, ai: usize) {
        if w.arenas[ai].phase == b'S' && self.rng.chance(1, 10) && self.scenario_barrier_in_sweep(w, ai) {
            return;
        }
        if w.arenas[ai].phase == b'M' && self.lock_kinds() && self.rng.chance(1, 4) && self.scenario_lock_setter(w, ai) {
            return;
        }
        if w.arenas[ai].phase == b'M' && self.rng.chance(1, 3) && self.scenario_adopt_weak(w, ai) {
            return;
        }
        if w.arenas[ai].phase == b'M' && self.rng.chance(1, 3) && self.scenario_move_weak(w, ai) {
            return;
        }
        if w.arenas[ai].phase == b'M'
            && matches!(self.profile, Profile::Core | Profile::Barrier | Profile::Weak | Profile::Reclaim)
            && self.rng.chance(1, 3)
            && self.scenario_move_into_fresh(w, ai)
        {
            return;
        }
        if self.rng.chance(1, 14) {
            // plant an object that is held weakly only
            let sh = &w.arenas[ai].shadow;
            let holders: Vec<u32> = sh.temps.iter().filter_map(|p| if let SP::S(i) = p { Some(*i) } else { None }).filter(|i| Self::can_adopt(sh, *i) && sh.objs[*i as usize].kind != Kind::OnceCell).collect();
            if let Some(h) = self.rng.pick(&holders).copied() {
                let id = sh.objs.len() as u32;
                let hk = sh.objs[h as usize].kind;
                let k = self.rng.below(hk.nslots());
                let tk = if self.lock_kinds() { [Kind::Node, Kind::DynNode, Kind::RefNode, Kind::LockCell, Kind::OnceCell][self.rng.below(5)] } else if self.dyn_kinds() && self.rng.chance(1, 3) { Kind::DynNode } else { Kind::Node };
                self.push(ai, Op::Alloc { kind: tk, slots: vec![None; tk.alloc_args()] });
                self.push(ai, Op::Downgrade(id));
                self.emit_store(ai, hk, h, k, Some(SP::W(id)), 0, None);
                return;
            }
        }
        let sh = &w.arenas[ai].shadow;
        let kind = sh.cb.unwrap();
        let strong: Vec<u32> = sh.temps.iter().filter_map(|p| if let SP::S(i) = p { Some(*i) } else { None }).collect();
        let weak: Vec<u32> = sh.temps.iter().filter_map(|p| if let SP::W(i) = p { Some(*i) } else { None }).collect();
        let nodes: Vec<u32> = strong.iter().copied().filter(|i| !sh.objs[*i as usize].leaf).collect();
        let (w_nav, w_alloc, w_store, w_root, w_weak, w_barrier, w_fin) = match self.profile {
            Profile::Core | Profile::Multi | Profile::Reclaim => (25, 20, 30, 10, 10, 3, 0),
            Profile::Weak => (20, 15, 25, 8, 30, 2, 0),
            Profile::Barrier => (20, 15, 35, 5, 10, 15, 0),
            Profile::Finalize => (20, 15, 20, 8, 17, 3, 0),
            Profile::Protocol | Profile::Pacing => (15, 35, 25, 10, 10, 5, 0),
            Profile::Metrics => (20, 25, 20, 5, 10, 20, 0),
            Profile::Fault => (25, 20, 30, 10, 10, 5, 0),
            Profile::Soak => (10, 40, 30, 10, 10, 0, 0),
        };
        let w_fin = if kind == Cb::Finalize { 40 } else { w_fin };
        let total = w_nav + w_alloc + w_store + w_root + w_weak + w_barrier + w_fin;
        let mut r = self.rng.below(total);
        let weak_bias = if self.profile == Profile::Weak { 5 } else { 2 };
        // navigate
        if r < w_nav {
            let reach: Vec<u32> = {
                let mut v: Vec<u32> = sh.accessible().into_iter().filter(|i| !sh.holds(SP::S(*i))).collect();
                v.sort();
                v
            };
            if let Some(t) = self.rng.pick(&reach).copied() {
                if let Some(path) = sh.path_to(t) {
                    for op in path {
                        self.push(ai, op);
                    }
                    return;
                }
            }
            // also read weak slots of held nodes
            if let Some(p) = self.rng.pick(&nodes).copied() {
                let i = self.rng.below(sh.objs[p as usize].kind.nslots());
                self.push(ai, Op::Read(p, i));
                return;
            }
            return self.idle_op(w, ai);
        }
        r -= w_nav;
        if r < w_alloc {
            let leaf_odds = if self.profile == Profile::Metrics { 4 } else { 1 };
            if self.rng.chance(leaf_odds, 10) {
                // non-tracing objects: plain leaves, and (where barriers / metrics are the subject)
                // cells whose whole value is a pointer-free lock
                let cell = matches!(self.profile, Profile::Metrics | Profile::Pacing | Profile::Barrier | Profile::Reclaim | Profile::Core | Profile::Weak) && self.rng.chance(1, 2);
                self.push(ai, Op::Alloc { kind: if cell { Kind::LeafCell } else { Kind::Leaf }, slots: vec![] });
            } else {
                // the lock-valued kinds, in the profiles that use them (an empty OnceCell keeps trace
                // faults from being injected, so the fault profile allocates few and fills most at once)
                let kind = if self.lock_kinds() {
                    let once = if self.profile == Profile::Fault { 3 } else { 10 };
                    match self.rng.below(100) {
                        n if n < 55 => Kind::Node,
                        n if n < 75 => Kind::RefNode,
                        n if n < 100 - once => Kind::LockCell,
                        _ => Kind::OnceCell,
                    }
                } else {
                    Kind::Node
                };
                // trait-object holders (`dyn_collect!`), wherever the graph-shaped profiles allocate nodes
                let kind = if kind == Kind::Node && self.dyn_kinds() && self.rng.chance(1, 4) { Kind::DynNode } else { kind };
                let slots: Vec<SSlot> = (0..kind.alloc_args()).map(|_| if self.rng.chance(1, 2) { None } else { self.slot_value(w, ai, weak_bias) }).collect();
                self.push(ai, Op::Alloc { kind, slots });
                if kind == Kind::OnceCell && self.rng.chance(if self.profile == Profile::Fault { 3 } else { 1 }, 4) {
                    let id = w.arenas[ai].shadow.objs.len() as u32;
                    let held: Vec<SP> = w.arenas[ai].shadow.temps.iter().copied().filter(|t| matches!(t, SP::S(_))).collect();
                    match self.rng.pick(&held).copied() {
                        Some(t) if self.rng.chance(2, 3) => {
                            let path = if self.rng.chance(2, 3) { Path::OnceSet } else { Path::GetOrInit };
                            self.push(ai, Op::Store { path, p: id, i: 0, v: Some(t) });
                        }
                        _ => self.push(ai, Op::Store { path: Path::GetOrInit, p: id, i: 0, v: Some(SP::S(id + 1)) }),
                    }
                }
            }
            return;
        }
        r -= w_alloc;
        if r < w_store {
            let cols = &w.arenas[ai].colors;
            let marking = w.arenas[ai].phase == b'M';
            // in the mark phase prefer the combinations a barrier exists for: black holder,
            // white / white-weak target
            let black_nodes: Vec<u32> = nodes.iter().copied().filter(|i| cols.get(i).map(|c| c.0) == Some(b'B')).collect();
            let pick_parent = if marking && !black_nodes.is_empty() && self.rng.chance(2, 3) { self.rng.pick(&black_nodes).copied() } else { self.rng.pick(&nodes).copied() };
            if let Some(p) = pick_parent {
                let pk = sh.objs[p as usize].kind;
                let i = self.rng.below(pk.nslots());
                let mut v = self.slot_value(w, ai, weak_bias);
                if marking && self.rng.chance(1, 2) {
                    let unmarked: Vec<SP> = sh.temps.iter().copied().filter(|t| matches!(cols.get(&t.id()).map(|c| c.0), Some(b'W') | Some(b'w') | None)).collect();
                    if let Some(t) = self.rng.pick(&unmarked).copied() {
                        v = Some(t);
                    }
                }
                if pk == Kind::OnceCell {
                    // a OnceLock takes a value, once; on an occupied cell the setters are reads
                    if v.is_none() {
                        v = sh.temps.iter().copied().find(|t| matches!(t, SP::S(_)));
                    }
                    let occupied = !Self::can_adopt(sh, p);
                    let fresh = Some(SP::S(sh.objs.len() as u32));
                    match self.rng.below(8) {
                        0 | 1 | 2 if v.is_some() => self.push(ai, Op::Store { path: Path::OnceSet, p, i, v }),
                        3 | 4 if v.is_some() => self.push(ai, Op::Store { path: Path::GetOrInit, p, i, v }),
                        5 if v.is_some() && !occupied => {
                            self.push(ai, Op::Barrier(Barrier::Bb(p, None)));
                            self.push(ai, Op::Store { path: Path::Raw, p, i, v });
                        }
                        _ => self.push(ai, Op::Store { path: Path::GetOrInit, p, i, v: fresh }),
                    }
                    return;
                }
                let explicit = match self.profile {
                    Profile::Barrier => 6,
                    Profile::Metrics => 3,
                    _ => 2,
                };
                let k = self.rng.below(10);
                if k < explicit as usize {
                    // explicit barrier, then a barrier-less store
                    let sh = &w.arenas[ai].shadow;
                    let b = match v {
                        None => None,
                        Some(SP::S(c)) => Some(match self.rng.below(4) {
                            0 => Barrier::Bb(p, None),
                            1 => Barrier::Bb(p, Some(c)),
                            2 => Barrier::Fb(None, c),
                            _ => Barrier::Fb(Some(p), c),
                        }),
                        Some(SP::W(c)) => {
                            let has_strong = sh.holds(SP::S(c));
                            Some(match self.rng.below(if has_strong { 6 } else { 4 }) {
                                0 => Barrier::Bb(p, None),
                                1 => Barrier::Bbw(p, c),
                                2 => Barrier::Fbw(None, c),
                                3 => Barrier::Fbw(Some(p), c),
                                4 => Barrier::Bb(p, Some(c)),
                                _ => Barrier::Fb(None, c),
                            })
                        }
                    };
                    if let Some(b) = b {
                        self.push(ai, Op::Barrier(b));
                    }
                    self.push(ai, Op::Store { path: Path::Raw, p, i, v });
                } else if k == 9 {
                    self.push(ai, Op::Store { path: Path::Stb, p, i, v });
                } else {
                    let path = self.sanctioned_path(pk, &v);
                    self.push(ai, Op::Store { path, p, i, v });
                }
                return;
            }
            self.push(ai, Op::Alloc { kind: Kind::Node, slots: vec![None, None, None] });
            return;
        }
        r -= w_store;
        if r < w_root {
            if kind.root_mut() && !sh.root.is_empty() {
                let i = self.rng.below(4);
                let v = self.slot_value(w, ai, weak_bias);
                self.push(ai, Op::RootStore { i, v });
            } else {
                self.idle_op(w, ai);
            }
            return;
        }
        r -= w_root;
        if r < w_weak {
            let cols = &w.arenas[ai].colors;
            let ww: Vec<u32> = weak.iter().copied().filter(|i| cols.get(i).map(|c| c.0) == Some(b'w') && !sh.holds(SP::S(*i))).collect();
            if !ww.is_empty() && self.rng.chance(1, 2) {
                let x = *self.rng.pick(&ww).unwrap();
                self.push(ai, Op::Upgrade(x));
                return;
            }
            match self.rng.below(3) {
                0 => {
                    if let Some(p) = self.rng.pick(&strong).copied() {
                        self.push(ai, Op::Downgrade(p));
                        return;
                    }
                }
                1 => {
                    if let Some(x) = self.rng.pick(&weak).copied() {
                        self.push(ai, Op::Upgrade(x));
                        return;
                    }
                }
                _ => {
                    if let Some(x) = self.rng.pick(&weak).copied() {
                        self.push(ai, Op::IsDropped(x));
                        return;
                    }
                }
            }
            return self.idle_op(w, ai);
        }
        r -= w_weak;
        if r < w_barrier {
            // barrier-only op on arbitrary held pointers (including non-tracing objects)
            let cells: Vec<u32> = strong.iter().copied().filter(|i| sh.objs[*i as usize].kind == Kind::LeafCell).collect();
            if !cells.is_empty() && self.rng.chance(1, 3) {
                // the safe setter of a pointer-free lock cell; a black one if there is one
                let cols = &w.arenas[ai].colors;
                let black: Vec<u32> = cells.iter().copied().filter(|i| cols.get(i).map(|c| c.0) == Some(b'B')).collect();
                let c = *self.rng.pick(if black.is_empty() { &cells } else { &black }).unwrap();
                self.push(ai, Op::Barrier(Barrier::CellSet(c)));
                return;
            }
            let p = self.rng.pick(&strong).copied();
            let c = self.rng.pick(&strong).copied();
            let wk = self.rng.pick(&weak).copied();
            let b = match (self.rng.below(7), p, c, wk) {
                (0, Some(p), _, _) => Some(Barrier::Bb(p, None)),
                (1, Some(p), Some(c), _) => Some(Barrier::Bb(p, Some(c))),
                (2, Some(p), _, Some(w)) => Some(Barrier::Bbw(p, w)),
                (3, _, Some(c), _) => Some(Barrier::Fb(None, c)),
                (4, Some(p), Some(c), _) => Some(Barrier::Fb(Some(p), c)),
                (5, _, _, Some(w)) => Some(Barrier::Fbw(None, w)),
                (6, Some(p), _, Some(w)) => Some(Barrier::Fbw(Some(p), w)),
                _ => p.map(|p| Barrier::Bb(p, None)),
            };
            match b {
                Some(b) => self.push(ai, Op::Barrier(b)),
                None => self.idle_op(w, ai),
            }
            return;
        }
        // finalize-only queries
        let any: Vec<SP> = sh.temps.clone();
        if let Some(p) = self.rng.pick(&any).copied() {
            if self.rng.chance(6, 10) {
                self.push(ai, Op::IsDead(p));
            } else {
                let undropped = sh.objs[p.id() as usize].dropped == 0;
                if matches!(p, SP::W(_)) || undropped {
                    self.push(ai, Op::Resurrect(p));
                } else {
                    self.push(ai, Op::IsDead(p));
                }
            }
        } else {
            self.idle_op(w, ai);
        }
    }

    /// One round of the soak workload: a holder that references a fresh object weakly and then
    /// strongly (in trace order: slot 0 weak, slot 1 strong), chained to the previous holder and
    /// hung from the root; then one debt-driven call.
    /// Soak variant for the weak path of the pacing bound: many objects that are alive at wake-up
    /// and reachable only through `GcWeak` (their strong chain is cut while asleep), under a
    /// pacing with a small rho in which `free` is much larger than `drop` — so that crediting the
    /// weak path (marked + dropped + remembered) with the wrong factor breaks the rho-bound.
    fn weak_soak_round(&mut self, w: &World, ai: usize) -> bool {
        match self.weak_soak {
            2 => {
                // rho = 7/64: mark+trace+keep = 5/64, drop+free = 7/64, mark+drop+keep = 4/64
                let p = PacingSpec { sleep: dy(1, 4), min_sleep: 4, mark: dy(2, 6), trace: dy(1, 6), keep: dy(2, 6), drop: dy(0, 0), free: dy(7, 6) };
                self.soak_pacing = Some(p);
                self.push(ai, Op::Pacing(p));
                // holders (strong chain from root slot 0) hold only weak pointers to the targets;
                // the targets form a strong chain of their own from root slot 1
                let n0 = w.arenas[ai].shadow.objs.len() as u32;
                let pairs = 40 + self.rng.below(12) as u32;
                self.push(ai, Op::Enter(Cb::MutateRoot));
                let mut id = n0;
                let mut prev_t: Option<u32> = None;
                let mut prev_h: Option<u32> = None;
                for _ in 0..pairs {
                    let (ta, tb, h) = (id, id + 1, id + 2);
                    self.push(ai, Op::Alloc { kind: Kind::Node, slots: vec![prev_t.map(SP::S), None, None] });
                    self.push(ai, Op::Alloc { kind: Kind::Node, slots: vec![Some(SP::S(ta)), None, None] });
                    self.push(ai, Op::Downgrade(ta));
                    self.push(ai, Op::Downgrade(tb));
                    self.push(ai, Op::Alloc { kind: Kind::Node, slots: vec![prev_h.map(SP::S), Some(SP::W(ta)), Some(SP::W(tb))] });
                    prev_t = Some(tb);
                    prev_h = Some(h);
                    id += 3;
                }
                self.push(ai, Op::RootStore { i: 0, v: prev_h.map(SP::S) });
                self.push(ai, Op::RootStore { i: 1, v: prev_t.map(SP::S) });
                self.push(ai, Op::Leave { panic: false });
                self.cb_stack.clear();
                // a first full cycle: everything survives, the wake-up threshold is set
                self.push(ai, Op::Collect { method: Method::FinishCycle, cont: Cont::Drop, fault: None });
                // cut the targets' strong chain while asleep: they stay reachable weakly only
                self.push(ai, Op::Enter(Cb::MutateRoot));
                self.push(ai, Op::RootStore { i: 1, v: None });
                self.push(ai, Op::Leave { panic: false });
                self.weak_soak = 3;
                true
            }
            3 => {
                // one garbage allocation, then a cycle_debt step: wakes in small debt, then runs on
                self.push(ai, Op::Enter(Cb::Mutate));
                self.push(ai, Op::Alloc { kind: Kind::Leaf, slots: vec![] });
                self.push(ai, Op::Leave { panic: false });
                self.cb_stack.clear();
                self.push(ai, Op::Collect { method: Method::CycleDebt, cont: Cont::Drop, fault: None });
                true
            }
            _ => false,
        }
    }

    fn soak_round(&mut self, w: &World, ai: usize) {
        if self.weak_soak == 0 {
            self.weak_soak = if self.soak_pacing.is_none() && self.rng.chance(1, 3) { 2 } else { 1 };
        }
        if self.weak_soak >= 2 && self.weak_soak_round(w, ai) {
            return;
        }
        if self.soak_pacing.is_none() {
            let fams = [
                // (mark, trace, keep, drop, free) in sixteenths; rho = 15/16
                (7, 7, 1, 7, 8),
                (6, 8, 1, 8, 7),
                (4, 10, 1, 10, 5),
                (7, 4, 4, 4, 11),
            ];
            let (m, t, k, d, f) = fams[self.rng.below(fams.len())];
            let p = PacingSpec { sleep: dy(1, 2), min_sleep: 1 + self.rng.below(3), mark: dy(m, 4), trace: dy(t, 4), keep: dy(k, 4), drop: dy(d, 4), free: dy(f, 4) };
            self.soak_pacing = Some(p);
            self.push(ai, Op::Pacing(p));
            return;
        }
        let sh = &w.arenas[ai].shadow;
        let x = sh.objs.len() as u32;
        let weak_first = self.rng.chance(3, 4);
        let garbage = self.rng.chance(1, 5);
        self.push(ai, Op::Enter(Cb::MutateRoot));
        let mut extra = 0;
        if let Some(prev) = self.soak_prev {
            if sh.reachable().contains(&prev) {
                self.push(ai, Op::ReadRoot(0));
            } else {
                self.soak_prev = None;
            }
        }
        self.push(ai, Op::Alloc { kind: Kind::Node, slots: vec![None, None, None] });
        self.push(ai, Op::Downgrade(x));
        let prev_slot = self.soak_prev.map(SP::S);
        let slots = if weak_first { vec![Some(SP::W(x)), Some(SP::S(x)), prev_slot] } else { vec![Some(SP::S(x)), Some(SP::W(x)), prev_slot] };
        self.push(ai, Op::Alloc { kind: Kind::Node, slots });
        if garbage {
            let leaf = self.rng.chance(1, 2);
            self.push(ai, Op::Alloc { kind: Kind::of_leaf(leaf), slots: if leaf { vec![] } else { vec![None, None, None] } });
            extra = 1;
        }
        let _ = extra;
        self.push(ai, Op::RootStore { i: 0, v: Some(SP::S(x + 1)) });
        self.push(ai, Op::Leave { panic: false });
        self.cb_stack.clear();
        self.soak_prev = Some(x + 1);
        let method = if self.rng.chance(5, 6) { Method::CycleDebt } else { Method::CollectDebt };
        self.push(ai, Op::Collect { method, cont: Cont::Drop, fault: None });
    }

    /// Pacing under which every marking step pays 16 units: with a debt of 1, each `mark_debt`
    /// call performs exactly one `mark_one` that marks or traces something.
    fn step_pacing() -> PacingSpec {
        PacingSpec { sleep: dy(1, 1), min_sleep: 4, mark: dy(16, 0), trace: dy(16, 0), keep: dy(0, 0), drop: dy(0, 0), free: dy(0, 0) }
    }

    /// Push an `adjust` that makes the debt exactly 1 under `step_pacing` (from the counters).
    fn adjust_debt_to_one(&mut self, w: &World, ai: usize) -> bool {
        let Some(m) = w.arenas[ai].metrics.as_ref() else { return false };
        let c = m.verif_counters();
        if c.total_gcs == 0 {
            return false;
        }
        let debits = c.allocated_gcs as f64 - c.wakeup_amount + c.artificial_debt;
        let credits = 16.0 * (c.marked_gcs as f64 + c.traced_gcs as f64);
        match dy_exact(1.0 - (debits - credits)) {
            Some(d) => {
                self.push(ai, Op::Adjust(d));
                true
            }
            None => false,
        }
    }

    /// One stage of the shell-move script (see `shell_script`).  Returns false when the script
    /// ended (or had to be abandoned because the observed state is not the expected one).
    fn shell_script_step(&mut self, w: &World) -> bool {
        let Some((stage, ai, b, a, t)) = self.shell_script else { return false };
        if ai >= w.arenas.len() || !w.arenas[ai].shadow.alive || w.arenas[ai].shadow.cb.is_some() {
            self.shell_script = None;
            return false;
        }
        let cols = &w.arenas[ai].colors;
        let col = |i: u32| cols.get(&i).map(|c| c.0);
        match stage {
            0 => {
                // root.0 -> b -> a -(weak)-> t ; two full cycles: t is destructed, its shell stays
                let leaf = self.rng.chance(1, 3);
                // the holder that ends up black: a Node, or an object whose whole value is a RefLock
                let bk = if self.lock_kinds() && self.rng.chance(1, 2) { Kind::RefNode } else { Kind::Node };
                self.push(ai, Op::Enter(Cb::MutateRoot));
                self.push(ai, Op::Alloc { kind: bk, slots: vec![None, None, None] });
                self.push(ai, Op::Alloc { kind: Kind::Node, slots: vec![None, None, None] });
                self.push(ai, Op::Alloc { kind: Kind::of_leaf(leaf), slots: if leaf { vec![] } else { vec![None, None, None] } });
                self.push(ai, Op::Downgrade(t));
                self.push(ai, Op::Store { path: Path::Write, p: a, i: 0, v: Some(SP::W(t)) });
                self.push(ai, Op::Store { path: Path::Write, p: b, i: 0, v: Some(SP::S(a)) });
                self.push(ai, Op::RootStore { i: 0, v: Some(SP::S(b)) });
                self.push(ai, Op::Leave { panic: false });
                self.push(ai, Op::Collect { method: Method::FinishCycle, cont: Cont::Drop, fault: None });
                self.push(ai, Op::Collect { method: Method::FinishCycle, cont: Cont::Drop, fault: None });
                self.shell_script = Some((1, ai, b, a, t));
                true
            }
            1 => {
                // asleep; t must be a shell now.  First marking step: wake + root trace (b queued)
                let sh = &w.arenas[ai].shadow;
                let shell = sh.objs.get(t as usize).map(|o| o.dropped == 1 && o.freed == 0).unwrap_or(false);
                if !shell || w.arenas[ai].phase != b'Z' {
                    self.shell_script = None;
                    return false;
                }
                self.push(ai, Op::Pacing(Self::step_pacing()));
                self.shell_script = Some((2, ai, b, a, t));
                true
            }
            2 => {
                if !self.adjust_debt_to_one(w, ai) {
                    self.shell_script = None;
                    return false;
                }
                self.push(ai, Op::Collect { method: Method::MarkDebt, cont: Cont::Drop, fault: None });
                self.shell_script = Some((3, ai, b, a, t));
                true
            }
            3 => {
                // b queued (gray), a white: trace b
                if w.arenas[ai].phase != b'M' || col(b) != Some(b'G') || col(a) != Some(b'W') {
                    self.shell_script = None;
                    return false;
                }
                if !self.adjust_debt_to_one(w, ai) {
                    self.shell_script = None;
                    return false;
                }
                self.push(ai, Op::Collect { method: Method::MarkDebt, cont: Cont::Drop, fault: None });
                self.shell_script = Some((4, ai, b, a, t));
                true
            }
            4 => {
                // b black, a queued, t (the shell) not weakly marked: move the weak pointer a -> b
                self.shell_script = None;
                if w.arenas[ai].phase != b'M' || col(b) != Some(b'B') || col(a) != Some(b'G') || col(t) != Some(b'W') {
                    return false;
                }
                self.push(ai, Op::Enter(Cb::Mutate));
                self.push(ai, Op::ReadRoot(0));
                self.push(ai, Op::Read(b, 0));
                self.push(ai, Op::Read(a, 0));
                let bk = w.arenas[ai].shadow.objs[b as usize].kind;
                match self.rng.below(7) {
                    0 => self.emit_store(ai, bk, b, 1, Some(SP::W(t)), 0, None),
                    1 => self.emit_store(ai, bk, b, 1, Some(SP::W(t)), 1, None),
                    n => {
                        let bar = match n {
                            2 | 3 | 4 => Barrier::Bbw(b, t),
                            5 => Barrier::Fbw(None, t),
                            _ => Barrier::Fbw(Some(b), t),
                        };
                        self.emit_store(ai, bk, b, 1, Some(SP::W(t)), 2, Some(bar));
                    }
                }
                self.push(ai, Op::Store { path: Path::Write, p: a, i: 0, v: None });
                self.push(ai, Op::Leave { panic: false });
                // finish the cycle, then query the weak pointer through its new holder
                self.push(ai, Op::Collect { method: Method::FinishCycle, cont: Cont::Drop, fault: None });
                self.push(ai, Op::Enter(Cb::Mutate));
                self.push(ai, Op::ReadRoot(0));
                self.push(ai, Op::Read(b, 1));
                self.push(ai, Op::IsDropped(t));
                self.push(ai, Op::Upgrade(t));
                self.push(ai, Op::Leave { panic: false });
                self.push(ai, Op::Collect { method: Method::FinishCycle, cont: Cont::Drop, fault: None });
                self.push(ai, Op::Enter(Cb::Mutate));
                self.push(ai, Op::ReadRoot(0));
                self.push(ai, Op::Read(b, 1));
                self.push(ai, Op::IsDropped(t));
                self.push(ai, Op::Leave { panic: false });
                true
            }
            _ => {
                self.shell_script = None;
                false
            }
        }
    }

    fn top_level(&mut self, w: &World) {
        // create arenas first
        if w.arenas.len() < self.narenas {
            let ai = w.arenas.len();
            // about one arena in six has a pointer-free root (NEEDS_TRACE = false); in the multi
            // profile the second arena often is one
            let plain = match self.profile {
                Profile::Protocol | Profile::Pacing | Profile::Core => self.rng.chance(1, 6),
                Profile::Multi => ai == 1 && self.rng.chance(1, 2),
                _ => false,
            };
            self.push(ai, Op::New(if plain { 0 } else { 4 }));
            let p = self.pacing();
            self.push(ai, Op::Pacing(p));
            return;
        }
        let live: Vec<usize> = (0..w.arenas.len()).filter(|i| w.arenas[*i].shadow.alive).collect();
        let Some(ai) = self.rng.pick(&live).copied() else {
            self.done = true;
            return;
        };
        if self.shell_script.is_some() && self.shell_script_step(w) {
            return;
        }
        if w.arenas[ai].shadow.root.is_empty() {
            // an arena with a pointer-free root: the scripts below hang things from the root
            return self.top_generic(w, ai, live.len());
        }
        if matches!(self.profile, Profile::Weak | Profile::Barrier | Profile::Core | Profile::Reclaim)
            && self.emitted + 60 < self.max_ops.max(61)
            && self.rng.chance(1, 12)
        {
            let n = w.arenas[ai].shadow.objs.len() as u32;
            self.shell_script = Some((0, ai, n, n + 1, n + 2));
            if self.shell_script_step(w) {
                return;
            }
        }
        if self.want_reclaim {
            self.want_reclaim = false;
            self.push(ai, Op::Collect { method: Method::FinishCycle, cont: Cont::Drop, fault: None });
            self.push(ai, Op::Collect { method: Method::FinishCycle, cont: Cont::Drop, fault: None });
            return;
        }
        if self.profile == Profile::Soak {
            return self.soak_round(w, ai);
        }
        // C07: is_dead on weak pointers the marker never traced
        if self.profile == Profile::Finalize && self.emitted + 25 < self.max_ops && self.rng.chance(1, 8) {
            return self.dead_weak_script(w, ai);
        }
        // C10 / C11: faulted traces after other objects were traced, seen with positive debt (needs the
        // fault index to mean the same on both sides: no empty OnceLock cell around)
        if matches!(self.profile, Profile::Fault | Profile::Metrics | Profile::Pacing)
            && self.emitted + 20 < self.max_ops
            && self.rng.chance(1, if self.profile == Profile::Pacing { 40 } else { 14 })
            && !w.arenas[ai].shadow.objs.iter().any(|o| o.kind == Kind::OnceCell && o.freed == 0 && o.dropped == 0 && o.slots[0].is_none())
        {
            return self.fault_credit_script(w, ai);
        }
        // C02 / C06: barrier on a black non-tracing object, then it becomes garbage
        if matches!(self.profile, Profile::Reclaim | Profile::Core | Profile::Weak | Profile::Barrier)
            && self.emitted + 15 < self.max_ops
            && w.arenas[ai].phase != b'S'
            && self.rng.chance(1, 14)
        {
            return self.gray_leaf_script(w, ai);
        }
        // C09 / C10: cell writes must not pay debt
        if matches!(self.profile, Profile::Pacing | Profile::Metrics)
            && self.emitted * 2 < self.max_ops
            && w.arenas[ai].shadow.reachable().len() <= 4
            && self.rng.chance(1, 14)
        {
            return self.leaf_write_soak(w, ai);
        }
        // C09 / C08: collect_debt rolling over a cycle end, then the sleep it must honour
        if matches!(self.profile, Profile::Pacing | Profile::Protocol)
            && self.emitted * 2 < self.max_ops
            && w.arenas[ai].shadow.objs.iter().filter(|o| o.freed == 0).count() <= 10
            && self.rng.chance(1, 10)
        {
            return self.rollover_script(w, ai);
        }
        if self.lock_kinds() && self.emitted + 25 < self.max_ops && w.arenas[ai].phase != b'S' && self.rng.chance(1, 10) {
            return self.lock_script(w, ai);
        }
        // arena::rootless_mutate: a throw-away arena (next free index) that lives for one callback
        if matches!(self.profile, Profile::Core | Profile::Weak | Profile::Protocol | Profile::Fault | Profile::Multi)
            && self.emitted + 12 < self.max_ops
            && self.rng.chance(1, 60)
        {
            let ri = w.arenas.len();
            self.rootless_pending = true;
            self.push(ri, Op::New(0));
            let n = 2 + self.rng.below(9);
            self.cb_stack.push((ri, n));
            return;
        }
        self.top_generic(w, ai, live.len());
    }

    /// One top-level step of the generic mix: a callback, a collection call, a pacing / debt change.
    fn top_generic(&mut self, w: &World, ai: usize, nlive: usize) {
        let r = self.rng.below(100);
        let (p_mut, p_mroot, p_collect) = match self.profile {
            Profile::Protocol => (25, 10, 60),
            Profile::Pacing => (35, 10, 50),
            Profile::Finalize => (30, 15, 50),
            Profile::Reclaim => (35, 20, 40),
            _ => (40, 20, 36),
        };
        if r < p_mut {
            self.push(ai, Op::Enter(Cb::Mutate));
            let n = 1 + self.rng.below(9);
            self.cb_stack.push((ai, n));
        } else if r < p_mut + p_mroot {
            // the root-replacing entry points: mutate_root mostly; map_root / try_map_root (Ok) too;
            // a failing try_map_root consumes the arena, so only rarely and not in the numeric profiles
            let k = self.rng.below(20);
            let owning_ok = !matches!(self.profile, Profile::Soak);
            let kind = if !owning_ok || k < 12 {
                Cb::MutateRoot
            } else if k < 16 {
                Cb::MapRoot
            } else if k < 19 || !matches!(self.profile, Profile::Fault | Profile::Multi | Profile::Core | Profile::Barrier) || !self.rng.chance(1, 4) {
                Cb::TryMapRootOk
            } else {
                Cb::TryMapRootErr
            };
            let kind = if w.arenas[ai].shadow.root.is_empty() { Cb::MutateRoot } else { kind };
            self.push(ai, Op::Enter(kind));
            let n = 1 + self.rng.below(9);
            self.cb_stack.push((ai, n));
        } else if r < p_mut + p_mroot + p_collect {
            // sometimes shape the debt first, to choose the granularity of the call
            match self.rng.below(6) {
                0 | 1 => {
                    let k = self.rng.below(12) as i64;
                    self.push(ai, Op::Adjust(dy(k, 0)));
                }
                2 => {
                    let k = self.rng.below(9) as i64 - 4;
                    self.push(ai, Op::Adjust(dy(k, 1)));
                }
                3 if self.profile == Profile::Protocol || self.profile == Profile::Pacing => {
                    self.push(ai, Op::Adjust(dy(1000, 0)));
                }
                4 if self.rng.chance(1, 2) => {
                    // a negative amount larger than the current debt (integer, hence dyadic)
                    let debt = w.arenas[ai].metrics.as_ref().map(|m| m.allocation_debt()).unwrap_or(0.0);
                    let k = debt.ceil().min(1e9) as i64 + 1 + self.rng.below(8) as i64;
                    self.push(ai, Op::Adjust(dy(-k, 0)));
                }
                _ => {}
            }
            let method = *self.rng.pick(&Method::ALL).unwrap();
            let cont = if method.returns_marked() {
                let fin_odds = if self.profile == Profile::Finalize { 7 } else { 3 };
                let k = self.rng.below(10);
                if k < fin_odds { Cont::Finalize } else if k < fin_odds + 2 { Cont::Sweep } else { Cont::Drop }
            } else {
                Cont::Drop
            };
            let fault = if self.profile == Profile::Fault && self.rng.chance(1, 3) { Some((if self.rng.chance(1, 2) { self.rng.below(4) } else { self.rng.below(13) }, self.rng.below(5))) } else { None };
            self.push(ai, Op::Collect { method, cont, fault });
            if cont != Cont::Finalize && (self.profile == Profile::Reclaim && method == Method::FinishCycle || self.rng.chance(1, 12)) {
                self.push(ai, Op::Collect { method: Method::FinishCycle, cont: Cont::Drop, fault: None });
                self.push(ai, Op::Collect { method: Method::FinishCycle, cont: Cont::Drop, fault: None });
            }
        } else if r < 98 {
            let p = self.pacing();
            self.push(ai, Op::Pacing(p));
        } else if self.profile == Profile::Multi && nlive > 1 {
            self.push(ai, Op::DropArena);
        } else {
            let k = self.rng.below(6) as i64;
            self.push(ai, Op::Adjust(dy(k, 2)));
        }
    }
}

impl Source for Gen {
    fn begin_rootless(&mut self, _w: &World, _ai: usize) -> bool {
        std::mem::take(&mut self.rootless_pending)
    }

    fn want_ctor(&mut self, _w: &World, ai: usize) -> Option<Cb> {
        if matches!(self.profile, Profile::Soak) || !self.rng.chance(1, 4) {
            return None;
        }
        let k = self.rng.below(16);
        let kind = if k < 9 {
            Cb::NewCtor
        } else if k < 15 || !matches!(self.profile, Profile::Fault | Profile::Multi) {
            Cb::TryNewOk
        } else {
            Cb::TryNewErr
        };
        let n = 1 + self.rng.below(7);
        self.cb_stack.push((ai, n));
        Some(kind)
    }

    fn want_finalize(&mut self, _w: &World, ai: usize) -> bool {
        let n = 1 + self.rng.below(8);
        self.cb_stack.push((ai, n));
        true
    }

    fn next(&mut self, w: &World) -> Option<(usize, Op)> {
        loop {
            if let Some((ai, op)) = self.queue.pop_front() {
                self.emitted += 1;
                return Some((ai, op));
            }
            if self.done {
                return None;
            }
            if let Some((ai, left)) = self.cb_stack.last().copied() {
                if ai >= w.arenas.len() || w.arenas[ai].shadow.cb.is_none() {
                    // the callback was not entered (or already left)
                    self.cb_stack.pop();
                    continue;
                }
                if left == 0 || self.emitted >= self.max_ops {
                    self.cb_stack.pop();
                    let panic = self.profile == Profile::Fault && self.rng.chance(1, 6);
                    self.push(ai, Op::Leave { panic });
                    continue;
                }
                self.cb_stack.last_mut().unwrap().1 -= 1;
                // occasionally operate on another arena from inside this callback
                if self.profile == Profile::Multi && self.rng.chance(1, 5) {
                    let others: Vec<usize> = (0..w.arenas.len()).filter(|i| *i != ai && w.arenas[*i].shadow.alive && w.arenas[*i].shadow.cb.is_none()).collect();
                    if let Some(b) = self.rng.pick(&others).copied() {
                        // mostly a debt-driven call, and mostly with the other arena clearly in debt: it
                        // must behave exactly as it would standalone
                        let method = if self.rng.chance(2, 3) { [Method::CollectDebt, Method::CycleDebt, Method::MarkDebt][self.rng.below(3)] } else { *self.rng.pick(&Method::ALL).unwrap() };
                        let k = if self.rng.chance(1, 2) { 16 + self.rng.below(48) as i64 } else { self.rng.below(8) as i64 };
                        self.push(b, Op::Adjust(dy(k, 0)));
                        self.push(b, Op::Collect { method, cont: Cont::Drop, fault: None });
                        continue;
                    }
                }
                self.callback_op(w, ai);
                continue;
            }
            if self.emitted >= self.max_ops {
                // wind down: optionally exact-reclamation check, then drop every arena
                match self.finishing {
                    0 => {
                        self.finishing = 1;
                        for ai in 0..w.arenas.len() {
                            if w.arenas[ai].shadow.alive && self.rng.chance(1, 2) {
                                self.push(ai, Op::Collect { method: Method::FinishCycle, cont: Cont::Drop, fault: None });
                                self.push(ai, Op::Collect { method: Method::FinishCycle, cont: Cont::Drop, fault: None });
                            }
                        }
                    }
                    1 => {
                        self.finishing = 2;
                        for ai in 0..w.arenas.len() {
                            if w.arenas[ai].shadow.alive {
                                self.push(ai, Op::DropArena);
                            }
                        }
                    }
                    _ => self.done = true,
                }
                continue;
            }
            self.top_level(w);
        }
    }
}

/// Replays a fixed list of ops (from a replay / corpus file).
pub struct Replay {
    pub ops: VecDeque<(usize, Op)>,
}

impl Source for Replay {
    fn want_ctor(&mut self, _w: &World, ai: usize) -> Option<Cb> {
        match self.ops.front() {
            Some((a, Op::Enter(k))) if *a == ai && k.is_ctor() => {
                let k = *k;
                self.ops.pop_front();
                Some(k)
            }
            _ => None,
        }
    }

    fn begin_rootless(&mut self, _w: &World, ai: usize) -> bool {
        if matches!(self.ops.front(), Some((a, Op::Enter(Cb::Rootless))) if *a == ai) {
            self.ops.pop_front();
            true
        } else {
            false
        }
    }

    fn want_finalize(&mut self, _w: &World, ai: usize) -> bool {
        if matches!(self.ops.front(), Some((a, Op::Enter(Cb::Finalize))) if *a == ai) {
            self.ops.pop_front();
            true
        } else {
            false
        }
    }

    fn next(&mut self, _w: &World) -> Option<(usize, Op)> {
        self.ops.pop_front()
    }
}
