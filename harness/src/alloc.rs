//! Tracking global allocator: logs Gc block allocation / release, quarantines and poisons released
//! Gc blocks (so a dangling read is observable and addresses are never reused within a sequence),
//! and keeps the interleaved event log (destructor runs + block releases).

use std::alloc::{GlobalAlloc, Layout, System};
use std::cell::UnsafeCell;
use std::collections::HashMap;

pub const POISON: u8 = 0xDD;

#[derive(Clone, Copy, Debug, PartialEq, Eq)]
pub enum Ev {
    Dropped(u64),
    Freed(u64),
}

#[derive(Clone, Copy, Debug)]
pub struct Block {
    pub tag: u64,
    pub size: usize,
    pub align: usize,
    pub freed: bool,
}

#[derive(Default)]
pub struct State {
    pub bypass: bool,
    pub expect: Option<u64>,
    pub blocks: HashMap<usize, Block>,
    pub quarantine: Vec<(usize, usize, usize)>,
    pub events: Vec<Ev>,
    pub violations: Vec<String>,
    /// every alloc/dealloc seen while `log_all` is on: (is_alloc, addr, size, align)
    pub log_all: bool,
    pub raw_log: Vec<(bool, usize, usize, usize)>,
}

pub struct Global(UnsafeCell<Option<State>>);
// The harness is single-threaded (parallelism is by process).
unsafe impl Sync for Global {}
pub static GLOBAL: Global = Global(UnsafeCell::new(None));

#[allow(clippy::mut_from_ref)]
pub fn state() -> &'static mut State {
    unsafe {
        let slot = &mut *GLOBAL.0.get();
        if slot.is_none() {
            // `State::default()` performs no allocation (empty HashMap / Vec).
            *slot = Some(State::default());
        }
        slot.as_mut().unwrap()
    }
}

pub struct Tracking;

unsafe impl GlobalAlloc for Tracking {
    unsafe fn alloc(&self, layout: Layout) -> *mut u8 {
        let p = unsafe { System.alloc(layout) };
        let st = state();
        if !st.bypass {
            st.bypass = true;
            if st.log_all {
                st.raw_log.push((true, p as usize, layout.size(), layout.align()));
            }
            if let Some(tag) = st.expect.take() {
                st.blocks.insert(
                    p as usize,
                    Block { tag, size: layout.size(), align: layout.align(), freed: false },
                );
            }
            st.bypass = false;
        }
        p
    }

    unsafe fn dealloc(&self, ptr: *mut u8, layout: Layout) {
        let st = state();
        if !st.bypass {
            st.bypass = true;
            if st.log_all {
                st.raw_log.push((false, ptr as usize, layout.size(), layout.align()));
            }
            if let Some(b) = st.blocks.get_mut(&(ptr as usize)) {
                if b.freed {
                    st.violations.push(format!("double-free tag={}", b.tag));
                } else {
                    if b.size != layout.size() || b.align != layout.align() {
                        st.violations.push(format!(
                            "layout-mismatch tag={} requested=({},{}) released=({},{})",
                            b.tag,
                            b.size,
                            b.align,
                            layout.size(),
                            layout.align()
                        ));
                    }
                    b.freed = true;
                    let (tag, size, align) = (b.tag, b.size, b.align);
                    st.events.push(Ev::Freed(tag));
                    unsafe { std::ptr::write_bytes(ptr, POISON, size) };
                    st.quarantine.push((ptr as usize, size, align));
                }
                st.bypass = false;
                return; // quarantined: not returned to the system allocator yet
            }
            st.bypass = false;
        }
        unsafe { System.dealloc(ptr, layout) };
    }
}

/// Run `f` with tracking suspended (for the harness's own bookkeeping allocations).
pub fn untracked<T>(f: impl FnOnce(&mut State) -> T) -> T {
    let st = state();
    let old = st.bypass;
    st.bypass = true;
    let r = f(st);
    state().bypass = old;
    r
}

pub fn expect_gc(tag: u64) {
    state().expect = Some(tag);
}

pub fn expect_consumed() -> bool {
    state().expect.take().is_none()
}

pub fn push_event(ev: Ev) {
    untracked(|st| st.events.push(ev));
}

pub fn take_events() -> Vec<Ev> {
    untracked(|st| std::mem::take(&mut st.events))
}

pub fn take_violations() -> Vec<String> {
    untracked(|st| std::mem::take(&mut st.violations))
}

/// Number of Gc blocks with the given arena index that have not been released.
pub fn live_blocks(arena: u32) -> usize {
    untracked(|st| st.blocks.values().filter(|b| !b.freed && (b.tag >> 32) as u32 == arena).count())
}

/// End of a sequence: give the quarantined blocks back and forget everything.
pub fn reset() {
    untracked(|st| {
        for (p, size, align) in st.quarantine.drain(..) {
            unsafe { System.dealloc(p as *mut u8, Layout::from_size_align_unchecked(size, align)) };
        }
        st.blocks.clear();
        st.events.clear();
        st.violations.clear();
        st.expect = None;
        st.raw_log.clear();
    });
}
