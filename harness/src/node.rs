//! Universal payload types of the correspondence harness.

use std::cell::Cell;

use gc_arena::collect::Trace;
use gc_arena::lock::RefLock;
use gc_arena::{Collect, Gc, GcWeak};

use crate::alloc::{self, Ev};

pub const NSLOTS: usize = 3;
pub const TOMB: u64 = 0xFFFF_FFFF_FFFF_FF00;

/// A pointer value held in a slot.
#[derive(Clone, Copy)]
pub enum P<'gc> {
    S(Gc<'gc, Node<'gc>>),
    W(GcWeak<'gc, Node<'gc>>),
    SL(Gc<'gc, Leaf>),
    WL(GcWeak<'gc, Leaf>),
}

impl<'gc> P<'gc> {
    pub fn erased_strong(self) -> Option<Gc<'gc, ()>> {
        match self {
            P::S(g) => Some(Gc::erase(g)),
            P::SL(g) => Some(Gc::erase(g)),
            _ => None,
        }
    }
    pub fn erased_weak(self) -> Option<GcWeak<'gc, ()>> {
        match self {
            P::W(g) => Some(GcWeak::erase(g)),
            P::WL(g) => Some(GcWeak::erase(g)),
            _ => None,
        }
    }
    pub fn addr(self) -> usize {
        match self {
            P::S(g) => Gc::as_ptr(g) as *const () as usize,
            P::SL(g) => Gc::as_ptr(g) as *const () as usize,
            P::W(g) => GcWeak::as_ptr(g) as *const () as usize,
            P::WL(g) => GcWeak::as_ptr(g) as *const () as usize,
        }
    }
}

thread_local! {
    /// (k, j): the k-th trace call of the current collection call panics after j slots.
    pub static FAULT: Cell<Option<(usize, usize)>> = const { Cell::new(None) };
    pub static TRACE_COUNT: Cell<usize> = const { Cell::new(0) };
}

pub struct TraceFault;

/// Called at the start of every `Collect::trace` of a harness type; returns the slot index at
/// which this call must panic, if any.
fn trace_enter() -> Option<usize> {
    let n = TRACE_COUNT.with(|c| {
        let n = c.get();
        c.set(n + 1);
        n
    });
    match FAULT.with(|f| f.get()) {
        Some((k, j)) if k == n => Some(j),
        _ => None,
    }
}

fn trace_p<'gc, C: Trace<'gc>>(p: &Option<P<'gc>>, cc: &mut C) {
    match p {
        None => {}
        Some(P::S(g)) => cc.trace_gc(Gc::erase(*g)),
        Some(P::SL(g)) => cc.trace_gc(Gc::erase(*g)),
        Some(P::W(g)) => cc.trace_gc_weak(GcWeak::erase(*g)),
        Some(P::WL(g)) => cc.trace_gc_weak(GcWeak::erase(*g)),
    }
}

/// A tracing object: `NSLOTS` pointer slots behind `RefLock`s.
pub struct Node<'gc> {
    pub id: Cell<u64>,
    pub slots: [RefLock<Option<P<'gc>>>; NSLOTS],
}

unsafe impl<'gc> Collect<'gc> for Node<'gc> {
    const NEEDS_TRACE: bool = true;

    fn trace<C: Trace<'gc>>(&self, cc: &mut C) {
        let fault = trace_enter();
        for (i, s) in self.slots.iter().enumerate() {
            if fault == Some(i) {
                std::panic::panic_any(TraceFault);
            }
            trace_p(&s.borrow(), cc);
        }
        if matches!(fault, Some(j) if j >= NSLOTS) {
            std::panic::panic_any(TraceFault);
        }
    }
}

impl<'gc> Drop for Node<'gc> {
    fn drop(&mut self) {
        alloc::push_event(Ev::Dropped(self.id.get()));
        self.id.set(TOMB);
    }
}

/// A non-tracing object (`NEEDS_TRACE = false`) that still has interior mutability, so that a
/// write barrier can legitimately be applied to it.
pub struct Leaf {
    pub id: Cell<u64>,
    pub val: RefLock<u32>,
}

unsafe impl<'gc> Collect<'gc> for Leaf {
    const NEEDS_TRACE: bool = false;

    fn trace<C: Trace<'gc>>(&self, _cc: &mut C) {
        // Reached only when a barrier re-queued the object (`mark_one` does not test NEEDS_TRACE).
        if trace_enter().is_some() {
            std::panic::panic_any(TraceFault);
        }
    }
}

impl Drop for Leaf {
    fn drop(&mut self) {
        alloc::push_event(Ev::Dropped(self.id.get()));
        self.id.set(TOMB);
    }
}

pub const NROOT: usize = 4;

pub struct Root<'gc> {
    pub slots: [Option<P<'gc>>; NROOT],
}

unsafe impl<'gc> Collect<'gc> for Root<'gc> {
    fn trace<C: Trace<'gc>>(&self, cc: &mut C) {
        let fault = trace_enter();
        for (i, s) in self.slots.iter().enumerate() {
            if fault == Some(i) {
                std::panic::panic_any(TraceFault);
            }
            trace_p(s, cc);
        }
        if matches!(fault, Some(j) if j >= NROOT) {
            std::panic::panic_any(TraceFault);
        }
    }
}
