//! Universal payload types of the correspondence harness.

use std::cell::Cell;

use gc_arena::collect::{DynCollect, Trace, dyn_collect};
use gc_arena::lock::{Lock, OnceLock, RefLock};
use gc_arena::{Collect, Gc, GcWeak};

use crate::alloc::{self, Ev};

pub const NSLOTS: usize = 3;
pub const TOMB: u64 = 0xFFFF_FFFF_FFFF_FF00;

/// A pointer value held in a slot.
#[derive(Clone, Copy)]
pub enum P<'gc> {
    S(Gc<'gc, Node<'gc>>),
    W(GcWeak<'gc, Node<'gc>>),
    SL(Gc<'gc, Leaf>),
    WL(GcWeak<'gc, Leaf>),
    /// `Gc<RefLock<RefBody>>`
    SR(Gc<'gc, RefNode<'gc>>),
    WR(GcWeak<'gc, RefNode<'gc>>),
    /// `Gc<Lock<LockBody>>`
    SC(Gc<'gc, LockCell<'gc>>),
    WC(GcWeak<'gc, LockCell<'gc>>),
    /// `Gc<OnceLock<OnceBody>>`
    SO(Gc<'gc, OnceCellT<'gc>>),
    WO(GcWeak<'gc, OnceCellT<'gc>>),
    /// slots behind a `dyn_collect!` trait object
    SD(Gc<'gc, DynNode<'gc>>),
    WD(GcWeak<'gc, DynNode<'gc>>),
    /// pointer-free lock cell
    SK(Gc<'gc, LeafCell>),
    WK(GcWeak<'gc, LeafCell>),
}

impl<'gc> P<'gc> {
    pub fn erased_strong(self) -> Option<Gc<'gc, ()>> {
        match self {
            P::S(g) => Some(Gc::erase(g)),
            P::SL(g) => Some(Gc::erase(g)),
            P::SR(g) => Some(Gc::erase(g)),
            P::SC(g) => Some(Gc::erase(g)),
            P::SO(g) => Some(Gc::erase(g)),
            P::SD(g) => Some(Gc::erase(g)),
            P::SK(g) => Some(Gc::erase(g)),
            _ => None,
        }
    }
    pub fn erased_weak(self) -> Option<GcWeak<'gc, ()>> {
        match self {
            P::W(g) => Some(GcWeak::erase(g)),
            P::WL(g) => Some(GcWeak::erase(g)),
            P::WR(g) => Some(GcWeak::erase(g)),
            P::WC(g) => Some(GcWeak::erase(g)),
            P::WO(g) => Some(GcWeak::erase(g)),
            P::WD(g) => Some(GcWeak::erase(g)),
            P::WK(g) => Some(GcWeak::erase(g)),
            _ => None,
        }
    }
    pub fn addr(self) -> usize {
        match self {
            P::S(g) => Gc::as_ptr(g) as *const () as usize,
            P::SL(g) => Gc::as_ptr(g) as *const () as usize,
            P::SR(g) => Gc::as_ptr(g) as *const () as usize,
            P::SC(g) => Gc::as_ptr(g) as *const () as usize,
            P::SO(g) => Gc::as_ptr(g) as *const () as usize,
            P::SD(g) => Gc::as_ptr(g) as *const () as usize,
            P::SK(g) => Gc::as_ptr(g) as *const () as usize,
            P::W(g) => GcWeak::as_ptr(g) as *const () as usize,
            P::WL(g) => GcWeak::as_ptr(g) as *const () as usize,
            P::WR(g) => GcWeak::as_ptr(g) as *const () as usize,
            P::WC(g) => GcWeak::as_ptr(g) as *const () as usize,
            P::WO(g) => GcWeak::as_ptr(g) as *const () as usize,
            P::WD(g) => GcWeak::as_ptr(g) as *const () as usize,
            P::WK(g) => GcWeak::as_ptr(g) as *const () as usize,
        }
    }
    pub fn downgrade(self) -> P<'gc> {
        match self {
            P::S(g) => P::W(Gc::downgrade(g)),
            P::SL(g) => P::WL(Gc::downgrade(g)),
            P::SR(g) => P::WR(Gc::downgrade(g)),
            P::SC(g) => P::WC(Gc::downgrade(g)),
            P::SO(g) => P::WO(Gc::downgrade(g)),
            P::SD(g) => P::WD(Gc::downgrade(g)),
            P::SK(g) => P::WK(Gc::downgrade(g)),
            x => x,
        }
    }
    pub fn upgrade(self, mc: &gc_arena::Mutation<'gc>) -> Option<P<'gc>> {
        match self {
            P::W(g) => g.upgrade(mc).map(P::S),
            P::WL(g) => g.upgrade(mc).map(P::SL),
            P::WR(g) => g.upgrade(mc).map(P::SR),
            P::WC(g) => g.upgrade(mc).map(P::SC),
            P::WO(g) => g.upgrade(mc).map(P::SO),
            P::WD(g) => g.upgrade(mc).map(P::SD),
            P::WK(g) => g.upgrade(mc).map(P::SK),
            _ => None,
        }
    }
    pub fn is_dropped(self) -> bool {
        match self {
            P::W(g) => g.is_dropped(),
            P::WL(g) => g.is_dropped(),
            P::WR(g) => g.is_dropped(),
            P::WC(g) => g.is_dropped(),
            P::WO(g) => g.is_dropped(),
            P::WD(g) => g.is_dropped(),
            P::WK(g) => g.is_dropped(),
            _ => false,
        }
    }
    pub fn is_dead(self, fc: &gc_arena::Finalization<'gc>) -> bool {
        match self {
            P::S(g) => Gc::is_dead(fc, g),
            P::SL(g) => Gc::is_dead(fc, g),
            P::SR(g) => Gc::is_dead(fc, g),
            P::SC(g) => Gc::is_dead(fc, g),
            P::SO(g) => Gc::is_dead(fc, g),
            P::SD(g) => Gc::is_dead(fc, g),
            P::SK(g) => Gc::is_dead(fc, g),
            P::W(g) => g.is_dead(fc),
            P::WL(g) => g.is_dead(fc),
            P::WR(g) => g.is_dead(fc),
            P::WC(g) => g.is_dead(fc),
            P::WO(g) => g.is_dead(fc),
            P::WD(g) => g.is_dead(fc),
            P::WK(g) => g.is_dead(fc),
        }
    }
    /// `Gc::resurrect` / `GcWeak::resurrect`: `Ok(())` for a strong pointer, `Err(result)` for a
    /// weak one
    pub fn resurrect(self, fc: &gc_arena::Finalization<'gc>) -> Result<(), Option<P<'gc>>> {
        match self {
            P::S(g) => Ok(Gc::resurrect(fc, g)),
            P::SL(g) => Ok(Gc::resurrect(fc, g)),
            P::SR(g) => Ok(Gc::resurrect(fc, g)),
            P::SC(g) => Ok(Gc::resurrect(fc, g)),
            P::SO(g) => Ok(Gc::resurrect(fc, g)),
            P::SD(g) => Ok(Gc::resurrect(fc, g)),
            P::SK(g) => Ok(Gc::resurrect(fc, g)),
            P::W(g) => Err(g.resurrect(fc).map(P::S)),
            P::WL(g) => Err(g.resurrect(fc).map(P::SL)),
            P::WR(g) => Err(g.resurrect(fc).map(P::SR)),
            P::WC(g) => Err(g.resurrect(fc).map(P::SC)),
            P::WO(g) => Err(g.resurrect(fc).map(P::SO)),
            P::WD(g) => Err(g.resurrect(fc).map(P::SD)),
            P::WK(g) => Err(g.resurrect(fc).map(P::SK)),
        }
    }
    /// The payload id read through a strong pointer (`None`: an empty `OnceCell` carries none).
    pub fn payload_id(self) -> Option<Option<u64>> {
        match self {
            P::S(g) => Some(Some(g.id.get())),
            P::SL(g) => Some(Some(g.id.get())),
            P::SR(g) => Some(Some(g.borrow().id.get())),
            P::SC(g) => Some(Some(g.get().id)),
            P::SO(g) => Some(g.get().map(|b| b.id)),
            P::SD(g) => Some(Some(g.inner.id())),
            P::SK(g) => Some(Some(g.borrow().id.get())),
            _ => None,
        }
    }
}

thread_local! {
    /// (k, j): the k-th trace call of the current collection call panics after j slots.
    pub static FAULT: Cell<Option<(usize, usize)>> = const { Cell::new(None) };
    pub static TRACE_COUNT: Cell<usize> = const { Cell::new(0) };
}

pub struct TraceFault;

/// Called at the start of every `Collect::trace` of a harness type; returns the slot index at
/// which this call must panic, if any.
fn trace_enter() -> Option<usize> {
    let n = TRACE_COUNT.with(|c| {
        let n = c.get();
        c.set(n + 1);
        n
    });
    match FAULT.with(|f| f.get()) {
        Some((k, j)) if k == n => Some(j),
        _ => None,
    }
}

fn trace_p<'gc, C: Trace<'gc>>(p: &Option<P<'gc>>, cc: &mut C) {
    let Some(p) = p else { return };
    if let Some(g) = p.erased_strong() {
        cc.trace_gc(g);
    } else if let Some(g) = p.erased_weak() {
        cc.trace_gc_weak(g);
    }
}

/// A tracing object: `NSLOTS` pointer slots behind `RefLock`s.
pub struct Node<'gc> {
    pub id: Cell<u64>,
    pub slots: [RefLock<Option<P<'gc>>>; NSLOTS],
}

unsafe impl<'gc> Collect<'gc> for Node<'gc> {
    const NEEDS_TRACE: bool = true;

    fn trace<C: Trace<'gc>>(&self, cc: &mut C) {
        let fault = trace_enter();
        for (i, s) in self.slots.iter().enumerate() {
            if fault == Some(i) {
                std::panic::panic_any(TraceFault);
            }
            trace_p(&s.borrow(), cc);
        }
        if matches!(fault, Some(j) if j >= NSLOTS) {
            std::panic::panic_any(TraceFault);
        }
    }
}

impl<'gc> Drop for Node<'gc> {
    fn drop(&mut self) {
        alloc::push_event(Ev::Dropped(self.id.get()));
        self.id.set(TOMB);
    }
}

/// A non-tracing object (`NEEDS_TRACE = false`) that still has interior mutability, so that a
/// write barrier can legitimately be applied to it.
pub struct Leaf {
    pub id: Cell<u64>,
    pub val: RefLock<u32>,
}

unsafe impl<'gc> Collect<'gc> for Leaf {
    const NEEDS_TRACE: bool = false;

    fn trace<C: Trace<'gc>>(&self, _cc: &mut C) {
        // Reached only when a barrier re-queued the object (`mark_one` does not test NEEDS_TRACE).
        if trace_enter().is_some() {
            std::panic::panic_any(TraceFault);
        }
    }
}

impl Drop for Leaf {
    fn drop(&mut self) {
        alloc::push_event(Ev::Dropped(self.id.get()));
        self.id.set(TOMB);
    }
}

/// An object whose *whole value* is a `RefLock`: mutated through the crate's own
/// `Gc<RefLock<T>>::borrow_mut` / `try_borrow_mut` / `Gc::unlock`.  Traced by the crate's
/// `Collect for RefLock<T>`, which forwards to `RefBody::trace`.
pub type RefNode<'gc> = RefLock<RefBody<'gc>>;

pub struct RefBody<'gc> {
    pub id: Cell<u64>,
    pub slots: [Option<P<'gc>>; NSLOTS],
}

unsafe impl<'gc> Collect<'gc> for RefBody<'gc> {
    const NEEDS_TRACE: bool = true;

    fn trace<C: Trace<'gc>>(&self, cc: &mut C) {
        let fault = trace_enter();
        for (i, s) in self.slots.iter().enumerate() {
            if fault == Some(i) {
                std::panic::panic_any(TraceFault);
            }
            trace_p(s, cc);
        }
        if matches!(fault, Some(j) if j >= NSLOTS) {
            std::panic::panic_any(TraceFault);
        }
    }
}

impl<'gc> Drop for RefBody<'gc> {
    fn drop(&mut self) {
        alloc::push_event(Ev::Dropped(self.id.get()));
        self.id.set(TOMB);
    }
}

/// An object whose whole value is a `Lock`: mutated through `Gc<Lock<T>>::set` / `Gc::unlock`.
/// `Lock<T>: Collect` needs `T: Copy`, so the payload cannot have a destructor: when the collector
/// destructs such a value nothing observable happens (the harness infers it from the `live` flag).
/// Traced by the crate's `Collect for Lock<T>` (on a copy of the payload).
pub type LockCell<'gc> = Lock<LockBody<'gc>>;

#[derive(Clone, Copy)]
pub struct LockBody<'gc> {
    pub id: u64,
    pub v: Option<P<'gc>>,
}

unsafe impl<'gc> Collect<'gc> for LockBody<'gc> {
    const NEEDS_TRACE: bool = true;

    fn trace<C: Trace<'gc>>(&self, cc: &mut C) {
        let fault = trace_enter();
        if fault == Some(0) {
            std::panic::panic_any(TraceFault);
        }
        trace_p(&self.v, cc);
        if fault.is_some() {
            std::panic::panic_any(TraceFault);
        }
    }
}

/// An object whose whole value is a `OnceLock`, allocated empty: filled through
/// `Gc<OnceLock<T>>::set` / `get_or_init`.  While it is empty the crate's `Collect for OnceLock<T>`
/// runs no client code at all (so no trace fault can be injected into it, and there is no payload
/// id to read); no destructor either, so that the kind behaves uniformly.
pub type OnceCellT<'gc> = OnceLock<OnceBody<'gc>>;

pub struct OnceBody<'gc> {
    pub id: u64,
    pub v: P<'gc>,
}

unsafe impl<'gc> Collect<'gc> for OnceBody<'gc> {
    const NEEDS_TRACE: bool = true;

    fn trace<C: Trace<'gc>>(&self, cc: &mut C) {
        let fault = trace_enter();
        if fault == Some(0) {
            std::panic::panic_any(TraceFault);
        }
        trace_p(&Some(self.v), cc);
        if fault.is_some() {
            std::panic::panic_any(TraceFault);
        }
    }
}

/// The slots of a `DynNode`, seen through a client trait object.  `'gc` as a supertrait bound makes
/// `dyn DynSlots<'gc>` mean `dyn DynSlots<'gc> + 'gc`.
pub trait DynSlots<'gc>: 'gc + DynCollect<'gc> {
    fn id(&self) -> u64;
    fn get(&self, i: usize) -> Option<P<'gc>>;
    /// # Safety
    /// the caller places the write barrier on the `Gc` that owns the box
    unsafe fn set(&self, i: usize, v: Option<P<'gc>>);
}
dyn_collect!(dyn DynSlots<'gc>);

pub struct DynBody<'gc> {
    pub id: Cell<u64>,
    pub slots: [RefLock<Option<P<'gc>>>; NSLOTS],
}

unsafe impl<'gc> Collect<'gc> for DynBody<'gc> {
    const NEEDS_TRACE: bool = true;

    fn trace<C: Trace<'gc>>(&self, cc: &mut C) {
        let fault = trace_enter();
        for (i, s) in self.slots.iter().enumerate() {
            if fault == Some(i) {
                std::panic::panic_any(TraceFault);
            }
            trace_p(&s.borrow(), cc);
        }
        if matches!(fault, Some(j) if j >= NSLOTS) {
            std::panic::panic_any(TraceFault);
        }
    }
}

impl<'gc> Drop for DynBody<'gc> {
    fn drop(&mut self) {
        alloc::push_event(Ev::Dropped(self.id.get()));
        self.id.set(TOMB);
    }
}

impl<'gc> DynSlots<'gc> for DynBody<'gc> {
    fn id(&self) -> u64 {
        self.id.get()
    }
    fn get(&self, i: usize) -> Option<P<'gc>> {
        *self.slots[i].borrow()
    }
    unsafe fn set(&self, i: usize, v: Option<P<'gc>>) {
        unsafe { *self.slots[i].as_ref_cell().borrow_mut() = v };
    }
}

/// An object that holds its pointers through a trait object: `Collect for Box<T>` forwards to
/// `Collect for dyn DynSlots<'gc>` (generated by `dyn_collect!`), which goes through
/// `DynCollect::dyn_trace` and its `&mut dyn Trace` adapter before reaching `DynBody::trace`.
pub struct DynNode<'gc> {
    pub inner: Box<dyn DynSlots<'gc> + 'gc>,
}

unsafe impl<'gc> Collect<'gc> for DynNode<'gc> {
    const NEEDS_TRACE: bool = true;

    fn trace<C: Trace<'gc>>(&self, cc: &mut C) {
        cc.trace(&self.inner);
    }
}

/// An object whose whole value is a pointer-free lock: `NEEDS_TRACE = false`, so marking blackens
/// it without tracing; a write through `Gc<RefLock<T>>::borrow_mut` still issues the backward
/// barrier, which re-queues it when black.  (Its trace runs no client code.)
pub type LeafCell = RefLock<CellBody>;

pub struct CellBody {
    pub id: Cell<u64>,
    pub val: u64,
}

unsafe impl<'gc> Collect<'gc> for CellBody {
    const NEEDS_TRACE: bool = false;
}

impl Drop for CellBody {
    fn drop(&mut self) {
        alloc::push_event(Ev::Dropped(self.id.get()));
        self.id.set(TOMB);
    }
}

/// A pointer-free root (`NEEDS_TRACE = false`, via `static_collect!`): the second arena flavour.
/// Callbacks can only bump the counter (through `mutate_root`); everything allocated in such an
/// arena is unrooted.
pub struct PlainRoot {
    pub counter: u64,
}
gc_arena::static_collect!(PlainRoot);

pub const NROOT: usize = 4;

pub struct Root<'gc> {
    pub slots: [Option<P<'gc>>; NROOT],
}

unsafe impl<'gc> Collect<'gc> for Root<'gc> {
    fn trace<C: Trace<'gc>>(&self, cc: &mut C) {
        let fault = trace_enter();
        for (i, s) in self.slots.iter().enumerate() {
            if fault == Some(i) {
                std::panic::panic_any(TraceFault);
            }
            trace_p(s, cc);
        }
        if matches!(fault, Some(j) if j >= NROOT) {
            std::panic::panic_any(TraceFault);
        }
    }
}
