#!/bin/sh
# Offline setup: build the Lean library + model driver and the Rust harness from files on disk.
set -e
cd "$(dirname "$0")"
export CARGO_NET_OFFLINE=true
(cd lean && lake build GcArena gcmodel)
[ -f harness/Cargo.lock ] || cp /repo/Cargo.lock harness/Cargo.lock
(cd harness && cargo build --offline && cargo build --offline --release)
echo setup-ok
