#!/bin/sh
# Offline setup: build the Lean library modules of every claimed property, the model drivers and
# the Rust harness / translator crates from files on disk only.
set -e
cd "$(dirname "$0")"
export CARGO_NET_OFFLINE=true
PROPS=$(python3 -c "
import json, os
ids = [c['property_id'] for c in json.load(open('MANIFEST.json'))['checks']]
print(' '.join('GcArena.Props.' + m for i in ids for m in (i, i + 's') if os.path.exists('lean/GcArena/Props/' + m + '.lean')))")
EXES=$(grep -A1 '^\[\[lean_exe\]\]' lean/lakefile.toml | grep '^name' | sed 's/name = "\(.*\)"/\1/' | tr '\n' ' ')
(cd lean && lake build $EXES)
# a property module that no longer builds is that property's violation (reported by its check with
# the broken theorem named), not a reason to leave every other check without its driver
(cd lean && lake build $PROPS GcArena.Audit.StmtHash GcArena.All) || echo "setup: some property modules failed to build (their checks will report it)"
for d in harness extract_brand extract harness_layout harness_collect harness_dynroots harness_conv; do
  if [ -f "$d/Cargo.toml" ]; then
    [ -f "$d/Cargo.lock" ] || cp /repo/Cargo.lock "$d/Cargo.lock"
    (cd "$d" && cargo build --offline) || echo "setup: building $d failed (its check will report it)"
  fi
done
(cd harness && cargo build --offline --release)
echo setup-ok
