//! BrandFlow: for every function that code without `unsafe` can call — safe `pub` functions, safe
//! trait-impl methods, default trait methods, and the `unsafe fn`s that an exported `macro_rules!`
//! calls inside its own `unsafe { … }` block — where do the lifetimes of the *result* come from?
//!
//! A lifetime occurs
//!   * in **brand position**: as a lifetime argument of a crate type whose parameter is a brand
//!     (every lifetime parameter of a crate `struct` / `enum` that is not a plain borrow, see
//!     `classify_adts`), as a lifetime argument of a trait reference (`<R as Rootable<'gc>>::Root`,
//!     `dyn Trace<'gc>`), or
//!   * in **ref position**: `&'a T`, `&'a mut T`, lifetime arguments of foreign types (`Ref<'a, T>`),
//!     `dyn Tr + 'a`, borrow parameters of crate types (`MarkedArena<'a, R>`).
//! Occurrences below a raw pointer are recorded separately and never counted (safe code cannot
//! dereference a raw pointer).  Lifetime parameters of the *builder* types (name ends in `Builder`)
//! are "unattached": a builder is not yet a pointer into any arena, its `'gc` only constrains which
//! `Mutation` may finish it; they are listed in the table and pinned by a theorem.
//!
//! Inputs are the receiver (with `Self` expanded to the impl header's self type) and the typed
//! arguments (and the results of callback parameters).  The impl header alone is NOT an input: for
//! an associated function without receiver (`Gc::<'x, T>::from_ptr(p)`) the caller picks the
//! header's lifetimes.  Generics that occur only in the trait reference of an impl header
//! (`impl<'gc, 'w> Tr<GcWeak<'w, U>> for GcWeak<'gc, T>`) are likewise caller-chosen.
//! `where 'a: 'b` bounds are ignored on purpose: brands are invariant, only identity counts.
//!
//! Arguments handed to callback parameters are outputs too; there a lifetime bound by the `for<…>`
//! of the `Fn*` bound (or elided inside it) is a fresh brand: recorded under `introduces`.
use crate::common::*;
use crate::raw::Raw;
use crate::sig::expand_alias;
use proc_macro2::{Delimiter, TokenStream, TokenTree};
use std::collections::{BTreeMap, BTreeSet};
use syn::*;

#[derive(Clone, Copy, PartialEq, Eq, Debug)]
pub enum Pos {
    Brand,
    Ref,
    Unattached,
}

#[derive(Clone, Debug)]
struct Occ {
    lt: String,
    pos: Pos,
    raw: bool,
}

pub struct Entry {
    pub name: String,
    pub self_head: String,
    pub trait_name: String,
    pub method: String,
    pub is_unsafe: bool,
    pub macro_reachable: bool,
    pub via_macros: Vec<String>,
    pub has_receiver: bool,
    pub out_brands: Vec<String>,
    pub in_brands: Vec<String>,
    pub out_refs: Vec<String>,
    pub in_lts: Vec<String>,
    pub out_raw: Vec<String>,
    pub out_unattached: Vec<String>,
    pub free: Vec<String>,
    pub introduces: Vec<String>,
    pub out_tys: Vec<String>,
    pub free_tys: Vec<String>,
    pub decl: String,
}

pub struct AdtParams {
    pub name: String,
    pub params: Vec<(String, Pos)>,
}

pub struct Table {
    pub entries: Vec<Entry>,
    pub adts: Vec<AdtParams>,
    pub macro_calls: Vec<(String, String, usize)>, // (macro, called path, number of table functions it resolves to)
    pub unclassified: Vec<String>,
    pub scanned: usize,
}

struct Cx<'a> {
    c: &'a Crate,
    aliases: BTreeMap<String, &'a ItemType>,
    adts: BTreeMap<String, Vec<(String, Pos)>>,
}

/// A callback bound: `for<binder> Fn*(inputs) -> output`.
#[derive(Clone)]
struct CbBound {
    binder: Vec<String>,
    inputs: Vec<Type>,
    output: Option<Type>,
}

fn lts_of_bound(b: &Option<BoundLifetimes>) -> Vec<String> {
    let mut v = vec![];
    if let Some(bl) = b {
        for p in &bl.lifetimes {
            if let GenericParam::Lifetime(l) = p {
                v.push(l.lifetime.ident.to_string());
            }
        }
    }
    v
}

fn cb_bounds_of<'b>(bounds: impl Iterator<Item = &'b TypeParamBound>, outer: &[String]) -> Vec<CbBound> {
    let mut v = vec![];
    for b in bounds {
        if let TypeParamBound::Trait(tb) = b {
            if let Some(seg) = tb.path.segments.last() {
                if ["Fn", "FnMut", "FnOnce"].contains(&seg.ident.to_string().as_str()) {
                    if let PathArguments::Parenthesized(pa) = &seg.arguments {
                        let mut binder = outer.to_vec();
                        binder.extend(lts_of_bound(&tb.lifetimes));
                        let output = match &pa.output {
                            ReturnType::Default => None,
                            ReturnType::Type(_, t) => Some((**t).clone()),
                        };
                        v.push(CbBound { binder, inputs: pa.inputs.iter().cloned().collect(), output });
                    }
                }
            }
        }
    }
    v
}

type CbMap = BTreeMap<String, Vec<CbBound>>;

fn collect_cb_bounds(g: &Generics, out: &mut CbMap) {
    for p in &g.params {
        if let GenericParam::Type(t) = p {
            let v = cb_bounds_of(t.bounds.iter(), &[]);
            if !v.is_empty() {
                out.entry(t.ident.to_string()).or_default().extend(v);
            }
        }
    }
    if let Some(w) = &g.where_clause {
        for pr in &w.predicates {
            if let WherePredicate::Type(pt) = pr {
                let outer = lts_of_bound(&pt.lifetimes);
                let v = cb_bounds_of(pt.bounds.iter(), &outer);
                if !v.is_empty() {
                    out.entry(toks(&pt.bounded_ty)).or_default().extend(v);
                }
            }
        }
    }
}

fn declared_lts(g: &Generics) -> Vec<String> {
    g.params.iter().filter_map(|p| if let GenericParam::Lifetime(l) = p { Some(l.lifetime.ident.to_string()) } else { None }).collect()
}

/// Does a token stream mention lifetime `'name`?
fn mentions_lt(ts: TokenStream, name: &str) -> bool {
    let mut prev_tick = false;
    for tt in ts {
        match tt {
            TokenTree::Group(g) => {
                if mentions_lt(g.stream(), name) {
                    return true;
                }
                prev_tick = false;
            }
            TokenTree::Ident(i) => {
                if prev_tick && i == name {
                    return true;
                }
                prev_tick = false;
            }
            TokenTree::Punct(p) => prev_tick = p.as_char() == '\'',
            _ => prev_tick = false,
        }
    }
    false
}

/// Which lifetime parameters of the crate's own structs / enums are brands?  A parameter is a plain
/// *borrow* exactly when every field that mentions it has the form `&'p [mut] U` with `U` not
/// mentioning `'p`; a parameter of a type whose name ends in `Builder` is *unattached*; everything
/// else is a brand (the strict reading: a brand in a result must be the brand of an input).
fn classify_adts(items: &Items) -> BTreeMap<String, Vec<(String, Pos)>> {
    use quote::ToTokens;
    let mut out = BTreeMap::new();
    let mut one = |name: String, g: &Generics, fields: Vec<&Type>| {
        let lts = declared_lts(g);
        if lts.is_empty() {
            return;
        }
        let mut v = vec![];
        for p in lts {
            let pos = if name.ends_with("Builder") {
                Pos::Unattached
            } else {
                let mut all_borrow = true;
                let mut any = false;
                for f in &fields {
                    if !mentions_lt(f.to_token_stream(), &p) {
                        continue;
                    }
                    any = true;
                    let ok = match f {
                        Type::Reference(r) => {
                            r.lifetime.as_ref().map(|l| l.ident == p.as_str()).unwrap_or(false)
                                && !mentions_lt(r.elem.to_token_stream(), &p)
                        }
                        _ => false,
                    };
                    if !ok {
                        all_borrow = false;
                    }
                }
                if any && all_borrow {
                    Pos::Ref
                } else {
                    Pos::Brand
                }
            };
            v.push((p, pos));
        }
        out.insert(name, v);
    };
    for (_, s) in &items.structs {
        one(s.ident.to_string(), &s.generics, s.fields.iter().map(|f| &f.ty).collect());
    }
    for (_, e) in &items.enums {
        one(e.ident.to_string(), &e.generics, e.variants.iter().flat_map(|v| v.fields.iter().map(|f| &f.ty)).collect());
    }
    out
}

struct Scope<'a> {
    module: &'a [String],
    self_ty: Option<&'a Type>,
    assoc: &'a BTreeMap<String, Type>,
    ty_params: &'a [String],
}

/// How an elided lifetime is named at the place being walked.
enum Elide<'e> {
    Fresh(&'e mut usize),   // inputs: every elided position is its own lifetime `'_k`
    Fixed(String),          // outputs: the lifetime the elision rules select
}

impl<'e> Elide<'e> {
    fn next(&mut self) -> String {
        match self {
            Elide::Fresh(n) => {
                **n += 1;
                format!("_{}", **n)
            }
            Elide::Fixed(s) => s.clone(),
        }
    }
}

struct Walker<'a, 'e> {
    cx: &'a Cx<'a>,
    sc: &'a Scope<'a>,
    elide: Elide<'e>,
    occ: Vec<Occ>,
    tys: Vec<String>,         // type parameters met (outside raw pointers)
    callbacks: Vec<CbBound>,  // Fn-shaped types met directly (`impl Fn…`, `dyn Fn…`, `fn(…)`)
    unknown: Vec<String>,
}

impl<'a, 'e> Walker<'a, 'e> {
    fn new(cx: &'a Cx<'a>, sc: &'a Scope<'a>, elide: Elide<'e>) -> Self {
        Walker { cx, sc, elide, occ: vec![], tys: vec![], callbacks: vec![], unknown: vec![] }
    }

    fn lt(&mut self, l: Option<&Lifetime>, pos: Pos, raw: bool) {
        let name = match l {
            Some(l) if l.ident != "_" => l.ident.to_string(),
            _ => self.elide.next(),
        };
        self.occ.push(Occ { lt: name, pos, raw });
    }

    fn bounds<'b>(&mut self, bounds: impl Iterator<Item = &'b TypeParamBound>, raw: bool, depth: usize) {
        for b in bounds {
            match b {
                TypeParamBound::Lifetime(l) => self.lt(Some(l), Pos::Ref, raw),
                TypeParamBound::Trait(tb) => {
                    let l = last_seg(&tb.path);
                    if ["Fn", "FnMut", "FnOnce"].contains(&l.as_str()) {
                        self.callbacks.extend(cb_bounds_of(std::iter::once(b), &[]));
                    } else {
                        let hr = lts_of_bound(&tb.lifetimes);
                        self.path_args(&tb.path, None, true, raw, depth, &hr);
                    }
                }
                _ => {}
            }
        }
    }

    /// Generic arguments of every segment of `p`. `params`: the lifetime-parameter kinds of the
    /// type the path names (crate ADT) — None for foreign types (ref position) — `as_trait`: a
    /// trait reference (brand position).
    fn path_args(&mut self, p: &Path, params: Option<&Vec<(String, Pos)>>, as_trait: bool, raw: bool, depth: usize, hr: &[String]) {
        let nseg = p.segments.len();
        for (k, seg) in p.segments.iter().enumerate() {
            let last = k + 1 == nseg;
            match &seg.arguments {
                PathArguments::AngleBracketed(a) => {
                    let mut li = 0usize;
                    for ga in &a.args {
                        match ga {
                            GenericArgument::Lifetime(l) => {
                                let pos = if as_trait {
                                    Pos::Brand
                                } else if let (true, Some(ps)) = (last, params) {
                                    ps.get(li).map(|x| x.1).unwrap_or(Pos::Brand)
                                } else {
                                    Pos::Ref
                                };
                                li += 1;
                                if hr.contains(&l.ident.to_string()) {
                                    continue; // bound by a `for<…>` inside the type itself
                                }
                                self.lt(Some(l), pos, raw);
                            }
                            GenericArgument::Type(t) => self.ty(t, raw, depth + 1),
                            GenericArgument::AssocType(at) => self.ty(&at.ty, raw, depth + 1),
                            _ => {}
                        }
                    }
                    if let (true, Some(ps)) = (last, params) {
                        // lifetime arguments left out (`Mutation` for `Mutation<'_>`): elided
                        for q in ps.iter().skip(li) {
                            self.lt(None, q.1, raw);
                        }
                    }
                }
                PathArguments::None => {
                    if let (true, Some(ps)) = (last, params) {
                        for q in ps.iter() {
                            self.lt(None, q.1, raw);
                        }
                    }
                }
                PathArguments::Parenthesized(_) => {}
            }
        }
    }

    fn ty(&mut self, t: &Type, raw: bool, depth: usize) {
        if depth > 24 {
            self.unknown.push(format!("type nesting too deep: {}", pretty(&toks(t))));
            return;
        }
        match t {
            Type::Paren(p) => self.ty(&p.elem, raw, depth),
            Type::Group(p) => self.ty(&p.elem, raw, depth),
            Type::Reference(r) => {
                self.lt(r.lifetime.as_ref(), Pos::Ref, raw);
                self.ty(&r.elem, raw, depth + 1)
            }
            Type::Slice(s) => self.ty(&s.elem, raw, depth + 1),
            Type::Array(a) => self.ty(&a.elem, raw, depth + 1),
            Type::Ptr(p) => self.ty(&p.elem, true, depth + 1),
            Type::Tuple(tu) => {
                for e in &tu.elems {
                    self.ty(e, raw, depth + 1);
                }
            }
            Type::Never(_) => {}
            Type::BareFn(f) => {
                let binder = lts_of_bound(&f.lifetimes);
                let output = match &f.output {
                    ReturnType::Default => None,
                    ReturnType::Type(_, t) => Some((**t).clone()),
                };
                self.callbacks.push(CbBound { binder, inputs: f.inputs.iter().map(|a| a.ty.clone()).collect(), output });
            }
            Type::ImplTrait(it) => self.bounds(it.bounds.iter(), raw, depth),
            Type::TraitObject(to) => self.bounds(to.bounds.iter(), raw, depth),
            Type::Path(tp) => {
                if let Some(q) = &tp.qself {
                    // <X as Trait<'a>>::Assoc — the trait's lifetime arguments are brand positions
                    self.ty(&q.ty, raw, depth + 1);
                    self.path_args(&tp.path, None, true, raw, depth, &[]);
                    return;
                }
                let p = &tp.path;
                let segs = path_segs(p);
                if self.sc.ty_params.contains(&segs[0]) {
                    if !raw {
                        self.tys.push(segs[0].clone());
                    }
                    return; // opaque: `T`, `P::Thin`
                }
                if segs[0] == "Self" {
                    if segs.len() == 1 {
                        match self.sc.self_ty {
                            Some(st) => self.ty(st, raw, depth + 1),
                            None => {
                                if !raw {
                                    self.tys.push("Self".into());
                                }
                            }
                        }
                    } else if let Some(at) = self.sc.assoc.get(&segs[1]) {
                        if segs.len() == 2 {
                            let at = at.clone();
                            self.ty(&at, raw, depth + 1);
                        }
                    } else if !raw {
                        self.tys.push("Self".into());
                    }
                    return;
                }
                let full = self.cx.c.resolve(self.sc.module, &segs, p.leading_colon.is_some()).join("::");
                let name = last_seg(p);
                let crate_like = full.starts_with("crate::") || full.starts_with('?');
                if crate_like {
                    if let Some(al) = self.cx.aliases.get(&name) {
                        // an alias with lifetime parameters left out entirely cannot be expanded by
                        // substitution; give every missing one an elided lifetime first
                        if let Some(exp) = expand_alias(al, p) {
                            let declared = declared_lts(&al.generics);
                            let given = match p.segments.last().map(|s| &s.arguments) {
                                Some(PathArguments::AngleBracketed(a)) => a.args.iter().filter(|g| matches!(g, GenericArgument::Lifetime(_))).count(),
                                _ => 0,
                            };
                            if given < declared.len() {
                                self.unknown.push(format!("alias {name} used with elided lifetime arguments: {}", pretty(&toks(t))));
                            }
                            self.ty(&exp, raw, depth + 1);
                            return;
                        }
                    }
                    if let Some(ps) = self.cx.adts.get(&name) {
                        let ps = ps.clone();
                        self.path_args(p, Some(&ps), false, raw, depth, &[]);
                        return;
                    }
                }
                self.path_args(p, None, false, raw, depth, &[]);
            }
            Type::Infer(_) => {}
            other => self.unknown.push(format!("type not understood: {}", pretty(&toks(other)))),
        }
    }
}

fn dedup(v: Vec<String>) -> Vec<String> {
    let mut seen = BTreeSet::new();
    v.into_iter().filter(|x| seen.insert(x.clone())).collect()
}

#[allow(clippy::too_many_arguments)]
fn analyse(
    cx: &Cx,
    module: &[String],
    name: String,
    self_head: String,
    trait_name: String,
    sig: &Signature,
    impl_generics: Option<&Generics>,
    trait_ref: Option<&Path>,
    self_ty: Option<&Type>,
    assoc: &BTreeMap<String, Type>,
    header: String,
    table: &mut Table,
    scanned_names: &mut Vec<(String, String, String)>,
) {
    table.scanned += 1;
    scanned_names.push((self_head.clone(), trait_name.clone(), sig.ident.to_string()));
    let mut ty_params: Vec<String> = vec![];
    let mut cbm: CbMap = BTreeMap::new();
    let mut generics_lts: Vec<String> = vec![];
    if let Some(g) = impl_generics {
        ty_params.extend(type_params(g));
        collect_cb_bounds(g, &mut cbm);
        generics_lts.extend(declared_lts(g));
    }
    ty_params.extend(type_params(&sig.generics));
    collect_cb_bounds(&sig.generics, &mut cbm);
    generics_lts.extend(declared_lts(&sig.generics));
    let sc = Scope { module, self_ty, assoc, ty_params: &ty_params };

    // ---- inputs -------------------------------------------------------------------------------
    let mut n_elided = 0usize;
    let mut in_occ: Vec<Occ> = vec![];
    let mut in_tys: Vec<String> = vec![];
    let mut direct_cbs: Vec<CbBound> = vec![];
    let mut unknown: Vec<String> = vec![];
    let mut self_lt: Option<String> = None;
    let mut has_receiver = false;
    for a in &sig.inputs {
        match a {
            FnArg::Receiver(r) => {
                has_receiver = true;
                let mut w = Walker::new(cx, &sc, Elide::Fresh(&mut n_elided));
                if r.colon_token.is_some() {
                    // `self: Gc<'gc, T, K>`, `self: &Self` …
                    if let Type::Reference(rr) = &*r.ty {
                        let l = rr.lifetime.as_ref().filter(|l| l.ident != "_").map(|l| l.ident.to_string()).unwrap_or_else(|| "_self".into());
                        w.occ.push(Occ { lt: l.clone(), pos: Pos::Ref, raw: false });
                        self_lt = Some(l);
                        w.ty(&rr.elem, false, 0);
                    } else {
                        w.ty(&r.ty, false, 0);
                    }
                } else {
                    if let Some((_, l)) = &r.reference {
                        let l = l.as_ref().filter(|l| l.ident != "_").map(|l| l.ident.to_string()).unwrap_or_else(|| "_self".into());
                        w.occ.push(Occ { lt: l.clone(), pos: Pos::Ref, raw: false });
                        self_lt = Some(l);
                    }
                    match self_ty {
                        Some(st) => w.ty(st, false, 0),
                        None => w.tys.push("Self".into()),
                    }
                }
                in_occ.extend(w.occ);
                in_tys.extend(w.tys);
                direct_cbs.extend(w.callbacks);
                unknown.extend(w.unknown);
            }
            FnArg::Typed(pt) => {
                let mut w = Walker::new(cx, &sc, Elide::Fresh(&mut n_elided));
                w.ty(&pt.ty, false, 0);
                in_occ.extend(w.occ);
                in_tys.extend(w.tys);
                direct_cbs.extend(w.callbacks);
                unknown.extend(w.unknown);
            }
        }
    }
    // ---- callbacks: parameters whose type is (bounded by) an Fn trait -----------------------------
    let mut cbs: Vec<CbBound> = direct_cbs;
    for (p, bs) in &cbm {
        if in_tys.contains(p) {
            cbs.extend(bs.iter().cloned());
        }
    }
    let mut introduces: Vec<String> = vec![];
    let mut out_occ: Vec<Occ> = vec![];
    let mut out_tys: Vec<String> = vec![];
    for cb in &cbs {
        for i in &cb.inputs {
            let mut w = Walker::new(cx, &sc, Elide::Fixed("_cb".into()));
            w.ty(i, false, 0);
            for o in w.occ {
                let bound = cb.binder.contains(&o.lt) || o.lt == "_cb";
                if bound {
                    if o.pos == Pos::Brand && !o.raw {
                        introduces.push(o.lt.clone());
                    }
                } else {
                    out_occ.push(o); // handed to client code with a lifetime the caller of the fn picked
                }
            }
            unknown.extend(w.unknown);
        }
        if let Some(o) = &cb.output {
            // what the callback returns is an input of the function
            let mut w = Walker::new(cx, &sc, Elide::Fixed("_cb".into()));
            w.ty(o, false, 0);
            for o in w.occ {
                if !(cb.binder.contains(&o.lt) || o.lt == "_cb") {
                    in_occ.push(o);
                }
            }
            in_tys.extend(w.tys);
            unknown.extend(w.unknown);
        }
    }
    // ---- output ---------------------------------------------------------------------------------
    let in_all: Vec<String> = dedup(in_occ.iter().filter(|o| !o.raw).map(|o| o.lt.clone()).collect());
    let elided_out = match &self_lt {
        Some(l) => l.clone(),
        None => {
            if in_all.len() == 1 {
                in_all[0].clone()
            } else {
                "_unresolved".into()
            }
        }
    };
    if let ReturnType::Type(_, rt) = &sig.output {
        let mut w = Walker::new(cx, &sc, Elide::Fixed(elided_out));
        w.ty(rt, false, 0);
        out_occ.extend(w.occ);
        out_tys.extend(w.tys);
        unknown.extend(w.unknown);
        // a returned closure type is not looked into
    }
    let out_brands = dedup(out_occ.iter().filter(|o| !o.raw && o.pos == Pos::Brand).map(|o| o.lt.clone()).collect());
    let out_refs = dedup(out_occ.iter().filter(|o| !o.raw && o.pos == Pos::Ref && o.lt != "static").map(|o| o.lt.clone()).collect());
    let out_unattached = dedup(out_occ.iter().filter(|o| !o.raw && o.pos == Pos::Unattached).map(|o| o.lt.clone()).collect());
    let out_raw = dedup(out_occ.iter().filter(|o| o.raw && o.lt != "static").map(|o| o.lt.clone()).collect());
    let in_brands = dedup(in_occ.iter().filter(|o| !o.raw && o.pos == Pos::Brand).map(|o| o.lt.clone()).collect());
    let mut free: Vec<String> = vec![];
    for l in &out_brands {
        if !in_brands.contains(l) {
            free.push(l.clone());
        }
    }
    for l in &out_refs {
        if !in_all.contains(l) {
            free.push(l.clone());
        }
    }
    let free = dedup(free);
    let out_tys = dedup(out_tys);
    let in_tys = dedup(in_tys);
    let free_tys: Vec<String> = out_tys.iter().filter(|t| !in_tys.contains(t)).cloned().collect();
    let _ = (trait_ref, &generics_lts);
    for u in dedup(unknown) {
        table.unclassified.push(format!("{name}: {u}"));
    }
    let named_ref_out = out_refs.iter().any(|l| !l.starts_with('_'));
    let relevant = !out_brands.is_empty() || named_ref_out || !introduces.is_empty() || !free.is_empty() || !out_unattached.is_empty();
    if !relevant {
        return;
    }
    table.entries.push(Entry {
        name,
        self_head,
        trait_name,
        method: sig.ident.to_string(),
        is_unsafe: sig.unsafety.is_some(),
        macro_reachable: false,
        via_macros: vec![],
        has_receiver,
        out_brands,
        in_brands,
        out_refs,
        in_lts: in_all,
        out_raw,
        out_unattached,
        free,
        introduces: dedup(introduces),
        out_tys,
        free_tys,
        decl: format!("{header}{}", pretty(&toks(sig))),
    });
}

/// Paths called inside `unsafe { … }` blocks of a `macro_rules!` body: `$crate::a::B::c(…)`.
fn unsafe_calls(ts: TokenStream, inside: bool, out: &mut Vec<Vec<String>>) {
    let v: Vec<TokenTree> = ts.into_iter().collect();
    let mut i = 0;
    while i < v.len() {
        match &v[i] {
            TokenTree::Ident(id) if id == "unsafe" => {
                if let Some(TokenTree::Group(g)) = v.get(i + 1) {
                    if g.delimiter() == Delimiter::Brace {
                        unsafe_calls(g.stream(), true, out);
                        i += 2;
                        continue;
                    }
                }
                i += 1;
            }
            TokenTree::Ident(_) if inside => {
                // maximal path  a :: b :: c  followed by a parenthesised group
                let mut segs = vec![];
                let mut j = i;
                loop {
                    match v.get(j) {
                        Some(TokenTree::Ident(id)) => segs.push(id.to_string()),
                        _ => break,
                    }
                    // optional turbofish / generic args are not used by the crate's macros
                    let c1 = matches!(v.get(j + 1), Some(TokenTree::Punct(p)) if p.as_char() == ':');
                    let c2 = matches!(v.get(j + 2), Some(TokenTree::Punct(p)) if p.as_char() == ':');
                    if c1 && c2 {
                        j += 3;
                    } else {
                        j += 1;
                        break;
                    }
                }
                let is_method = i > 0 && matches!(&v[i - 1], TokenTree::Punct(p) if p.as_char() == '.');
                if let Some(TokenTree::Group(g)) = v.get(j) {
                    if g.delimiter() == Delimiter::Parenthesis && !segs.is_empty() {
                        if is_method {
                            segs.insert(0, ".".into());
                        }
                        out.push(segs);
                    }
                }
                i = j.max(i + 1);
            }
            TokenTree::Group(g) => {
                unsafe_calls(g.stream(), inside, out);
                i += 1;
            }
            _ => i += 1,
        }
    }
}

fn self_head_of(t: &Type) -> String {
    match t {
        Type::Path(tp) if tp.qself.is_none() => last_seg(&tp.path),
        Type::Reference(_) => "&".into(),
        Type::Slice(_) => "[]".into(),
        Type::Array(_) => "[;]".into(),
        Type::Tuple(_) => "()".into(),
        Type::Paren(p) => self_head_of(&p.elem),
        Type::Group(p) => self_head_of(&p.elem),
        Type::TraitObject(_) => "dyn".into(),
        _ => "?".into(),
    }
}

pub fn extract(c: &Crate, items: &Items, raw: &Raw) -> Table {
    let mut t = Table { entries: vec![], adts: vec![], macro_calls: vec![], unclassified: vec![], scanned: 0 };
    let mut aliases = BTreeMap::new();
    for (_, a) in &items.aliases {
        aliases.insert(a.ident.to_string(), a);
    }
    let adts = classify_adts(items);
    for (n, ps) in &adts {
        t.adts.push(AdtParams { name: n.clone(), params: ps.clone() });
    }
    let cx = Cx { c, aliases, adts };
    let mut scanned: Vec<(String, String, String)> = vec![];
    let empty = BTreeMap::new();
    for (module, i) in &items.impls {
        let self_name = pretty(&toks(&*i.self_ty));
        let tr_path = i.trait_.as_ref().map(|t| &t.1);
        let tr = tr_path.map(last_seg);
        let mut assoc = BTreeMap::new();
        for it in &i.items {
            if let ImplItem::Type(ty) = it {
                assoc.insert(ty.ident.to_string(), ty.ty.clone());
            }
        }
        let (ig, _, wc) = i.generics.split_for_impl();
        let header = format!(
            "impl{} {}{}{} :: ",
            pretty(&toks(&ig)),
            tr_path.map(|p| format!("{} for ", pretty(&toks(p)))).unwrap_or_default(),
            self_name,
            wc.map(|w| format!(" {}", pretty(&toks(w)))).unwrap_or_default()
        );
        for it in &i.items {
            let ImplItem::Fn(f) = it else { continue };
            let public = tr.is_some() || matches!(f.vis, Visibility::Public(_));
            if !public || is_verif_gated(&f.attrs) {
                continue;
            }
            let name = match (&tr, tr_path) {
                (Some(_), Some(p)) => format!("<{self_name} as {}>::{}", pretty(&toks(p)), f.sig.ident),
                _ => format!("{self_name}::{}", f.sig.ident),
            };
            analyse(
                &cx,
                module,
                name,
                self_head_of(&i.self_ty),
                tr.clone().unwrap_or_default(),
                &f.sig,
                Some(&i.generics),
                tr_path,
                Some(&i.self_ty),
                &assoc,
                header.clone(),
                &mut t,
                &mut scanned,
            );
        }
    }
    for (k, (module, f)) in items.fns.iter().enumerate() {
        let nested = items.fn_nested.get(k).copied().unwrap_or(false);
        if matches!(f.vis, Visibility::Public(_)) && !nested {
            analyse(&cx, module, format!("fn {}", f.sig.ident), String::new(), String::new(), &f.sig, None, None, None, &empty, String::new(), &mut t, &mut scanned);
        }
    }
    for (module, tr) in &items.traits {
        for it in &tr.items {
            if let TraitItem::Fn(f) = it {
                if f.default.is_some() {
                    let header = format!("trait {}{} :: ", tr.ident, pretty(&toks(&tr.generics)));
                    analyse(
                        &cx,
                        module,
                        format!("trait {}::{}", tr.ident, f.sig.ident),
                        "Self".into(),
                        tr.ident.to_string(),
                        &f.sig,
                        Some(&tr.generics),
                        None,
                        None,
                        &empty,
                        header,
                        &mut t,
                        &mut scanned,
                    );
                }
            }
        }
    }
    // ---- functions reached from the `unsafe { }` blocks of exported macros -------------------------
    for f in &raw.files {
        struct V<'x> {
            out: &'x mut Vec<(String, bool, TokenStream)>,
        }
        impl<'x, 'ast> syn::visit::Visit<'ast> for V<'x> {
            fn visit_item_macro(&mut self, m: &'ast ItemMacro) {
                if is_verif_gated(&m.attrs) || !m.mac.path.is_ident("macro_rules") {
                    return;
                }
                let exported = m.attrs.iter().any(|a| a.path().is_ident("macro_export"));
                self.out.push((m.ident.as_ref().map(|i| i.to_string()).unwrap_or_default(), exported, m.mac.tokens.clone()));
            }
        }
        let mut ms = vec![];
        syn::visit::Visit::visit_file(&mut V { out: &mut ms }, &f.ast);
        for (mname, exported, body) in ms {
            if !exported {
                continue;
            }
            let mut calls = vec![];
            unsafe_calls(body, false, &mut calls);
            for segs in calls {
                let segs: Vec<String> = segs.into_iter().filter(|s| s != "crate").collect();
                let method = segs.last().cloned().unwrap_or_default();
                let owner = if segs.len() >= 2 { segs[segs.len() - 2].clone() } else { String::new() };
                // resolve by name: `Owner::method` where Owner is a trait or the head of a self type;
                // a method call `.m(…)` or a bare `m(…)` resolves to every function of that name
                let matches_owner = |sh: &str, tn: &str| owner.is_empty() || owner == "." || sh == owner || tn == owner;
                let n_scanned = scanned.iter().filter(|(sh, tn, m)| *m == method && matches_owner(sh, tn)).count();
                for e in t.entries.iter_mut() {
                    if e.method == method && matches_owner(&e.self_head, &e.trait_name) {
                        e.macro_reachable = true;
                        if !e.via_macros.contains(&mname) {
                            e.via_macros.push(mname.clone());
                        }
                    }
                }
                let path = segs.join("::");
                // calls to closures / local bindings inside the block (`coerce(…)`) do not occur in
                // exported macros of the crate; anything that resolves to no scanned function is
                // reported (fail closed)
                if n_scanned == 0 {
                    t.unclassified.push(format!("macro {mname}!: `{path}` is called in its unsafe block but resolves to no scanned function"));
                }
                t.macro_calls.push((mname.clone(), path, n_scanned));
            }
        }
    }
    if !t.entries.iter().any(|e| e.self_head == "Gc" && e.method == "new") {
        t.unclassified.push("Gc::new not found among the signatures".into());
    }
    t
}

fn pos_lean(p: Pos) -> &'static str {
    match p {
        Pos::Brand => ".brand",
        Pos::Ref => ".borrow",
        Pos::Unattached => ".unattached",
    }
}

impl Table {
    pub fn to_lean(&self, header: &str) -> String {
        let mut s = String::new();
        s.push_str(header);
        s.push_str("import GcArena.Model.BrandFlow\nnamespace GcArena.Generated\nopen GcArena.BrandFlow\n\n");
        s.push_str(&format!(
            "/-- {} signatures scanned (safe `pub` fns, trait-impl methods, default trait methods, `unsafe fn`s);\n    those below return (or hand to a callback) something that carries a lifetime. -/\n",
            self.scanned
        ));
        s.push_str("def brandFlow : Table := {\n  sigs := [\n");
        let sl = |v: &Vec<String>| lean_list(&v.iter().map(|x| lean_str(x)).collect::<Vec<_>>());
        let v: Vec<String> = self
            .entries
            .iter()
            .map(|e| {
                format!(
                    "    -- {}\n    {{ name := {}, selfHead := {}, traitName := {}, method := {},\n      isUnsafe := {}, macroReachable := {}, hasReceiver := {},\n      outBrands := {}, inBrands := {}, outRefs := {}, inLts := {},\n      outUnattached := {}, free := {}, introduces := {} }}",
                    e.decl.replace('\n', " "),
                    lean_str(&e.name),
                    lean_str(&e.self_head),
                    lean_str(&e.trait_name),
                    lean_str(&e.method),
                    lean_bool(e.is_unsafe),
                    lean_bool(e.macro_reachable),
                    lean_bool(e.has_receiver),
                    sl(&e.out_brands),
                    sl(&e.in_brands),
                    sl(&e.out_refs),
                    sl(&e.in_lts),
                    sl(&e.out_unattached),
                    sl(&e.free),
                    sl(&e.introduces),
                )
            })
            .collect();
        s.push_str(&v.join(",\n"));
        s.push_str("\n  ],\n  lifetimeParams := [\n");
        let a: Vec<String> = self
            .adts
            .iter()
            .flat_map(|a| a.params.iter().map(move |(l, p)| format!("    ({}, {}, {})", lean_str(&a.name), lean_str(l), pos_lean(*p))))
            .collect();
        s.push_str(&a.join(",\n"));
        s.push_str("\n  ],\n  macroCalls := [\n");
        let m: Vec<String> = self.macro_calls.iter().map(|(m, p, n)| format!("    ({}, {}, {})", lean_str(m), lean_str(p), n)).collect();
        s.push_str(&m.join(",\n"));
        s.push_str(&format!(
            "\n  ],\n  unclassified := {}\n}}\n\nend GcArena.Generated\n",
            lean_list(&self.unclassified.iter().map(|x| lean_str(x)).collect::<Vec<_>>())
        ));
        s
    }

    pub fn to_json(&self) -> String {
        let sl = |v: &Vec<String>| format!("[{}]", v.iter().map(|x| json_str(x)).collect::<Vec<_>>().join(","));
        let es: Vec<String> = self
            .entries
            .iter()
            .map(|e| {
                format!(
                    "{{\"name\":{},\"self_head\":{},\"trait\":{},\"method\":{},\"is_unsafe\":{},\"macro_reachable\":{},\"via_macros\":{},\"has_receiver\":{},\"out_brands\":{},\"in_brands\":{},\"out_refs\":{},\"in_lts\":{},\"out_raw\":{},\"out_unattached\":{},\"free\":{},\"introduces\":{},\"out_tys\":{},\"free_tys\":{},\"decl\":{}}}",
                    json_str(&e.name),
                    json_str(&e.self_head),
                    json_str(&e.trait_name),
                    json_str(&e.method),
                    e.is_unsafe,
                    e.macro_reachable,
                    sl(&e.via_macros),
                    e.has_receiver,
                    sl(&e.out_brands),
                    sl(&e.in_brands),
                    sl(&e.out_refs),
                    sl(&e.in_lts),
                    sl(&e.out_raw),
                    sl(&e.out_unattached),
                    sl(&e.free),
                    sl(&e.introduces),
                    sl(&e.out_tys),
                    sl(&e.free_tys),
                    json_str(&e.decl)
                )
            })
            .collect();
        let adts: Vec<String> = self
            .adts
            .iter()
            .map(|a| {
                format!(
                    "{{\"name\":{},\"params\":[{}]}}",
                    json_str(&a.name),
                    a.params.iter().map(|(l, p)| format!("[{},{}]", json_str(l), json_str(&pos_lean(*p)[1..]))).collect::<Vec<_>>().join(",")
                )
            })
            .collect();
        let mc: Vec<String> = self.macro_calls.iter().map(|(m, p, n)| format!("[{},{},{}]", json_str(m), json_str(p), n)).collect();
        format!(
            "{{\"scanned\":{},\"entries\":[{}],\"adts\":[{}],\"macro_calls\":[{}],\"unclassified\":[{}]}}",
            self.scanned,
            es.join(",\n"),
            adts.join(","),
            mc.join(","),
            self.unclassified.iter().map(|x| json_str(x)).collect::<Vec<_>>().join(",")
        )
    }
}
