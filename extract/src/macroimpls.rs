//! MacroImpls: the *templates* of exported macros that expand to `unsafe impl … Collect<'gc> for $type`
//! (`static_collect!`, `__dyn_collect!` = `dyn_collect!`).  The crate's own invocations are ordinary
//! items of the macro-expanded crate (CollectTable); the generic arms are only ever instantiated by
//! clients, so every arm's expansion template is read here, from the raw source, into one row.
//!
//! Fails closed: an exported macro whose body mentions both `impl` and `Collect` but does not have the
//! expected shape becomes an `unclassified` entry.
use crate::common::*;
use crate::raw::Raw;
use proc_macro2::{Delimiter, TokenStream, TokenTree};
use syn::visit::Visit;
use syn::*;

pub struct Row {
    pub macro_name: String,
    pub arm: usize,
    pub has_params: bool,      // the arm declares generic parameters supplied by the user
    pub gc_in_scope: bool,     // the impl header declares `'gc`, which the user-supplied type can name
    pub type_var: String,      // metavariable holding the user-supplied type
    pub type_static: bool,     // where-clause has `$type: 'static` on the user-supplied type itself
    pub params_static: bool,   // where-clause has `$($params: 'static,)+`
    pub user_bounds: bool,     // user-supplied where-predicates are spliced in
    pub needs_trace: String,   // Lean text: .defaulted | .explicitTrue | .explicitFalse | .expr "…"
    pub needs_trace_key: String,
    pub trace: String,         // Lean text: .noop | .forwardsDyn | .other "…"
    pub trace_key: String,
    pub is_unsafe_impl: bool,
    pub text: String,          // the impl header as written in the template
}

pub struct Table {
    pub rows: Vec<Row>,
    pub unclassified: Vec<String>,
}

fn flat(ts: TokenStream) -> Vec<TokenTree> {
    ts.into_iter().collect()
}
fn is_punct(t: &TokenTree, c: char) -> bool {
    matches!(t, TokenTree::Punct(p) if p.as_char() == c)
}
fn is_ident(t: &TokenTree, s: &str) -> bool {
    matches!(t, TokenTree::Ident(i) if i == s)
}
fn text(ts: &[TokenTree]) -> String {
    let s: TokenStream = ts.iter().cloned().collect();
    toks(&s)
}

/// Occurrences of identifier `s` at any nesting depth.
fn count_ident(ts: &TokenStream, s: &str) -> usize {
    ts.clone()
        .into_iter()
        .map(|t| match &t {
            TokenTree::Group(g) => count_ident(&g.stream(), s),
            t if is_ident(t, s) => 1,
            _ => 0,
        })
        .sum()
}

/// The first `#…` (at any depth) that is not one of the attributes without semantic effect
/// (`#[inline…]`, `#[allow…]`, `#[doc…]`).
fn foreign_attr(ts: &TokenStream) -> Option<String> {
    let tt = flat(ts.clone());
    for (i, t) in tt.iter().enumerate() {
        match t {
            TokenTree::Group(g) => {
                if i > 0 && is_punct(&tt[i - 1], '#') {
                    continue; // the attribute's own bracket group, judged below
                }
                if let Some(a) = foreign_attr(&g.stream()) {
                    return Some(a);
                }
            }
            t if is_punct(t, '#') => {
                let mut j = i + 1;
                if j < tt.len() && is_punct(&tt[j], '!') {
                    j += 1;
                }
                let ok = match tt.get(j) {
                    Some(TokenTree::Group(g)) if g.delimiter() == Delimiter::Bracket => {
                        matches!(flat(g.stream()).first(), Some(TokenTree::Ident(id)) if ["inline", "allow", "doc"].contains(&id.to_string().as_str()))
                    }
                    _ => false,
                };
                if !ok {
                    return Some(text(&tt[i..(j + 1).min(tt.len())]));
                }
            }
            _ => {}
        }
    }
    None
}

/// Analyse one arm's expansion template. Err(reason) if the shape is not understood.
fn analyse(macro_name: &str, arm: usize, matcher: &TokenStream, body: &TokenStream) -> std::result::Result<Row, String> {
    let tt = flat(body.clone());
    // attributes can switch an item off (`#[cfg(..)]`, `#[cfg_attr(..)]`) or change its meaning: any `#`
    // at any depth other than the harmless ones is not understood (fail closed)
    if let Some(a) = foreign_attr(body) {
        return Err(format!("the template carries an attribute the translator does not interpret: `{a}`"));
    }
    let impls: Vec<usize> = tt.iter().enumerate().filter(|(_, t)| is_ident(t, "impl")).map(|(i, _)| i).collect();
    let deep = count_ident(body, "impl");
    if impls.len() != 1 || deep != 1 {
        return Err(format!("{} `impl` keywords in the template ({} at the top level): exactly one impl item expected", deep, impls.len()));
    }
    let k = impls[0];
    let is_unsafe_impl = k > 0 && is_ident(&tt[k - 1], "unsafe");
    let mut i = k + 1;
    // generics
    let mut generics: Vec<TokenTree> = vec![];
    if i < tt.len() && is_punct(&tt[i], '<') {
        let mut depth = 0i32;
        while i < tt.len() {
            if is_punct(&tt[i], '<') {
                depth += 1;
            } else if is_punct(&tt[i], '>') {
                depth -= 1;
                if depth == 0 {
                    i += 1;
                    break;
                }
            }
            if depth >= 1 && !(depth == 1 && is_punct(&tt[i], '<') && generics.is_empty()) {
                generics.push(tt[i].clone());
            }
            i += 1;
        }
    }
    let gc_in_scope = generics.windows(2).any(|w| is_punct(&w[0], '\'') && is_ident(&w[1], "gc"));
    let has_params = generics.windows(2).any(|w| is_punct(&w[0], '$') && matches!(&w[1], TokenTree::Group(g) if g.delimiter() == Delimiter::Parenthesis));
    // trait path up to `for`
    let mut trait_toks = vec![];
    while i < tt.len() && !is_ident(&tt[i], "for") {
        trait_toks.push(tt[i].clone());
        i += 1;
    }
    let trait_text = text(&trait_toks).replace(' ', "");
    if trait_text != "$crate::Collect<'gc>" {
        return Err(format!("the implemented trait is `{trait_text}`, not `$crate::Collect<'gc>`"));
    }
    i += 1; // `for`
    if i + 1 >= tt.len() || !is_punct(&tt[i], '$') {
        return Err("the self type is not a single metavariable".into());
    }
    let type_var = match &tt[i + 1] {
        TokenTree::Ident(id) => id.to_string(),
        _ => return Err("the self type is not a single metavariable".into()),
    };
    i += 2;
    // the metavariable must be a `ty` fragment of the matcher
    let m = toks(matcher).replace(' ', "");
    if !m.contains(&format!("${type_var}:ty")) {
        return Err(format!("`${type_var}` is not a `ty` fragment of the matcher"));
    }
    // where clause
    let mut where_toks = vec![];
    if i < tt.len() && is_ident(&tt[i], "where") {
        i += 1;
        while i < tt.len() && !matches!(&tt[i], TokenTree::Group(g) if g.delimiter() == Delimiter::Brace) {
            where_toks.push(tt[i].clone());
            i += 1;
        }
    }
    let type_static = where_toks.windows(5).any(|w| {
        is_punct(&w[0], '$') && is_ident(&w[1], &type_var) && is_punct(&w[2], ':') && is_punct(&w[3], '\'') && is_ident(&w[4], "static")
    });
    let mut params_static = false;
    let mut user_bounds = false;
    for w in where_toks.windows(2) {
        if is_punct(&w[0], '$') {
            if let TokenTree::Group(g) = &w[1] {
                let inner = toks(&g.stream()).replace(' ', "");
                if inner.ends_with(":'static,") || inner.ends_with(":'static") {
                    params_static = true;
                } else {
                    user_bounds = true;
                }
            }
        }
    }
    // impl body
    let body_group = match tt.get(i) {
        Some(TokenTree::Group(g)) if g.delimiter() == Delimiter::Brace => g.stream(),
        _ => return Err("no impl body found".into()),
    };
    if tt.len() > i + 1 {
        return Err("tokens after the impl body".into());
    }
    let bt = flat(body_group);
    // const NEEDS_TRACE: bool = <expr>;
    let mut needs = (".defaulted".to_string(), "defaulted".to_string());
    for (j, t) in bt.iter().enumerate() {
        if is_ident(t, "NEEDS_TRACE") && j > 0 && is_ident(&bt[j - 1], "const") {
            let mut e = vec![];
            let mut q = j + 1;
            while q < bt.len() && !is_punct(&bt[q], '=') {
                q += 1;
            }
            q += 1;
            while q < bt.len() && !is_punct(&bt[q], ';') {
                e.push(bt[q].clone());
                q += 1;
            }
            let et = text(&e);
            needs = match et.as_str() {
                "false" => (".explicitFalse".into(), "explicitFalse".into()),
                "true" => (".explicitTrue".into(), "explicitTrue".into()),
                _ => (format!("(.expr {})", lean_str(&et)), format!("expr:{et}")),
            };
        }
    }
    // fn trace … { body }
    let mut trace = (".noop".to_string(), "noop".to_string());
    for (j, t) in bt.iter().enumerate() {
        if is_ident(t, "trace") && j > 0 && is_ident(&bt[j - 1], "fn") {
            let fb = bt[j..].iter().find_map(|x| match x {
                TokenTree::Group(g) if g.delimiter() == Delimiter::Brace => Some(g.stream()),
                _ => None,
            });
            let b = fb.map(|s| toks(&s).replace(' ', "")).unwrap_or_default();
            trace = if b.is_empty() {
                (".noop".into(), "noop".into())
            } else if b == "$crate::collect::DynCollect::dyn_trace(self,cc);" || b == "$crate::collect::DynCollect::dyn_trace(self,cc)" {
                (".forwardsDyn".into(), "forwardsDyn".into())
            } else {
                (format!("(.other {})", lean_str(&b)), format!("other:{b}"))
            };
        }
    }
    let header = pretty(&format!("{}impl<{}> $crate::Collect<'gc> for ${type_var}{}", if is_unsafe_impl { "unsafe " } else { "" }, text(&generics), if where_toks.is_empty() { String::new() } else { format!(" where {}", text(&where_toks)) }));
    Ok(Row {
        macro_name: macro_name.to_string(),
        arm,
        has_params,
        gc_in_scope,
        type_var,
        type_static,
        params_static,
        user_bounds,
        needs_trace: needs.0,
        needs_trace_key: needs.1,
        trace: trace.0,
        trace_key: trace.1,
        is_unsafe_impl,
        text: header,
    })
}

pub fn extract(raw: &Raw) -> Table {
    let mut t = Table { rows: vec![], unclassified: vec![] };
    struct V<'x> {
        out: &'x mut Vec<(String, TokenStream)>,
    }
    impl<'ast, 'x> Visit<'ast> for V<'x> {
        fn visit_item_macro(&mut self, m: &'ast ItemMacro) {
            if is_verif_gated(&m.attrs) || !m.mac.path.is_ident("macro_rules") {
                return;
            }
            if !m.attrs.iter().any(|a| a.path().is_ident("macro_export")) {
                return;
            }
            self.out.push((m.ident.as_ref().map(|i| i.to_string()).unwrap_or_default(), m.mac.tokens.clone()));
        }
    }
    let mut macros = vec![];
    for f in &raw.files {
        V { out: &mut macros }.visit_file(&f.ast);
    }
    for (name, body) in macros {
        if !(mentions_ident(&body, "impl") && mentions_ident(&body, "Collect")) {
            continue;
        }
        // arms: ( matcher ) => { body } ;
        let tt = flat(body);
        let mut i = 0;
        let mut arm = 0;
        let mut any = false;
        while i < tt.len() {
            let (TokenTree::Group(mg), Some(e1), Some(e2), Some(TokenTree::Group(bg))) = (&tt[i], tt.get(i + 1), tt.get(i + 2), tt.get(i + 3)) else {
                t.unclassified.push(format!("macro {name}!: arm {arm} is not of the form `(matcher) => {{ body }}`"));
                break;
            };
            if !is_punct(e1, '=') || !is_punct(e2, '>') {
                t.unclassified.push(format!("macro {name}!: arm {arm} is not of the form `(matcher) => {{ body }}`"));
                break;
            }
            any = true;
            match analyse(&name, arm, &mg.stream(), &bg.stream()) {
                Ok(r) => t.rows.push(r),
                Err(why) => t.unclassified.push(format!("macro {name}! arm {arm}: expansion template not understood ({why})")),
            }
            i += 4;
            if i < tt.len() && is_punct(&tt[i], ';') {
                i += 1;
            }
            arm += 1;
        }
        if !any {
            t.unclassified.push(format!("macro {name}! emits a Collect impl but has no readable arm"));
        }
    }
    for want in ["static_collect", "__dyn_collect"] {
        if !t.rows.iter().any(|r| r.macro_name == want) {
            t.unclassified.push(format!("exported macro {want}! not found (or none of its arms understood)"));
        }
    }
    t
}

impl Table {
    pub fn to_lean(&self, header: &str) -> String {
        let mut s = String::new();
        s.push_str(header);
        s.push_str("import GcArena.Model.MacroImpls\nnamespace GcArena.Generated\nopen GcArena.MacroImpls\n\n");
        s.push_str("/-- One row per arm of every exported macro whose expansion is an `unsafe impl … Collect<'gc> for $type`. -/\ndef macroImpls : List Template := [\n");
        let v: Vec<String> = self
            .rows
            .iter()
            .map(|r| {
                format!(
                    "  -- {}\n  {{ macroName := {}, arm := {}, hasParams := {}, gcInScope := {}, typeStatic := {}, paramsStatic := {}, userBounds := {},\n    needsTrace := {}, trace := {}, isUnsafeImpl := {} }}",
                    r.text,
                    lean_str(&r.macro_name),
                    r.arm,
                    lean_bool(r.has_params),
                    lean_bool(r.gc_in_scope),
                    lean_bool(r.type_static),
                    lean_bool(r.params_static),
                    lean_bool(r.user_bounds),
                    r.needs_trace,
                    r.trace,
                    lean_bool(r.is_unsafe_impl)
                )
            })
            .collect();
        s.push_str(&v.join(",\n"));
        s.push_str(&format!(
            "\n]\n\ndef macroImplsUnclassified : List String := {}\n\nend GcArena.Generated\n",
            lean_list(&self.unclassified.iter().map(|x| lean_str(x)).collect::<Vec<_>>())
        ));
        s
    }

    pub fn to_json(&self) -> String {
        let rows: Vec<String> = self
            .rows
            .iter()
            .map(|r| {
                format!(
                    "{{\"macro\":{},\"arm\":{},\"has_params\":{},\"gc_in_scope\":{},\"type_var\":{},\"type_static\":{},\"params_static\":{},\"user_bounds\":{},\"needs_trace\":{},\"trace\":{},\"is_unsafe_impl\":{},\"text\":{}}}",
                    json_str(&r.macro_name),
                    r.arm,
                    r.has_params,
                    r.gc_in_scope,
                    json_str(&r.type_var),
                    r.type_static,
                    r.params_static,
                    r.user_bounds,
                    json_str(&r.needs_trace_key),
                    json_str(&r.trace_key),
                    r.is_unsafe_impl,
                    json_str(&r.text)
                )
            })
            .collect();
        format!("{{\"rows\":[{}],\"unclassified\":[{}]}}", rows.join(","), self.unclassified.iter().map(|x| json_str(x)).collect::<Vec<_>>().join(","))
    }
}
