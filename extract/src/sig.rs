//! SigTable: public signatures whose result carries a handle (`Gc`, `GcWeak`, `DynamicRoot`, …) on a
//! caller-chosen type parameter, with the occurrences of that parameter in result and inputs.
use crate::common::*;
use crate::raw::Raw;
use proc_macro2::{TokenStream, TokenTree};
use std::collections::BTreeMap;
use syn::*;

pub struct Req {
    pub param: String,
    pub ret_paths: Vec<Vec<String>>,
    pub in_paths: Vec<Vec<String>>,
}
pub struct Sig {
    pub name: String,
    pub is_unsafe: bool,
    pub is_macro: bool,
    pub reqs: Vec<Req>,
    pub decl: String,
}
pub struct Table {
    pub sigs: Vec<Sig>,
    pub unclassified: Vec<String>,
    pub scanned: usize,
}

struct Ctx<'a> {
    c: &'a Crate,
    aliases: BTreeMap<String, &'a ItemType>,
}

/// Replace identifiers / lifetimes in a token stream.
fn subst(ts: TokenStream, tys: &BTreeMap<String, TokenStream>, lts: &BTreeMap<String, String>) -> TokenStream {
    let mut out = TokenStream::new();
    let mut prev_tick = false;
    for tt in ts {
        match tt {
            TokenTree::Group(g) => {
                let inner = subst(g.stream(), tys, lts);
                let mut ng = proc_macro2::Group::new(g.delimiter(), inner);
                ng.set_span(g.span());
                out.extend([TokenTree::Group(ng)]);
                prev_tick = false;
            }
            TokenTree::Ident(i) => {
                let name = i.to_string();
                if prev_tick {
                    if let Some(n) = lts.get(&name) {
                        out.extend([TokenTree::Ident(proc_macro2::Ident::new(n, i.span()))]);
                    } else {
                        out.extend([TokenTree::Ident(i)]);
                    }
                } else if let Some(rep) = tys.get(&name) {
                    let g = proc_macro2::Group::new(proc_macro2::Delimiter::None, rep.clone());
                    out.extend([TokenTree::Group(g)]);
                } else {
                    out.extend([TokenTree::Ident(i)]);
                }
                prev_tick = false;
            }
            TokenTree::Punct(p) => {
                prev_tick = p.as_char() == '\'';
                out.extend([TokenTree::Punct(p)]);
            }
            other => {
                out.extend([other]);
                prev_tick = false;
            }
        }
    }
    out
}

pub fn expand_alias(al: &ItemType, p: &Path) -> Option<Type> {
    use quote::ToTokens;
    let args: Vec<&GenericArgument> = match p.segments.last().map(|s| &s.arguments) {
        Some(PathArguments::AngleBracketed(a)) => a.args.iter().collect(),
        _ => vec![],
    };
    let mut ty_args = args.iter().filter_map(|a| if let GenericArgument::Type(t) = a { Some(t.to_token_stream()) } else { None });
    let mut lt_args = args.iter().filter_map(|a| if let GenericArgument::Lifetime(l) = a { Some(l.ident.to_string()) } else { None });
    let mut tys = BTreeMap::new();
    let mut lts = BTreeMap::new();
    for gp in &al.generics.params {
        match gp {
            GenericParam::Type(tp) => {
                let v = match ty_args.next() {
                    Some(v) => v,
                    None => tp.default.as_ref()?.to_token_stream(),
                };
                tys.insert(tp.ident.to_string(), v);
            }
            GenericParam::Lifetime(lp) => {
                if let Some(l) = lt_args.next() {
                    lts.insert(lp.lifetime.ident.to_string(), l);
                }
            }
            GenericParam::Const(_) => {}
        }
    }
    let body = subst(al.ty.to_token_stream(), &tys, &lts);
    syn::parse2::<Type>(body).ok()
}

type FnBounds = BTreeMap<String, Vec<(Vec<Type>, Option<Type>)>>;

fn fn_bounds_of<'b>(bounds: impl Iterator<Item = &'b TypeParamBound>) -> Vec<(Vec<Type>, Option<Type>)> {
    let mut v = vec![];
    for b in bounds {
        if let TypeParamBound::Trait(tb) = b {
            if let Some(seg) = tb.path.segments.last() {
                if ["Fn", "FnMut", "FnOnce"].contains(&seg.ident.to_string().as_str()) {
                    if let PathArguments::Parenthesized(pa) = &seg.arguments {
                        let out = match &pa.output {
                            ReturnType::Default => None,
                            ReturnType::Type(_, t) => Some((**t).clone()),
                        };
                        v.push((pa.inputs.iter().cloned().collect(), out));
                    }
                }
            }
        }
    }
    v
}

fn collect_fn_bounds(g: &Generics, out: &mut FnBounds) {
    for p in &g.params {
        if let GenericParam::Type(t) = p {
            let v = fn_bounds_of(t.bounds.iter());
            if !v.is_empty() {
                out.entry(t.ident.to_string()).or_default().extend(v);
            }
        }
    }
    if let Some(w) = &g.where_clause {
        for pr in &w.predicates {
            if let WherePredicate::Type(pt) = pr {
                let v = fn_bounds_of(pt.bounds.iter());
                if !v.is_empty() {
                    out.entry(toks(&pt.bounded_ty)).or_default().extend(v);
                }
            }
        }
    }
}

struct Walk<'a> {
    cx: &'a Ctx<'a>,
    module: &'a [String],
    scope: &'a [String],        // type parameters in scope
    self_ty: Option<&'a Type>,  // impl self type
    fnb: &'a FnBounds,
    target: &'a str,
    out: Vec<Vec<String>>,
}

impl<'a> Walk<'a> {
    fn args_all(&mut self, p: &Path, prefix: &[String], elem: &str, depth: usize) {
        for seg in &p.segments {
            if let PathArguments::AngleBracketed(a) = &seg.arguments {
                for ga in &a.args {
                    match ga {
                        GenericArgument::Type(t) => {
                            let mut pre = prefix.to_vec();
                            pre.push(elem.to_string());
                            self.ty(t, &pre, depth + 1);
                        }
                        GenericArgument::AssocType(at) => {
                            let mut pre = prefix.to_vec();
                            pre.push(elem.to_string());
                            self.ty(&at.ty, &pre, depth + 1);
                        }
                        _ => {}
                    }
                }
            }
        }
    }

    fn fn_like(&mut self, inputs: &[Type], output: Option<&Type>, prefix: &[String], depth: usize) {
        for i in inputs {
            let mut pre = prefix.to_vec();
            pre.push(".fnArg".into());
            self.ty(i, &pre, depth + 1);
        }
        if let Some(o) = output {
            let mut pre = prefix.to_vec();
            pre.push(".fnRet".into());
            self.ty(o, &pre, depth + 1);
        }
    }

    fn bounds(&mut self, bounds: &[TypeParamBound], prefix: &[String], depth: usize) {
        for (ins, out) in fn_bounds_of(bounds.iter()) {
            self.fn_like(&ins, out.as_ref(), prefix, depth);
        }
        for b in bounds {
            if let TypeParamBound::Trait(tb) = b {
                let l = last_seg(&tb.path);
                if !["Fn", "FnMut", "FnOnce"].contains(&l.as_str()) {
                    self.args_all(&tb.path, prefix, &format!(".other {}", lean_str(&format!("dyn/impl {l}"))), depth);
                }
            }
        }
    }

    fn ty(&mut self, t: &Type, prefix: &[String], depth: usize) {
        if depth > 24 {
            return;
        }
        let push = |prefix: &[String], e: &str| {
            let mut v = prefix.to_vec();
            v.push(e.to_string());
            v
        };
        match t {
            Type::Paren(p) => self.ty(&p.elem, prefix, depth),
            Type::Group(p) => self.ty(&p.elem, prefix, depth),
            Type::Reference(r) => {
                let e = if r.mutability.is_some() { ".refMut" } else { ".ref" };
                self.ty(&r.elem, &push(prefix, e), depth + 1)
            }
            Type::Slice(s) => self.ty(&s.elem, &push(prefix, ".slice"), depth + 1),
            Type::Array(a) => self.ty(&a.elem, &push(prefix, ".array"), depth + 1),
            Type::Ptr(p) => self.ty(&p.elem, &push(prefix, ".rawPtr"), depth + 1),
            Type::Tuple(tu) => {
                for e in &tu.elems {
                    self.ty(e, &push(prefix, ".tuple"), depth + 1);
                }
            }
            Type::BareFn(f) => {
                let ins: Vec<Type> = f.inputs.iter().map(|a| a.ty.clone()).collect();
                let out = match &f.output {
                    ReturnType::Default => None,
                    ReturnType::Type(_, t) => Some((**t).clone()),
                };
                self.fn_like(&ins, out.as_ref(), prefix, depth);
            }
            Type::ImplTrait(it) => {
                let b: Vec<TypeParamBound> = it.bounds.iter().cloned().collect();
                self.bounds(&b, prefix, depth);
            }
            Type::TraitObject(to) => {
                let b: Vec<TypeParamBound> = to.bounds.iter().cloned().collect();
                self.bounds(&b, prefix, depth);
            }
            Type::Path(tp) => {
                if let Some(q) = &tp.qself {
                    // <X as Trait>::Assoc
                    let assoc = last_seg(&tp.path);
                    let tr = if tp.path.segments.len() >= 2 {
                        tp.path.segments[tp.path.segments.len() - 2].ident.to_string()
                    } else {
                        String::new()
                    };
                    let e = if tr == "Rootable" && assoc == "Root" { ".rootProj".to_string() } else { format!(".assoc {}", lean_str(&format!("{tr}::{assoc}"))) };
                    self.ty(&q.ty, &push(prefix, &e), depth + 1);
                    return;
                }
                let p = &tp.path;
                let segs = path_segs(p);
                // type parameter?
                if self.scope.contains(&segs[0]) {
                    if segs.len() == 1 {
                        if segs[0] == self.target {
                            self.out.push(prefix.to_vec());
                        } else if let Some(fb) = self.fnb.get(&segs[0]) {
                            // a closure-typed parameter: look through its Fn bounds
                            for (ins, out) in fb.clone() {
                                self.fn_like(&ins, out.as_ref(), prefix, depth);
                            }
                        }
                    } else if segs[0] == self.target {
                        let mut v = prefix.to_vec();
                        v.push(format!(".assoc {}", lean_str(&segs[1..].join("::"))));
                        self.out.push(v);
                    }
                    return;
                }
                if segs[0] == "Self" {
                    if segs.len() == 1 {
                        if let Some(st) = self.self_ty {
                            self.ty(st, prefix, depth + 1);
                        }
                    } else if let Some(st) = self.self_ty {
                        // Self::Assoc
                        let e = format!(".assoc {}", lean_str(&segs[1..].join("::")));
                        self.ty(st, &push(prefix, &e), depth + 1);
                    }
                    return;
                }
                let full = self.cx.c.resolve(self.module, &segs, p.leading_colon.is_some()).join("::");
                let name = last_seg(p);
                // aliases
                if full.starts_with("crate::") || full.starts_with('?') {
                    if let Some(al) = self.cx.aliases.get(&name) {
                        if let Some(exp) = expand_alias(al, p) {
                            self.ty(&exp, prefix, depth + 1);
                            return;
                        }
                    }
                }
                let targs = last_type_args(p);
                let each = |w: &mut Walk<'a>, elems: &[&str], rest: &str| {
                    for (k, a) in targs.iter().enumerate() {
                        let e = elems.get(k).copied().unwrap_or(rest);
                        let mut v = prefix.to_vec();
                        v.push(e.to_string());
                        w.ty(a, &v, depth + 1);
                    }
                };
                match full.as_str() {
                    "crate::gc::Gc" => each(self, &[".gc"], ".gcKind"),
                    "crate::gc_weak::GcWeak" => each(self, &[".gcWeak"], ".gcKind"),
                    "crate::gc::GcKind" => each(self, &[], ".gcKind"),
                    "crate::dynamic_roots::DynamicRoot" => each(self, &[], ".dynamicRoot"),
                    "crate::slice::GcSliceWithHeaderSliceBuilder" => each(self, &[".initBuilderHeader"], ".uninitBuilder"),
                    "crate::gc::GcBuilder"
                    | "crate::slice::GcSliceWithHeaderBuilder"
                    | "crate::slice::GcSliceBuilder"
                    | "crate::slice::GcStrBuilder" => each(self, &[], ".uninitBuilder"),
                    "crate::slice::SliceWithHeader" => each(self, &[".swhHeader"], ".swhElem"),
                    "crate::static_wrapper::Static" => each(self, &[], ".staticWrapper"),
                    "crate::lock::Lock" | "crate::lock::RefLock" => each(self, &[], ".lock"),
                    "crate::lock::OnceLock" => each(self, &[], ".onceLock"),
                    "crate::barrier::Write" => each(self, &[], ".write"),
                    "core::prelude::Option" | "core::option::Option" => each(self, &[], ".option"),
                    "core::prelude::Result" | "core::result::Result" => each(self, &[], ".result"),
                    "alloc::boxed::Box" => each(self, &[], ".box"),
                    "core::marker::PhantomData" => each(self, &[], ".phantom"),
                    "core::cell::Ref" | "core::cell::RefMut" => each(self, &[], ".cellRef"),
                    _ => {
                        let e = format!(".other {}", lean_str(&full));
                        self.args_all(p, prefix, &e, depth);
                    }
                }
            }
            _ => {}
        }
    }
}

const HANDLES: &[&str] = &[".gc", ".gcWeak", ".dynamicRoot", ".initBuilderHeader"];

#[allow(clippy::too_many_arguments)]
fn analyse(
    cx: &Ctx,
    module: &[String],
    name: String,
    sig: &Signature,
    impl_generics: Option<&Generics>,
    self_ty: Option<&Type>,
    table: &mut Table,
) {
    table.scanned += 1;
    let mut scope: Vec<String> = vec![];
    let mut fnb: FnBounds = BTreeMap::new();
    if let Some(g) = impl_generics {
        scope.extend(type_params(g));
        collect_fn_bounds(g, &mut fnb);
    }
    scope.extend(type_params(&sig.generics));
    collect_fn_bounds(&sig.generics, &mut fnb);
    let ret: Option<&Type> = match &sig.output {
        ReturnType::Default => None,
        ReturnType::Type(_, t) => Some(&**t),
    };
    let Some(ret) = ret else { return };
    let mut reqs = vec![];
    for p in &scope {
        let mut w = Walk { cx, module, scope: &scope, self_ty, fnb: &fnb, target: p, out: vec![] };
        w.ty(ret, &[], 0);
        let ret_paths = w.out;
        if !ret_paths.iter().any(|rp| rp.iter().any(|e| HANDLES.contains(&e.as_str()))) {
            continue;
        }
        let mut in_paths = vec![];
        for a in &sig.inputs {
            match a {
                FnArg::Receiver(r) => {
                    let mut pre = vec![".self_".to_string()];
                    // `self: Gc<'gc, T, K>` style receivers carry an explicit type
                    let explicit = r.colon_token.is_some();
                    let mut w = Walk { cx, module, scope: &scope, self_ty, fnb: &fnb, target: p, out: vec![] };
                    if explicit {
                        w.ty(&r.ty, &pre, 0);
                    } else {
                        if r.reference.is_some() {
                            pre.push(if r.mutability.is_some() { ".refMut".into() } else { ".ref".into() });
                        }
                        if let Some(st) = self_ty {
                            w.ty(st, &pre, 0);
                        }
                    }
                    in_paths.extend(w.out);
                }
                FnArg::Typed(pt) => {
                    let mut w = Walk { cx, module, scope: &scope, self_ty, fnb: &fnb, target: p, out: vec![] };
                    w.ty(&pt.ty, &[], 0);
                    in_paths.extend(w.out);
                }
            }
        }
        reqs.push(Req { param: p.clone(), ret_paths, in_paths });
    }
    if reqs.is_empty() {
        return;
    }
    table.sigs.push(Sig { name, is_unsafe: sig.unsafety.is_some(), is_macro: false, reqs, decl: pretty(&toks(sig)) });
}

pub fn extract(c: &Crate, items: &Items, raw: &Raw) -> Table {
    let mut t = Table { sigs: vec![], unclassified: vec![], scanned: 0 };
    let mut aliases = BTreeMap::new();
    for (_, a) in &items.aliases {
        aliases.insert(a.ident.to_string(), a);
    }
    let cx = Ctx { c, aliases };
    for (module, i) in &items.impls {
        let self_name = pretty(&toks(&*i.self_ty));
        let tr = i.trait_.as_ref().map(|t| last_seg(&t.1));
        for it in &i.items {
            let ImplItem::Fn(f) = it else { continue };
            let public = tr.is_some() || matches!(f.vis, Visibility::Public(_));
            if !public {
                continue;
            }
            let name = match &tr {
                Some(tn) => format!("<{self_name} as {tn}>::{}", f.sig.ident),
                None => format!("{self_name}::{}", f.sig.ident),
            };
            analyse(&cx, module, name, &f.sig, Some(&i.generics), Some(&i.self_ty), &mut t);
        }
    }
    for (module, f) in &items.fns {
        if matches!(f.vis, Visibility::Public(_)) {
            analyse(&cx, module, format!("fn {}", f.sig.ident), &f.sig, None, None, &mut t);
        }
    }
    for (module, tr) in &items.traits {
        for it in &tr.items {
            if let TraitItem::Fn(f) = it {
                if f.default.is_some() {
                    analyse(&cx, module, format!("trait {}::{}", tr.ident, f.sig.ident), &f.sig, Some(&tr.generics), None, &mut t);
                }
            }
        }
    }
    // exported macros
    for (_m, name, exported, body) in raw.all_macro_rules() {
        if !exported {
            continue;
        }
        let b = body.replace(' ', "");
        match name.as_str() {
            "unsize" => {
                // `($a:expr => $b:ty) => {{ let gc = $a; unsafe { $crate::__CoercePtrInternal::__coerce_unchecked(gc, |p: *const _| -> *const $b { p }) } }};`
                // metavariable names are free
                let canon_ok = (|| {
                    let b2 = b.trim_end_matches(';');
                    let (m, rhs) = b2.split_once("=>{{")?;
                    let m = m.strip_prefix('(')?.strip_suffix(')')?;
                    let (a, t2) = m.split_once("=>")?;
                    let a = a.strip_prefix('$')?.strip_suffix(":expr")?;
                    let t2 = t2.strip_prefix('$')?.strip_suffix(":ty")?;
                    Some(format!("{{{{{rhs}") == format!("{{{{letgc=${a};unsafe{{$crate::__CoercePtrInternal::__coerce_unchecked(gc,|p:*const_|->*const${t2}{{p}})}}}}}}"))
                })()
                .unwrap_or(false);
                if canon_ok {
                    t.sigs.push(Sig {
                        name: "unsize!".into(),
                        is_unsafe: false,
                        is_macro: true,
                        reqs: vec![Req {
                            param: "$ty".into(),
                            ret_paths: vec![vec![".gc".into()]],
                            in_paths: vec![vec![".gc".into(), ".unsizeFrom".into()]],
                        }],
                        decl: "unsize!($gc:expr => $ty:ty)".into(),
                    });
                } else {
                    t.unclassified.push(format!("macro unsize! has an unexpected body: {body}"));
                }
            }
            "__field" | "__unlock" | "static_collect" | "__dyn_collect" | "Rootable" => {
                // __field!/__unlock! are judged by the DerefWrite table; the others expand to items / types
                if name == "Rootable" && b.contains("unsafe") {
                    t.unclassified.push("macro Rootable! contains unsafe code".into());
                }
            }
            _ => {
                if b.contains("unsafe") || b.contains("Gc") {
                    t.unclassified.push(format!("exported macro {name}! is not classified"));
                }
            }
        }
    }
    if !t.sigs.iter().any(|s| s.name.ends_with("::new") && s.name.starts_with("Gc<")) {
        t.unclassified.push("Gc::new not found among the signatures".into());
    }
    t
}

impl Table {
    pub fn to_lean(&self, header: &str) -> String {
        let mut s = String::new();
        s.push_str(header);
        s.push_str("import GcArena.Model.Conjure\nnamespace GcArena.Generated\nopen GcArena.Conjure\n\n");
        s.push_str(&format!("/-- {} public signatures scanned; those below carry a handle on a type parameter. -/\n", self.scanned));
        s.push_str("def sigTable : Table := {\n  sigs := [\n");
        let paths = |ps: &Vec<Vec<String>>| -> String {
            format!("[{}]", ps.iter().map(|p| format!("[{}]", p.join(", "))).collect::<Vec<_>>().join(", "))
        };
        let v: Vec<String> = self
            .sigs
            .iter()
            .map(|sg| {
                let reqs: Vec<String> = sg
                    .reqs
                    .iter()
                    .map(|r| format!("{{ param := {}, retPaths := {}, inPaths := {} }}", lean_str(&r.param), paths(&r.ret_paths), paths(&r.in_paths)))
                    .collect();
                format!(
                    "    -- {}\n    {{ name := {}, isUnsafe := {}, isMacro := {},\n      reqs := [{}] }}",
                    sg.decl.replace('\n', " "),
                    lean_str(&sg.name),
                    lean_bool(sg.is_unsafe),
                    lean_bool(sg.is_macro),
                    reqs.join(",\n               ")
                )
            })
            .collect();
        s.push_str(&v.join(",\n"));
        s.push_str(&format!(
            "\n  ],\n  unclassified := {}\n}}\n\nend GcArena.Generated\n",
            lean_list(&self.unclassified.iter().map(|x| lean_str(x)).collect::<Vec<_>>())
        ));
        s
    }

    pub fn to_json(&self) -> String {
        let paths = |ps: &Vec<Vec<String>>| -> String {
            format!("[{}]", ps.iter().map(|p| format!("[{}]", p.iter().map(|e| json_str(e)).collect::<Vec<_>>().join(","))).collect::<Vec<_>>().join(","))
        };
        let sigs: Vec<String> = self
            .sigs
            .iter()
            .map(|sg| {
                let reqs: Vec<String> = sg
                    .reqs
                    .iter()
                    .map(|r| format!("{{\"param\":{},\"ret_paths\":{},\"in_paths\":{}}}", json_str(&r.param), paths(&r.ret_paths), paths(&r.in_paths)))
                    .collect();
                format!(
                    "{{\"name\":{},\"is_unsafe\":{},\"is_macro\":{},\"decl\":{},\"reqs\":[{}]}}",
                    json_str(&sg.name),
                    sg.is_unsafe,
                    sg.is_macro,
                    json_str(&sg.decl),
                    reqs.join(",")
                )
            })
            .collect();
        format!(
            "{{\"scanned\":{},\"sigs\":[{}],\"unclassified\":[{}]}}",
            self.scanned,
            sigs.join(","),
            self.unclassified.iter().map(|x| json_str(x)).collect::<Vec<_>>().join(",")
        )
    }
}
