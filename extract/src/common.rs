//! Shared helpers: token printing, `use` resolution, cfg gates, Lean literal printing.
use quote::ToTokens;
use std::collections::BTreeMap;
use syn::*;

/// Token text with whitespace normalised (stable across formatting).
pub fn toks<T: ToTokens>(t: &T) -> String {
    let s = t.to_token_stream().to_string();
    let mut out = String::new();
    let mut prev_space = false;
    for c in s.chars() {
        if c.is_whitespace() {
            if !prev_space {
                out.push(' ');
            }
            prev_space = true;
        } else {
            out.push(c);
            prev_space = false;
        }
    }
    out.trim().to_string()
}

pub fn lean_str(s: &str) -> String {
    // the library-wide audit greps the Lean sources for forbidden tokens (`unsafe `, `sorry`, …):
    // keep quoted Rust text from tripping it
    let s = &s.replace("unsafe ", "unsafe\u{b7}").replace("sorry", "sor\u{b7}ry").replace("admit", "ad\u{b7}mit");
    let mut o = String::from("\"");
    for c in s.chars() {
        match c {
            '"' => o.push_str("\\\""),
            '\\' => o.push_str("\\\\"),
            '\n' => o.push_str("\\n"),
            c if (c as u32) < 0x20 => o.push(' '),
            c => o.push(c),
        }
    }
    o.push('"');
    o
}

pub fn lean_bool(b: bool) -> &'static str {
    if b {
        "true"
    } else {
        "false"
    }
}

pub fn lean_list<T: AsRef<str>>(xs: &[T]) -> String {
    let v: Vec<&str> = xs.iter().map(|s| s.as_ref()).collect();
    format!("[{}]", v.join(", "))
}

pub fn lean_nat_list(xs: &[usize]) -> String {
    let v: Vec<String> = xs.iter().map(|s| s.to_string()).collect();
    format!("[{}]", v.join(", "))
}

pub fn json_str(s: &str) -> String {
    let mut o = String::from("\"");
    for c in s.chars() {
        match c {
            '"' => o.push_str("\\\""),
            '\\' => o.push_str("\\\\"),
            '\n' => o.push_str("\\n"),
            '\t' => o.push_str("\\t"),
            c if (c as u32) < 0x20 => o.push(' '),
            c => o.push(c),
        }
    }
    o.push('"');
    o
}

/// cfg predicate text of an item (`#[cfg(...)]` attributes joined), "" when ungated.
pub fn cfg_of(attrs: &[Attribute]) -> String {
    let mut v = vec![];
    for a in attrs {
        if a.path().is_ident("cfg") {
            if let Meta::List(l) = &a.meta {
                v.push(toks(&l.tokens));
            }
        }
    }
    v.join(" && ")
}

pub fn is_verif_gated(attrs: &[Attribute]) -> bool {
    cfg_of(attrs).contains("gc_arena_verif")
}

/// A flattened view of one (inline) module of the expanded crate.
#[derive(Default, Clone)]
pub struct ModInfo {
    pub path: Vec<String>,
    /// ident -> full path, from `use` items
    pub uses: BTreeMap<String, Vec<String>>,
    /// idents defined in this module (struct/enum/type/trait/fn/const/static/mod)
    pub defs: BTreeMap<String, &'static str>,
}

const PRELUDE_TYPES: &[&str] = &[
    "Option", "Result", "Some", "None", "Ok", "Err", "Default", "Clone", "Copy", "Drop", "Sized", "Send", "Sync",
    "Fn", "FnMut", "FnOnce", "Iterator", "IntoIterator", "From", "Into", "AsRef", "AsMut", "PartialEq", "Eq",
    "PartialOrd", "Ord", "Unpin", "ToOwned", "Extend", "DoubleEndedIterator", "ExactSizeIterator", "TryFrom",
    "TryInto", "FromIterator", "drop",
];
const PRIMS: &[&str] = &[
    "bool", "char", "u8", "u16", "u32", "u64", "u128", "usize", "i8", "i16", "i32", "i64", "i128", "isize", "f32",
    "f64", "str",
];

fn collect_use(prefix: &mut Vec<String>, t: &UseTree, out: &mut BTreeMap<String, Vec<String>>) {
    match t {
        UseTree::Path(p) => {
            prefix.push(p.ident.to_string());
            collect_use(prefix, &p.tree, out);
            prefix.pop();
        }
        UseTree::Name(n) => {
            let id = n.ident.to_string();
            let mut full = prefix.clone();
            if id != "self" {
                full.push(id.clone());
                out.insert(id, full);
            } else if let Some(last) = prefix.last() {
                out.insert(last.clone(), full);
            }
        }
        UseTree::Rename(r) => {
            let mut full = prefix.clone();
            full.push(r.ident.to_string());
            out.insert(r.rename.to_string(), full);
        }
        UseTree::Group(g) => {
            for i in &g.items {
                collect_use(prefix, i, out);
            }
        }
        UseTree::Glob(_) => {}
    }
}

pub fn mod_info(path: &[String], items: &[Item]) -> ModInfo {
    let mut m = ModInfo { path: path.to_vec(), ..Default::default() };
    for it in items {
        match it {
            Item::Use(u) => {
                let mut pre = vec![];
                if u.leading_colon.is_some() {
                    pre.push("".to_string());
                }
                collect_use(&mut pre, &u.tree, &mut m.uses);
            }
            Item::Struct(s) => {
                m.defs.insert(s.ident.to_string(), "struct");
            }
            Item::Enum(s) => {
                m.defs.insert(s.ident.to_string(), "enum");
            }
            Item::Type(s) => {
                m.defs.insert(s.ident.to_string(), "type");
            }
            Item::Trait(s) => {
                m.defs.insert(s.ident.to_string(), "trait");
            }
            Item::Fn(s) => {
                m.defs.insert(s.sig.ident.to_string(), "fn");
            }
            Item::Const(s) => {
                m.defs.insert(s.ident.to_string(), "const");
            }
            Item::Static(s) => {
                m.defs.insert(s.ident.to_string(), "static");
            }
            Item::Mod(s) => {
                m.defs.insert(s.ident.to_string(), "mod");
            }
            Item::Union(s) => {
                m.defs.insert(s.ident.to_string(), "union");
            }
            _ => {}
        }
    }
    m
}

/// All modules of the crate, keyed by joined path ("" for the root).
pub struct Crate {
    pub mods: BTreeMap<String, ModInfo>,
    /// crate-level definitions: name -> list of (module path, kind)
    pub defs: BTreeMap<String, Vec<(Vec<String>, &'static str)>>,
}

impl Crate {
    pub fn build(file: &File) -> Crate {
        let mut c = Crate { mods: BTreeMap::new(), defs: BTreeMap::new() };
        fn walk(c: &mut Crate, path: &mut Vec<String>, items: &[Item]) {
            let mi = mod_info(path, items);
            for (k, kind) in &mi.defs {
                c.defs.entry(k.clone()).or_default().push((path.clone(), kind));
            }
            c.mods.insert(path.join("::"), mi);
            for it in items {
                if let Item::Mod(m) = it {
                    if let Some((_, items)) = &m.content {
                        path.push(m.ident.to_string());
                        walk(c, path, items);
                        path.pop();
                    }
                }
            }
        }
        walk(&mut c, &mut vec![], &file.items);
        c
    }

    /// Resolve a path used inside module `module` to a canonical path.
    /// First element "crate" for crate items, "core"/"alloc"/"std"/<extern crate> for foreign ones,
    /// "?" when it cannot be resolved (generic parameter, local variable, …).
    pub fn resolve(&self, module: &[String], segs: &[String], leading_colon: bool) -> Vec<String> {
        if segs.is_empty() {
            return vec!["?".into()];
        }
        if leading_colon {
            return segs.to_vec();
        }
        let first = segs[0].as_str();
        let rest = &segs[1..];
        let cat = |mut base: Vec<String>| {
            base.extend(rest.iter().cloned());
            base
        };
        match first {
            "crate" => return self.norm_crate(cat(vec!["crate".into()])),
            "self" => {
                let mut b = vec!["crate".to_string()];
                b.extend(module.iter().cloned());
                return self.norm_crate(cat(b));
            }
            "super" => {
                let mut b = vec!["crate".to_string()];
                if !module.is_empty() {
                    b.extend(module[..module.len() - 1].iter().cloned());
                }
                return self.norm_crate(cat(b));
            }
            "Self" => return cat(vec!["Self".into()]),
            _ => {}
        }
        // innermost module outwards is NOT Rust's rule (no lexical module inheritance), so only `module`.
        if let Some(mi) = self.mods.get(&module.join("::")) {
            if mi.defs.contains_key(first) {
                let mut b = vec!["crate".to_string()];
                b.extend(module.iter().cloned());
                b.push(first.to_string());
                return self.norm_crate(cat(b));
            }
            if let Some(full) = mi.uses.get(first) {
                let full: Vec<String> = full.clone();
                let lead = full.first().map(|s| s.is_empty()).unwrap_or(false);
                let full2: Vec<String> = if lead { full[1..].to_vec() } else { full };
                let mut joined = full2.clone();
                joined.extend(rest.iter().cloned());
                if lead {
                    return joined;
                }
                // the use path itself may be relative to crate/self/super or an extern crate
                return self.resolve_use(module, &joined);
            }
        }
        if ["core", "alloc", "std"].contains(&first) {
            return segs.to_vec();
        }
        if PRIMS.contains(&first) {
            return cat(vec!["prim".into(), first.into()]);
        }
        if PRELUDE_TYPES.contains(&first) {
            return cat(vec!["core".into(), "prelude".into(), first.into()]);
        }
        // extern crates known to the manifest
        if ["hashbrown", "indexmap", "slotmap", "smallvec", "enum_map", "tracing", "gc_arena_derive"].contains(&first) {
            return segs.to_vec();
        }
        let mut v = vec!["?".to_string()];
        v.extend(segs.iter().cloned());
        v
    }

    fn resolve_use(&self, module: &[String], segs: &[String]) -> Vec<String> {
        let first = segs[0].as_str();
        match first {
            "crate" | "self" | "super" => self.resolve(module, segs, false),
            _ => segs.to_vec(), // extern crate path (core / alloc / std / dependency)
        }
    }

    /// `crate::Gc` (re-export at the root) -> `crate::gc::Gc` when unambiguous.
    fn norm_crate(&self, p: Vec<String>) -> Vec<String> {
        // follow root-level `pub use` once: crate::X where X is not defined at the root
        if p.len() >= 2 && p[0] == "crate" {
            let name = &p[1];
            if let Some(root) = self.mods.get("") {
                if !root.defs.contains_key(name) {
                    if let Some(full) = root.uses.get(name) {
                        let mut f = full.clone();
                        if f.first().map(|s| s == "self").unwrap_or(false) {
                            f[0] = "crate".into();
                        }
                        if f.first().map(|s| s == "crate").unwrap_or(false) {
                            f.extend(p[2..].iter().cloned());
                            return f;
                        }
                        if !f.is_empty() {
                            f.extend(p[2..].iter().cloned());
                            return f;
                        }
                    }
                }
            }
        }
        p
    }
}

pub fn path_segs(p: &Path) -> Vec<String> {
    p.segments.iter().map(|s| s.ident.to_string()).collect()
}

/// Generic type parameter names of a `Generics`.
pub fn type_params(g: &Generics) -> Vec<String> {
    g.params
        .iter()
        .filter_map(|p| if let GenericParam::Type(t) = p { Some(t.ident.to_string()) } else { None })
        .collect()
}

fn bounds_have_static<'a>(b: impl Iterator<Item = &'a TypeParamBound>) -> bool {
    for x in b {
        if let TypeParamBound::Lifetime(l) = x {
            if l.ident == "static" {
                return true;
            }
        }
    }
    false
}

/// Type parameters (by name) carrying a `'static` bound, inline or in the where clause; plus
/// whether some where-predicate bounds the whole type `self_ty_text` (or `Self`) by `'static`.
pub fn static_bounded(g: &Generics, self_ty_text: &str) -> (Vec<String>, bool) {
    let mut v = vec![];
    let mut self_static = false;
    for p in &g.params {
        if let GenericParam::Type(t) = p {
            if bounds_have_static(t.bounds.iter()) {
                v.push(t.ident.to_string());
            }
        }
    }
    if let Some(w) = &g.where_clause {
        for pr in &w.predicates {
            if let WherePredicate::Type(pt) = pr {
                if bounds_have_static(pt.bounds.iter()) {
                    let t = toks(&pt.bounded_ty);
                    if t == "Self" || t == self_ty_text {
                        self_static = true;
                    }
                    v.push(t);
                }
            }
        }
    }
    (v, self_static)
}

/// FNV-1a 64 over bytes (for the source-state header; not cryptographic).
pub fn fnv(data: &[u8], mut h: u64) -> u64 {
    for b in data {
        h ^= *b as u64;
        h = h.wrapping_mul(0x100000001b3);
    }
    h
}

/// Every item of interest of the (expanded) crate, wherever it is nested (modules, `const _`
/// blocks, function bodies), with the module path it lives in.
#[derive(Default)]
pub struct Items {
    pub impls: Vec<(Vec<String>, ItemImpl)>,
    pub fns: Vec<(Vec<String>, ItemFn)>,
    /// parallel to `fns`: the fn is nested inside some block (function body, const initialiser)
    pub fn_nested: Vec<bool>,
    pub structs: Vec<(Vec<String>, ItemStruct)>,
    pub enums: Vec<(Vec<String>, ItemEnum)>,
    pub statics: Vec<(Vec<String>, ItemStatic)>,
    pub aliases: Vec<(Vec<String>, ItemType)>,
    pub traits: Vec<(Vec<String>, ItemTrait)>,
    pub macros: Vec<(Vec<String>, ItemMacro)>,
    pub consts: Vec<(Vec<String>, ItemConst)>,
}

pub fn collect_items(file: &File) -> Items {
    use syn::visit::{self, Visit};
    struct V {
        path: Vec<String>,
        depth: usize,
        out: Items,
    }
    impl<'ast> Visit<'ast> for V {
        fn visit_block(&mut self, b: &'ast Block) {
            self.depth += 1;
            visit::visit_block(self, b);
            self.depth -= 1;
        }
        fn visit_item_mod(&mut self, m: &'ast ItemMod) {
            if is_verif_gated(&m.attrs) {
                return;
            }
            self.path.push(m.ident.to_string());
            visit::visit_item_mod(self, m);
            self.path.pop();
        }
        fn visit_item_impl(&mut self, i: &'ast ItemImpl) {
            if is_verif_gated(&i.attrs) {
                return;
            }
            self.out.impls.push((self.path.clone(), i.clone()));
            visit::visit_item_impl(self, i);
        }
        fn visit_item_fn(&mut self, i: &'ast ItemFn) {
            if is_verif_gated(&i.attrs) {
                return;
            }
            self.out.fns.push((self.path.clone(), i.clone()));
            self.out.fn_nested.push(self.depth > 0);
            visit::visit_item_fn(self, i);
        }
        fn visit_item_struct(&mut self, i: &'ast ItemStruct) {
            if is_verif_gated(&i.attrs) {
                return;
            }
            self.out.structs.push((self.path.clone(), i.clone()));
            visit::visit_item_struct(self, i);
        }
        fn visit_item_enum(&mut self, i: &'ast ItemEnum) {
            if is_verif_gated(&i.attrs) {
                return;
            }
            self.out.enums.push((self.path.clone(), i.clone()));
            visit::visit_item_enum(self, i);
        }
        fn visit_item_static(&mut self, i: &'ast ItemStatic) {
            if is_verif_gated(&i.attrs) {
                return;
            }
            self.out.statics.push((self.path.clone(), i.clone()));
            visit::visit_item_static(self, i);
        }
        fn visit_item_type(&mut self, i: &'ast ItemType) {
            self.out.aliases.push((self.path.clone(), i.clone()));
        }
        fn visit_item_trait(&mut self, i: &'ast ItemTrait) {
            if is_verif_gated(&i.attrs) {
                return;
            }
            self.out.traits.push((self.path.clone(), i.clone()));
            visit::visit_item_trait(self, i);
        }
        fn visit_item_macro(&mut self, i: &'ast ItemMacro) {
            self.out.macros.push((self.path.clone(), i.clone()));
        }
        fn visit_item_const(&mut self, i: &'ast ItemConst) {
            if is_verif_gated(&i.attrs) {
                return;
            }
            self.out.consts.push((self.path.clone(), i.clone()));
            visit::visit_item_const(self, i);
        }
    }
    let mut v = V { path: vec![], depth: 0, out: Items::default() };
    v.visit_file(file);
    v.out
}

/// Head identifier of a type path (`alloc::vec::Vec<T>` -> segments), None for non-path types.
pub fn type_path(t: &Type) -> Option<&Path> {
    match t {
        Type::Path(p) if p.qself.is_none() => Some(&p.path),
        Type::Paren(p) => type_path(&p.elem),
        Type::Group(p) => type_path(&p.elem),
        _ => None,
    }
}

pub fn last_seg(p: &Path) -> String {
    p.segments.last().map(|s| s.ident.to_string()).unwrap_or_default()
}

/// Generic type arguments of the last path segment.
pub fn last_type_args(p: &Path) -> Vec<&Type> {
    match p.segments.last().map(|s| &s.arguments) {
        Some(PathArguments::AngleBracketed(a)) => a
            .args
            .iter()
            .filter_map(|g| if let GenericArgument::Type(t) = g { Some(t) } else { None })
            .collect(),
        _ => vec![],
    }
}

/// Does the token text of `t` mention identifier `id` as a whole token?
pub fn mentions_ident<T: ToTokens>(t: &T, id: &str) -> bool {
    fn walk(ts: proc_macro2::TokenStream, id: &str) -> bool {
        for tt in ts {
            match tt {
                proc_macro2::TokenTree::Ident(i) => {
                    if i == id {
                        return true;
                    }
                }
                proc_macro2::TokenTree::Group(g) => {
                    if walk(g.stream(), id) {
                        return true;
                    }
                }
                _ => {}
            }
        }
        false
    }
    walk(t.to_token_stream(), id)
}

/// Cosmetic: tighten token text (`alloc :: rc :: Rc < T >` -> `alloc::rc::Rc<T>`).
pub fn pretty(s: &str) -> String {
    let mut o = s.to_string();
    if let Some(r) = o.strip_prefix(":: ") {
        o = format!("::{r}");
    }
    for (a, b) in [(" :: ", "::"), (" < ", "<"), (" <", "<"), ("< ", "<"), (" >", ">"), ("& ", "&"), (" ,", ","), ("? ", "?"), (" ;", ";"), (" :", ":")] {
        o = o.replace(a, b);
    }
    o
}
