//! PacingConsts: the constants of src/metrics.rs that the Lean model copies by hand —
//! `Pacing::DEFAULT`, `Pacing::STOP_THE_WORLD` (field initialisers as exact rationals parsed from
//! the decimal literals), which constant `impl Default for Pacing` returns, and the initial value
//! `Metrics::new()` gives every numeric / `Pacing` state cell (the constructor expression evaluated
//! structurally: `Default` derives and impls are followed through `Rc` / `Cell` / nested private
//! structs, so neither a field nor a helper-struct name is pinned).
//!
//! Fails closed: an initialiser that is not a literal, a missing / extra field, a `Default` impl or
//! a `Metrics::new` body of another shape is emitted as an `unclassified` entry **and** as the
//! absurd value `-1` (no factor / counter of the model is negative), so the `…_matches_source`
//! theorems of Props/C09s.lean fail.
use crate::common::*;
use syn::*;

pub const PACING_FIELDS: &[(&str, &str, bool)] = &[
    // (rust field, lean field, is_nat)
    ("sleep_factor", "sleepFactor", false),
    ("min_sleep", "minSleep", true),
    ("mark_factor", "markFactor", false),
    ("trace_factor", "traceFactor", false),
    ("keep_factor", "keepFactor", false),
    ("drop_factor", "dropFactor", false),
    ("free_factor", "freeFactor", false),
];
/// An exact value read from a literal: numerator / denominator (denominator a power of ten).
#[derive(Clone, Debug)]
pub struct Exact {
    pub neg: bool,
    pub num: String, // decimal digits, no leading zeros (except "0")
    pub den: String, // "1", "10", "100", …
    pub text: String,
}

pub struct Table {
    pub consts: Vec<(String, Vec<(String, Option<Exact>, String)>)>, // (const name, [(rust field, value, source text)])
    pub default_impl: String,   // name of the constant `impl Default for Pacing` returns, "" if unknown
    pub metrics_cells: Vec<(String, String, String)>,   // numeric state cells of `Metrics::new()`: (path, lean value text, source text)
    pub metrics_pacings: Vec<(String, String, String)>, // `Pacing` cells: (path, lean value text, source text)
    pub unclassified: Vec<String>,
}

/// Parse a Rust numeric literal (`0.05`, `1.0`, `256`, `1e-1`, `0.5f64`, `1_000`) exactly.
pub fn parse_exact(e: &Expr) -> Option<Exact> {
    let (neg, lit) = match e {
        Expr::Unary(u) if matches!(u.op, UnOp::Neg(_)) => match &*u.expr {
            Expr::Lit(l) => (true, l),
            _ => return None,
        },
        Expr::Lit(l) => (false, l),
        Expr::Paren(p) => return parse_exact(&p.expr),
        Expr::Group(p) => return parse_exact(&p.expr),
        _ => return None,
    };
    let text = match &lit.lit {
        Lit::Float(f) => f.base10_digits().to_string(),
        Lit::Int(i) => i.base10_digits().to_string(),
        _ => return None,
    };
    let t = text.replace('_', "");
    let (mant, exp) = match t.find(|c| c == 'e' || c == 'E') {
        Some(k) => (t[..k].to_string(), t[k + 1..].parse::<i64>().ok()?),
        None => (t.clone(), 0i64),
    };
    let (ip, fp) = match mant.find('.') {
        Some(k) => (mant[..k].to_string(), mant[k + 1..].to_string()),
        None => (mant.clone(), String::new()),
    };
    if !ip.chars().all(|c| c.is_ascii_digit()) || !fp.chars().all(|c| c.is_ascii_digit()) || (ip.is_empty() && fp.is_empty()) {
        return None;
    }
    let mut digits = format!("{ip}{fp}");
    let mut scale = fp.len() as i64 - exp; // value = digits / 10^scale
    if scale < 0 {
        digits.push_str(&"0".repeat((-scale) as usize));
        scale = 0;
    }
    let digits = digits.trim_start_matches('0').to_string();
    let num = if digits.is_empty() { "0".to_string() } else { digits };
    let den = format!("1{}", "0".repeat(scale as usize));
    Some(Exact { neg, num, den, text: toks(e) })
}

pub fn extract(_c: &Crate, items: &Items, _raw: &crate::raw::Raw) -> Table {
    let mut t = Table { consts: vec![], default_impl: String::new(), metrics_cells: vec![], metrics_pacings: vec![], unclassified: vec![] };
    let in_metrics = |m: &Vec<String>| m.last().map(|x| x == "metrics").unwrap_or(false);
    // the two constants
    for cname in ["DEFAULT", "STOP_THE_WORLD"] {
        let mut found = false;
        for (m, i) in &items.impls {
            if !in_metrics(m) || i.trait_.is_some() || type_path(&i.self_ty).map(last_seg).as_deref() != Some("Pacing") {
                continue;
            }
            for it in &i.items {
                let ImplItem::Const(k) = it else { continue };
                if k.ident != cname {
                    continue;
                }
                found = true;
                let mut fields = vec![];
                match &k.expr {
                    Expr::Struct(s) if last_seg(&s.path) == "Pacing" && s.rest.is_none() => {
                        for (rf, _, _) in PACING_FIELDS {
                            match s.fields.iter().find(|f| toks(&f.member) == *rf) {
                                Some(fv) => {
                                    let v = parse_exact(&fv.expr);
                                    if v.is_none() {
                                        t.unclassified.push(format!("Pacing::{cname}.{rf}: initialiser `{}` is not a literal", toks(&fv.expr)));
                                    }
                                    fields.push((rf.to_string(), v, toks(&fv.expr)));
                                }
                                None => {
                                    t.unclassified.push(format!("Pacing::{cname}: field `{rf}` is not initialised"));
                                    fields.push((rf.to_string(), None, String::new()));
                                }
                            }
                        }
                        for fv in &s.fields {
                            let n = toks(&fv.member);
                            if !PACING_FIELDS.iter().any(|(rf, _, _)| *rf == n) {
                                t.unclassified.push(format!("Pacing::{cname}: field `{n}` is unknown to the model"));
                            }
                        }
                    }
                    other => {
                        t.unclassified.push(format!("Pacing::{cname} is not a plain `Pacing {{ … }}` literal: {}", toks(other)));
                        for (rf, _, _) in PACING_FIELDS {
                            fields.push((rf.to_string(), None, String::new()));
                        }
                    }
                }
                t.consts.push((cname.to_string(), fields));
            }
        }
        if !found {
            t.unclassified.push(format!("Pacing::{cname} not found in src/metrics.rs"));
            t.consts.push((cname.to_string(), PACING_FIELDS.iter().map(|(rf, _, _)| (rf.to_string(), None, String::new())).collect()));
        }
    }
    // the struct must have exactly the seven fields
    for (m, s) in &items.structs {
        if in_metrics(m) && s.ident == "Pacing" {
            let names: Vec<String> = s.fields.iter().filter_map(|f| f.ident.as_ref().map(|x| x.to_string())).collect();
            for n in &names {
                if !PACING_FIELDS.iter().any(|(rf, _, _)| rf == n) {
                    t.unclassified.push(format!("struct Pacing has a field `{n}` unknown to the model"));
                }
            }
        }
    }
    // impl Default for Pacing
    let mut saw_default = false;
    for (m, i) in &items.impls {
        let tr = i.trait_.as_ref().map(|x| last_seg(&x.1)).unwrap_or_default();
        if !in_metrics(m) || tr != "Default" || type_path(&i.self_ty).map(last_seg).as_deref() != Some("Pacing") {
            continue;
        }
        saw_default = true;
        for it in &i.items {
            if let ImplItem::Fn(f) = it {
                if f.sig.ident == "default" {
                    let b = toks(&f.block).replace(' ', "");
                    for cname in ["DEFAULT", "STOP_THE_WORLD"] {
                        if b == format!("{{Self::{cname}}}") || b == format!("{{Pacing::{cname}}}") {
                            t.default_impl = cname.to_string();
                        }
                    }
                    if t.default_impl.is_empty() {
                        t.unclassified.push(format!("<Pacing as Default>::default has an unexpected body: {}", toks(&f.block)));
                    }
                }
            }
        }
    }
    if !saw_default {
        t.unclassified.push("impl Default for Pacing not found".into());
    }
    // Metrics::new(): evaluated structurally.  The constructor (inherent fn of `Metrics` without
    // receiver returning the type) must build the value from `Default::default()` / `X::new(..)` /
    // literals; `Default` derives and impls are followed through wrappers (`Rc`, `Cell`, …) and
    // nested structs down to the numeric / `Pacing` state cells, which are listed with their path
    // and initial value.  No field or helper-struct name is pinned.
    let mut ev = Eval { items, cells: vec![], pacings: vec![], unclassified: vec![], depth: 0 };
    let mut ctors = 0;
    for (m, i) in &items.impls {
        if !in_metrics(m) || i.trait_.is_some() || type_path(&i.self_ty).map(last_seg).as_deref() != Some("Metrics") {
            continue;
        }
        for it in &i.items {
            let ImplItem::Fn(f) = it else { continue };
            let returns_self = match &f.sig.output {
                ReturnType::Type(_, ty) => matches!(type_path(ty).map(last_seg).as_deref(), Some("Self") | Some("Metrics")),
                _ => false,
            };
            if f.sig.receiver().is_some() || !f.sig.inputs.is_empty() || !returns_self {
                continue;
            }
            ctors += 1;
            if ctors > 1 {
                ev.unclassified.push(format!("Metrics has more than one parameterless constructor (`{}`)", f.sig.ident));
                continue;
            }
            match (f.block.stmts.len(), f.block.stmts.last()) {
                (1, Some(Stmt::Expr(e, None))) => {
                    let ty: Type = parse_quote!(Metrics);
                    ev.init(e, &ty, "");
                }
                _ => ev.unclassified.push(format!("Metrics::{} is not a single expression: {}", f.sig.ident, toks(&f.block))),
            }
        }
    }
    if ctors == 0 {
        ev.unclassified.push("Metrics::new not found (no parameterless inherent constructor of `Metrics`)".into());
    }
    t.unclassified.extend(ev.unclassified);
    t.metrics_cells = ev.cells;
    t.metrics_pacings = ev.pacings;
    t
}

/// Structural evaluation of an initialiser expression at a type, down to numeric / `Pacing` cells.
struct Eval<'a> {
    items: &'a Items,
    cells: Vec<(String, String, String)>,
    pacings: Vec<(String, String, String)>,
    unclassified: Vec<String>,
    depth: usize,
}

const WRAPPERS: &[&str] = &["Rc", "Box", "Cell", "UnsafeCell", "RefCell", "Arc"];
const NUMERIC: &[&str] = &["usize", "u8", "u16", "u32", "u64", "u128", "isize", "i8", "i16", "i32", "i64", "i128", "f32", "f64"];

fn join(path: &str, f: &str) -> String {
    if path.is_empty() { f.to_string() } else { format!("{path}.{f}") }
}

fn generic_arg0(p: &Path) -> Option<&Type> {
    match &p.segments.last()?.arguments {
        PathArguments::AngleBracketed(a) if a.args.len() == 1 => match a.args.first()? {
            GenericArgument::Type(t) => Some(t),
            _ => None,
        },
        _ => None,
    }
}

impl<'a> Eval<'a> {
    fn fail(&mut self, path: &str, why: String) {
        self.unclassified.push(why);
        // fail closed: no counter of the model starts negative
        self.cells.push((path.to_string(), "(-1 : Rat) /- unclassified -/".to_string(), String::new()));
    }

    fn find_struct(&self, name: &str) -> Option<&'a ItemStruct> {
        let mut it = self.items.structs.iter().filter(|(_, s)| s.ident == name);
        let first = it.next().map(|(_, s)| s);
        if it.next().is_some() { None } else { first }
    }

    /// The value `<ty as Default>::default()`.
    fn default_of(&mut self, ty: &Type, path: &str) {
        self.depth += 1;
        if self.depth > 32 {
            self.depth -= 1;
            return self.fail(path, format!("Metrics::new: type nesting too deep at `{path}`"));
        }
        match ty {
            Type::Paren(p) => self.default_of(&p.elem, path),
            Type::Group(p) => self.default_of(&p.elem, path),
            Type::Tuple(t) => {
                for (k, e) in t.elems.iter().enumerate() {
                    self.default_of(e, &join(path, &k.to_string()));
                }
            }
            Type::Path(tp) if tp.qself.is_none() => {
                let name = last_seg(&tp.path);
                if WRAPPERS.contains(&name.as_str()) {
                    match generic_arg0(&tp.path) {
                        Some(inner) => self.default_of(inner, path),
                        None => self.fail(path, format!("Metrics::new: `{}` at `{path}` is not understood", toks(ty))),
                    }
                } else if NUMERIC.contains(&name.as_str()) && tp.path.segments.len() == 1 {
                    self.cells.push((path.to_string(), "(0 : Rat)".to_string(), format!("<{name} as Default>::default()")));
                } else if name == "Pacing" {
                    self.pacings.push((path.to_string(), "pacingOfDefaultImpl".to_string(), "<Pacing as Default>::default()".to_string()));
                } else if let Some(st) = self.find_struct(&name) {
                    self.default_of_struct(st, path);
                } else {
                    self.fail(path, format!("Metrics::new: the default value of type `{}` (at `{path}`) is unknown to the translator", toks(ty)));
                }
            }
            other => self.fail(path, format!("Metrics::new: the default value of type `{}` (at `{path}`) is unknown to the translator", toks(other))),
        }
        self.depth -= 1;
    }

    fn default_of_struct(&mut self, st: &'a ItemStruct, path: &str) {
        let name = st.ident.to_string();
        let mut found = None;
        let mut n = 0;
        for (_, i) in &self.items.impls {
            let tr = i.trait_.as_ref().map(|x| last_seg(&x.1)).unwrap_or_default();
            if tr != "Default" || type_path(&i.self_ty).map(last_seg).as_deref() != Some(name.as_str()) {
                continue;
            }
            for it in &i.items {
                if let ImplItem::Fn(f) = it {
                    if f.sig.ident == "default" {
                        n += 1;
                        found = Some(f);
                    }
                }
            }
        }
        let Some(f) = found.filter(|_| n == 1) else {
            return self.fail(path, format!("Metrics::new: exactly one `impl Default for {name}` expected, found {n}"));
        };
        match (f.block.stmts.len(), f.block.stmts.last()) {
            (1, Some(Stmt::Expr(e, None))) => {
                let ty: Type = Type::Path(TypePath { qself: None, path: st.ident.clone().into() });
                self.init(e, &ty, path)
            }
            _ => self.fail(path, format!("<{name} as Default>::default is not a single expression: {}", toks(&f.block))),
        }
    }

    fn is_default_call(e: &Expr) -> bool {
        match e {
            Expr::Call(c) if c.args.is_empty() => match &*c.func {
                Expr::Path(p) => p.path.segments.last().map(|s| s.ident == "default").unwrap_or(false),
                _ => false,
            },
            _ => false,
        }
    }

    /// The value of initialiser `e` at type `ty`.
    fn init(&mut self, e: &Expr, ty: &Type, path: &str) {
        match e {
            Expr::Paren(p) => return self.init(&p.expr, ty, path),
            Expr::Group(p) => return self.init(&p.expr, ty, path),
            _ => {}
        }
        if Self::is_default_call(e) {
            return self.default_of(ty, path);
        }
        let tname = type_path(ty).map(last_seg).unwrap_or_default();
        // `Wrapper::new(inner)`
        if let Expr::Call(c) = e {
            if let Expr::Path(p) = &*c.func {
                let segs: Vec<String> = p.path.segments.iter().map(|s| s.ident.to_string()).collect();
                let k = segs.len();
                if k >= 2 && segs[k - 1] == "new" && WRAPPERS.contains(&segs[k - 2].as_str()) && c.args.len() == 1 && segs[k - 2] == tname {
                    if let Some(inner) = type_path(ty).and_then(generic_arg0) {
                        return self.init(&c.args[0], inner, path);
                    }
                }
            }
        }
        if NUMERIC.contains(&tname.as_str()) {
            if let Some(x) = parse_exact(e) {
                self.cells.push((path.to_string(), exact_lean(&x, false), toks(e)));
                return;
            }
        }
        if tname == "Pacing" {
            if let Expr::Path(p) = e {
                let segs: Vec<String> = p.path.segments.iter().map(|s| s.ident.to_string()).collect();
                let k = segs.len();
                if k >= 2 && (segs[k - 2] == "Pacing" || segs[k - 2] == "Self") {
                    let v = match segs[k - 1].as_str() {
                        "DEFAULT" => Some("pacingDefault"),
                        "STOP_THE_WORLD" => Some("pacingStw"),
                        _ => None,
                    };
                    if let Some(v) = v {
                        self.pacings.push((path.to_string(), v.to_string(), toks(e)));
                        return;
                    }
                }
            }
        }
        // literal of a crate struct: named fields or tuple constructor
        if let Some(st) = self.find_struct(&tname) {
            let is_self = |p: &Path| { let l = last_seg(p); l == "Self" || l == tname };
            match e {
                Expr::Struct(s) if is_self(&s.path) && s.rest.is_none() => {
                    for f in st.fields.iter() {
                        let fname = f.ident.as_ref().map(|x| x.to_string()).unwrap_or_default();
                        match s.fields.iter().find(|fv| toks(&fv.member) == fname) {
                            Some(fv) => self.init(&fv.expr, &f.ty, &join(path, &fname)),
                            None => self.fail(&join(path, &fname), format!("{tname} literal: field `{fname}` is not initialised")),
                        }
                    }
                    return;
                }
                Expr::Call(c) if matches!(&*c.func, Expr::Path(p) if is_self(&p.path)) && c.args.len() == st.fields.len() => {
                    let single = st.fields.len() == 1;
                    for (k, (f, a)) in st.fields.iter().zip(c.args.iter()).enumerate() {
                        let pth = if single { path.to_string() } else { join(path, &k.to_string()) };
                        self.init(a, &f.ty, &pth);
                    }
                    return;
                }
                _ => {}
            }
        }
        self.fail(path, format!("Metrics::new: initialiser `{}` of `{}` (type `{}`) is not understood", toks(e), if path.is_empty() { "<value>" } else { path }, toks(ty)));
    }
}

/// Lean text of an exact value (`(1 : Rat) / 10`; a Nat field must be a non-negative integer).
pub fn exact_lean(x: &Exact, nat: bool) -> String {
    if nat {
        if x.neg || x.den != "1" {
            return "0 /- not a natural number -/".into();
        }
        return x.num.clone();
    }
    let sign = if x.neg { "-" } else { "" };
    if x.den == "1" {
        format!("({sign}{} : Rat)", x.num)
    } else {
        format!("(({sign}{} : Rat) / {})", x.num, x.den)
    }
}

impl Table {
    pub fn to_lean(&self, header: &str) -> String {
        let mut s = String::new();
        s.push_str(header);
        s.push_str("import GcArena.Model.Metrics\nnamespace GcArena.Generated\nopen GcArena\n\n");
        for (cname, fields) in &self.consts {
            let lean_name = if cname == "DEFAULT" { "pacingDefault" } else { "pacingStw" };
            s.push_str(&format!("/-- `Pacing::{cname}` of src/metrics.rs; decimal literals read as exact rationals. -/\ndef {lean_name} : Pacing :=\n  {{ "));
            let mut parts = vec![];
            for ((rf, lf, nat), (_, v, src)) in PACING_FIELDS.iter().zip(fields.iter()) {
                let val = match v {
                    Some(x) if *nat && (x.neg || x.den != "1") => "0 /- not a natural number -/".to_string(),
                    Some(x) => exact_lean(x, *nat),
                    // fail closed: no factor of the model is negative; a Nat field gets an absurd size
                    None => if *nat { "18446744073709551616 /- unclassified -/".to_string() } else { "(-1 : Rat) /- unclassified -/".to_string() },
                };
                parts.push(format!("{lf} := {val} /- {rf}: {} -/", src.replace("-/", "- /")));
            }
            s.push_str(&parts.join(",\n    "));
            s.push_str(" }\n\n");
        }
        let (dname, dlean) = match self.default_impl.as_str() {
            "DEFAULT" => ("DEFAULT", "pacingDefault"),
            "STOP_THE_WORLD" => ("STOP_THE_WORLD", "pacingStw"),
            _ => ("", "{ pacingDefault with sleepFactor := -1 } /- unclassified -/"),
        };
        s.push_str(&format!(
            "/-- The constant `<Pacing as Default>::default()` returns. -/\ndef defaultImplConst : String := {}\n\ndef pacingOfDefaultImpl : Pacing := {}\n\n",
            lean_str(dname),
            dlean
        ));
        let row = |(p, v, src): &(String, String, String)| format!("({}, {} /- {} -/)", lean_str(p), v, src.replace("-/", "- /"));
        s.push_str(&format!(
            "/-- The numeric state cells of the value `Metrics::new()` builds, with their initial values: the\nconstructor's expression evaluated structurally (`Default` derives / impls followed through `Rc`, `Cell`\nand nested private structs; path = field names). -/\ndef metricsNewCells : List (String × Rat) := [\n  {}]\n\n/-- The `Pacing` cells of that value. -/\ndef metricsNewPacings : List (String × Pacing) := [\n  {}]\n\n",
            self.metrics_cells.iter().map(row).collect::<Vec<_>>().join(",\n  "),
            self.metrics_pacings.iter().map(row).collect::<Vec<_>>().join(",\n  ")
        ));
        s.push_str(&format!(
            "def pacingUnclassified : List String := {}\n\nend GcArena.Generated\n",
            lean_list(&self.unclassified.iter().map(|x| lean_str(x)).collect::<Vec<_>>())
        ));
        s
    }

    pub fn to_json(&self) -> String {
        let consts: Vec<String> = self
            .consts
            .iter()
            .map(|(c, fs)| {
                let f: Vec<String> = fs
                    .iter()
                    .map(|(rf, v, src)| match v {
                        Some(x) => format!(
                            "{{\"field\":{},\"neg\":{},\"num\":{},\"den\":{},\"src\":{}}}",
                            json_str(rf),
                            x.neg,
                            json_str(&x.num),
                            json_str(&x.den),
                            json_str(src)
                        ),
                        None => format!("{{\"field\":{},\"num\":null,\"src\":{}}}", json_str(rf), json_str(src)),
                    })
                    .collect();
                format!("{{\"name\":{},\"fields\":[{}]}}", json_str(c), f.join(","))
            })
            .collect();
        format!(
            "{{\"consts\":[{}],\"default_impl\":{},\"metrics_new\":[{}],\"unclassified\":[{}]}}",
            consts.join(","),
            json_str(&self.default_impl),
            self.metrics_cells.iter().chain(self.metrics_pacings.iter()).map(|(f, v, src)| format!("{{\"field\":{},\"value\":{},\"src\":{}}}", json_str(f), json_str(v), json_str(src))).collect::<Vec<_>>().join(","),
            self.unclassified.iter().map(|x| json_str(x)).collect::<Vec<_>>().join(",")
        )
    }
}
