//! PacingConsts: the constants of src/metrics.rs that the Lean model copies by hand —
//! `Pacing::DEFAULT`, `Pacing::STOP_THE_WORLD` (field initialisers as exact rationals parsed from
//! the decimal literals), which constant `impl Default for Pacing` returns, and the initial value
//! `Metrics::new()` gives every field of `MetricsInner`.
//!
//! Fails closed: an initialiser that is not a literal, a missing / extra field, a `Default` impl or
//! a `Metrics::new` body of another shape is emitted as an `unclassified` entry **and** as the
//! absurd value `-1` (no factor / counter of the model is negative), so the `…_matches_source`
//! theorems of Props/C09s.lean fail.
use crate::common::*;
use syn::*;

pub const PACING_FIELDS: &[(&str, &str, bool)] = &[
    // (rust field, lean field, is_nat)
    ("sleep_factor", "sleepFactor", false),
    ("min_sleep", "minSleep", true),
    ("mark_factor", "markFactor", false),
    ("trace_factor", "traceFactor", false),
    ("keep_factor", "keepFactor", false),
    ("drop_factor", "dropFactor", false),
    ("free_factor", "freeFactor", false),
];
pub const METRICS_FIELDS: &[(&str, &str, &str)] = &[
    // (rust field, lean field, kind: pacing | nat | rat)
    ("pacing", "pacing", "pacing"),
    ("total_gcs", "totalGcs", "nat"),
    ("wakeup_amount", "wakeup", "rat"),
    ("artificial_debt", "artificial", "rat"),
    ("allocated_gcs", "allocated", "nat"),
    ("dropped_gcs", "dropped", "nat"),
    ("freed_gcs", "freed", "nat"),
    ("marked_gcs", "marked", "nat"),
    ("traced_gcs", "traced", "nat"),
    ("remembered_gcs", "remembered", "nat"),
];

/// An exact value read from a literal: numerator / denominator (denominator a power of ten).
#[derive(Clone, Debug)]
pub struct Exact {
    pub neg: bool,
    pub num: String, // decimal digits, no leading zeros (except "0")
    pub den: String, // "1", "10", "100", …
    pub text: String,
}

pub struct Table {
    pub consts: Vec<(String, Vec<(String, Option<Exact>, String)>)>, // (const name, [(rust field, value, source text)])
    pub default_impl: String,   // name of the constant `impl Default for Pacing` returns, "" if unknown
    pub metrics_new: Vec<(String, String, String)>, // (rust field, lean value text, source text)
    pub unclassified: Vec<String>,
}

/// Parse a Rust numeric literal (`0.05`, `1.0`, `256`, `1e-1`, `0.5f64`, `1_000`) exactly.
pub fn parse_exact(e: &Expr) -> Option<Exact> {
    let (neg, lit) = match e {
        Expr::Unary(u) if matches!(u.op, UnOp::Neg(_)) => match &*u.expr {
            Expr::Lit(l) => (true, l),
            _ => return None,
        },
        Expr::Lit(l) => (false, l),
        Expr::Paren(p) => return parse_exact(&p.expr),
        Expr::Group(p) => return parse_exact(&p.expr),
        _ => return None,
    };
    let text = match &lit.lit {
        Lit::Float(f) => f.base10_digits().to_string(),
        Lit::Int(i) => i.base10_digits().to_string(),
        _ => return None,
    };
    let t = text.replace('_', "");
    let (mant, exp) = match t.find(|c| c == 'e' || c == 'E') {
        Some(k) => (t[..k].to_string(), t[k + 1..].parse::<i64>().ok()?),
        None => (t.clone(), 0i64),
    };
    let (ip, fp) = match mant.find('.') {
        Some(k) => (mant[..k].to_string(), mant[k + 1..].to_string()),
        None => (mant.clone(), String::new()),
    };
    if !ip.chars().all(|c| c.is_ascii_digit()) || !fp.chars().all(|c| c.is_ascii_digit()) || (ip.is_empty() && fp.is_empty()) {
        return None;
    }
    let mut digits = format!("{ip}{fp}");
    let mut scale = fp.len() as i64 - exp; // value = digits / 10^scale
    if scale < 0 {
        digits.push_str(&"0".repeat((-scale) as usize));
        scale = 0;
    }
    let digits = digits.trim_start_matches('0').to_string();
    let num = if digits.is_empty() { "0".to_string() } else { digits };
    let den = format!("1{}", "0".repeat(scale as usize));
    Some(Exact { neg, num, den, text: toks(e) })
}

pub fn extract(_c: &Crate, items: &Items, _raw: &crate::raw::Raw) -> Table {
    let mut t = Table { consts: vec![], default_impl: String::new(), metrics_new: vec![], unclassified: vec![] };
    let in_metrics = |m: &Vec<String>| m.last().map(|x| x == "metrics").unwrap_or(false);
    // the two constants
    for cname in ["DEFAULT", "STOP_THE_WORLD"] {
        let mut found = false;
        for (m, i) in &items.impls {
            if !in_metrics(m) || i.trait_.is_some() || type_path(&i.self_ty).map(last_seg).as_deref() != Some("Pacing") {
                continue;
            }
            for it in &i.items {
                let ImplItem::Const(k) = it else { continue };
                if k.ident != cname {
                    continue;
                }
                found = true;
                let mut fields = vec![];
                match &k.expr {
                    Expr::Struct(s) if last_seg(&s.path) == "Pacing" && s.rest.is_none() => {
                        for (rf, _, _) in PACING_FIELDS {
                            match s.fields.iter().find(|f| toks(&f.member) == *rf) {
                                Some(fv) => {
                                    let v = parse_exact(&fv.expr);
                                    if v.is_none() {
                                        t.unclassified.push(format!("Pacing::{cname}.{rf}: initialiser `{}` is not a literal", toks(&fv.expr)));
                                    }
                                    fields.push((rf.to_string(), v, toks(&fv.expr)));
                                }
                                None => {
                                    t.unclassified.push(format!("Pacing::{cname}: field `{rf}` is not initialised"));
                                    fields.push((rf.to_string(), None, String::new()));
                                }
                            }
                        }
                        for fv in &s.fields {
                            let n = toks(&fv.member);
                            if !PACING_FIELDS.iter().any(|(rf, _, _)| *rf == n) {
                                t.unclassified.push(format!("Pacing::{cname}: field `{n}` is unknown to the model"));
                            }
                        }
                    }
                    other => {
                        t.unclassified.push(format!("Pacing::{cname} is not a plain `Pacing {{ … }}` literal: {}", toks(other)));
                        for (rf, _, _) in PACING_FIELDS {
                            fields.push((rf.to_string(), None, String::new()));
                        }
                    }
                }
                t.consts.push((cname.to_string(), fields));
            }
        }
        if !found {
            t.unclassified.push(format!("Pacing::{cname} not found in src/metrics.rs"));
            t.consts.push((cname.to_string(), PACING_FIELDS.iter().map(|(rf, _, _)| (rf.to_string(), None, String::new())).collect()));
        }
    }
    // the struct must have exactly the seven fields
    for (m, s) in &items.structs {
        if in_metrics(m) && s.ident == "Pacing" {
            let names: Vec<String> = s.fields.iter().filter_map(|f| f.ident.as_ref().map(|x| x.to_string())).collect();
            for n in &names {
                if !PACING_FIELDS.iter().any(|(rf, _, _)| rf == n) {
                    t.unclassified.push(format!("struct Pacing has a field `{n}` unknown to the model"));
                }
            }
        }
        if in_metrics(m) && s.ident == "MetricsInner" {
            let names: Vec<String> = s.fields.iter().filter_map(|f| f.ident.as_ref().map(|x| x.to_string())).collect();
            for n in &names {
                if !METRICS_FIELDS.iter().any(|(rf, _, _)| rf == n) {
                    t.unclassified.push(format!("struct MetricsInner has a field `{n}` unknown to the model"));
                }
            }
        }
    }
    // impl Default for Pacing
    let mut saw_default = false;
    for (m, i) in &items.impls {
        let tr = i.trait_.as_ref().map(|x| last_seg(&x.1)).unwrap_or_default();
        if !in_metrics(m) || tr != "Default" || type_path(&i.self_ty).map(last_seg).as_deref() != Some("Pacing") {
            continue;
        }
        saw_default = true;
        for it in &i.items {
            if let ImplItem::Fn(f) = it {
                if f.sig.ident == "default" {
                    let b = toks(&f.block).replace(' ', "");
                    for cname in ["DEFAULT", "STOP_THE_WORLD"] {
                        if b == format!("{{Self::{cname}}}") || b == format!("{{Pacing::{cname}}}") {
                            t.default_impl = cname.to_string();
                        }
                    }
                    if t.default_impl.is_empty() {
                        t.unclassified.push(format!("<Pacing as Default>::default has an unexpected body: {}", toks(&f.block)));
                    }
                }
            }
        }
    }
    if !saw_default {
        t.unclassified.push("impl Default for Pacing not found".into());
    }
    // Metrics::new() = Self(Default::default()), MetricsInner: Default field by field
    let mut new_ok = false;
    for (m, i) in &items.impls {
        if !in_metrics(m) || i.trait_.is_some() || type_path(&i.self_ty).map(last_seg).as_deref() != Some("Metrics") {
            continue;
        }
        for it in &i.items {
            if let ImplItem::Fn(f) = it {
                if f.sig.ident == "new" {
                    let b = toks(&f.block).replace(' ', "");
                    if b == "{Self(Default::default())}" {
                        new_ok = true;
                    } else {
                        t.unclassified.push(format!("Metrics::new has an unexpected body: {}", toks(&f.block)));
                    }
                }
            }
        }
    }
    if !new_ok && !t.unclassified.iter().any(|u| u.starts_with("Metrics::new")) {
        t.unclassified.push("Metrics::new not found".into());
    }
    // the newtype must wrap Rc<MetricsInner>
    for (m, s) in &items.structs {
        if in_metrics(m) && s.ident == "Metrics" {
            let f0 = s.fields.iter().next().map(|f| toks(&f.ty).replace(' ', "")).unwrap_or_default();
            if f0 != "Rc<MetricsInner>" {
                t.unclassified.push(format!("struct Metrics wraps `{f0}`, not Rc<MetricsInner>"));
            }
        }
    }
    let mut inner_default = false;
    for (m, i) in &items.impls {
        let tr = i.trait_.as_ref().map(|x| last_seg(&x.1)).unwrap_or_default();
        if !in_metrics(m) || tr != "Default" || type_path(&i.self_ty).map(last_seg).as_deref() != Some("MetricsInner") {
            continue;
        }
        for it in &i.items {
            let ImplItem::Fn(f) = it else { continue };
            if f.sig.ident != "default" {
                continue;
            }
            inner_default = true;
            let lit = match f.block.stmts.last() {
                Some(Stmt::Expr(Expr::Struct(s), None)) if last_seg(&s.path) == "MetricsInner" || last_seg(&s.path) == "Self" => Some(s),
                _ => None,
            };
            let Some(s) = lit else {
                t.unclassified.push(format!("<MetricsInner as Default>::default is not a struct literal: {}", toks(&f.block)));
                continue;
            };
            for (rf, _, kind) in METRICS_FIELDS {
                let init = s.fields.iter().find(|fv| toks(&fv.member) == *rf);
                let src = init.map(|fv| toks(&fv.expr)).unwrap_or_default();
                let is_default_call = src.replace(' ', "").trim_start_matches("::").ends_with("Default::default()");
                let value = match (init, *kind) {
                    (None, _) => {
                        t.unclassified.push(format!("MetricsInner::default: field `{rf}` is not initialised"));
                        "-1".to_string()
                    }
                    (Some(_), "pacing") if is_default_call => "pacingOfDefaultImpl".to_string(),
                    (Some(_), _) if is_default_call => "0".to_string(), // Cell<usize> / Cell<f64>: zero
                    (Some(fv), k) => {
                        // `Cell::new(<literal>)` or a bare literal
                        let inner: Option<&Expr> = match &fv.expr {
                            Expr::Call(c) if toks(&*c.func).replace(' ', "").ends_with("Cell::new") && c.args.len() == 1 => Some(&c.args[0]),
                            other => Some(other),
                        };
                        match (inner.and_then(parse_exact), k) {
                            (Some(x), "nat") | (Some(x), "rat") => exact_lean(&x, k == "nat"),
                            _ => {
                                t.unclassified.push(format!("MetricsInner::default: initialiser `{src}` of `{rf}` is not understood"));
                                "-1".to_string()
                            }
                        }
                    }
                };
                t.metrics_new.push((rf.to_string(), value, src));
            }
        }
    }
    if !inner_default {
        t.unclassified.push("impl Default for MetricsInner not found".into());
    }
    t
}

/// Lean text of an exact value (`(1 : Rat) / 10`; a Nat field must be a non-negative integer).
pub fn exact_lean(x: &Exact, nat: bool) -> String {
    if nat {
        if x.neg || x.den != "1" {
            return "0 /- not a natural number -/".into();
        }
        return x.num.clone();
    }
    let sign = if x.neg { "-" } else { "" };
    if x.den == "1" {
        format!("({sign}{} : Rat)", x.num)
    } else {
        format!("(({sign}{} : Rat) / {})", x.num, x.den)
    }
}

impl Table {
    pub fn to_lean(&self, header: &str) -> String {
        let mut s = String::new();
        s.push_str(header);
        s.push_str("import GcArena.Model.Metrics\nnamespace GcArena.Generated\nopen GcArena\n\n");
        for (cname, fields) in &self.consts {
            let lean_name = if cname == "DEFAULT" { "pacingDefault" } else { "pacingStw" };
            s.push_str(&format!("/-- `Pacing::{cname}` of src/metrics.rs; decimal literals read as exact rationals. -/\ndef {lean_name} : Pacing :=\n  {{ "));
            let mut parts = vec![];
            for ((rf, lf, nat), (_, v, src)) in PACING_FIELDS.iter().zip(fields.iter()) {
                let val = match v {
                    Some(x) if *nat && (x.neg || x.den != "1") => "0 /- not a natural number -/".to_string(),
                    Some(x) => exact_lean(x, *nat),
                    // fail closed: no factor of the model is negative; a Nat field gets an absurd size
                    None => if *nat { "18446744073709551616 /- unclassified -/".to_string() } else { "(-1 : Rat) /- unclassified -/".to_string() },
                };
                parts.push(format!("{lf} := {val} /- {rf}: {} -/", src.replace("-/", "- /")));
            }
            s.push_str(&parts.join(",\n    "));
            s.push_str(" }\n\n");
        }
        let (dname, dlean) = match self.default_impl.as_str() {
            "DEFAULT" => ("DEFAULT", "pacingDefault"),
            "STOP_THE_WORLD" => ("STOP_THE_WORLD", "pacingStw"),
            _ => ("", "{ pacingDefault with sleepFactor := -1 } /- unclassified -/"),
        };
        s.push_str(&format!(
            "/-- The constant `<Pacing as Default>::default()` returns. -/\ndef defaultImplConst : String := {}\n\ndef pacingOfDefaultImpl : Pacing := {}\n\n",
            lean_str(dname),
            dlean
        ));
        s.push_str("/-- `Metrics::new()` = `Self(Default::default())`: `<MetricsInner as Default>::default()` field by field\n(`Cell<usize>` / `Cell<f64>` default to zero, `Cell<Pacing>` to `<Pacing as Default>::default()`);\n`underflow` is a ghost flag of the model. -/\ndef metricsNew : Metrics :=\n  { ");
        let mut parts = vec![];
        for (rf, lf, kind) in METRICS_FIELDS {
            let (val, src) = match self.metrics_new.iter().find(|(f, _, _)| f == rf) {
                Some((_, v, src)) => (v.clone(), src.clone()),
                None => ("-1".to_string(), "<missing>".to_string()),
            };
            let val = if *kind == "pacing" && val == "-1" { "{ pacingDefault with sleepFactor := -1 }".to_string() } else if *kind == "nat" && val == "-1" { "18446744073709551616".to_string() } else { val };
            parts.push(format!("{lf} := {val} /- {rf}: {} -/", src.replace("-/", "- /")));
        }
        parts.push("underflow := false".to_string());
        s.push_str(&parts.join(",\n    "));
        s.push_str(" }\n\n");
        s.push_str(&format!(
            "def pacingUnclassified : List String := {}\n\nend GcArena.Generated\n",
            lean_list(&self.unclassified.iter().map(|x| lean_str(x)).collect::<Vec<_>>())
        ));
        s
    }

    pub fn to_json(&self) -> String {
        let consts: Vec<String> = self
            .consts
            .iter()
            .map(|(c, fs)| {
                let f: Vec<String> = fs
                    .iter()
                    .map(|(rf, v, src)| match v {
                        Some(x) => format!(
                            "{{\"field\":{},\"neg\":{},\"num\":{},\"den\":{},\"src\":{}}}",
                            json_str(rf),
                            x.neg,
                            json_str(&x.num),
                            json_str(&x.den),
                            json_str(src)
                        ),
                        None => format!("{{\"field\":{},\"num\":null,\"src\":{}}}", json_str(rf), json_str(src)),
                    })
                    .collect();
                format!("{{\"name\":{},\"fields\":[{}]}}", json_str(c), f.join(","))
            })
            .collect();
        format!(
            "{{\"consts\":[{}],\"default_impl\":{},\"metrics_new\":[{}],\"unclassified\":[{}]}}",
            consts.join(","),
            json_str(&self.default_impl),
            self.metrics_new.iter().map(|(f, v, src)| format!("{{\"field\":{},\"value\":{},\"src\":{}}}", json_str(f), json_str(v), json_str(src))).collect::<Vec<_>>().join(","),
            self.unclassified.iter().map(|x| json_str(x)).collect::<Vec<_>>().join(",")
        )
    }
}
