//! DerefWriteTable: constructors of `Write`, `DerefWrite` / `IndexWrite` / `as_write` projections,
//! `Unlock` impls, interior-mutability `Collect` impls, the lock API, the `field!` macro shape.
use crate::common::*;
use crate::raw::Raw;
use syn::visit::{self, Visit};
use syn::*;

pub struct Proj {
    pub kind: &'static str, // deref | index | asWrite
    pub recv: String,       // Lean constructor text, e.g. ".vec" or ".other \"x\""
    pub recv_key: String,   // short key for probes: ref, box, vec, ...
    pub text: String,
    pub target_static: bool,
    pub gate: String,
    pub idx: String,      // Lean text of the IndexBound (".na" for non-index entries)
    pub idx_key: String,  // na | concrete | upstream | delegates:<recv> | unconstrained
    pub idx_ty: String,   // the index type as written
    pub idx_facts: String, // what the where-clauses assume (for the reader)
}
pub struct RawSite {
    pub name: String,
    pub is_unsafe: bool,
    pub via_write: bool,
    pub barrier: bool,
}
pub struct Ctor {
    pub name: String,
    pub kind: &'static str,
    pub is_unsafe: bool,
    pub static_bound: bool,
    pub barrier: bool,
}
pub struct UnlockImpl {
    pub ty: String,
    pub in_place: bool,
    pub is_unsafe_fn: bool,
}
pub struct CellImpl {
    pub ty: String,
    pub content_static: bool,
    pub needs_trace_false: bool,
}
pub struct LockFn {
    pub name: String,
    pub recv: &'static str,
    pub is_unsafe: bool,
    pub touches_cell: bool,
    pub barrier: bool,
    pub default_take: bool,
}
pub struct Table {
    pub ctors: Vec<Ctor>,
    pub projs: Vec<Proj>,
    pub unlocks: Vec<UnlockImpl>,
    pub cells: Vec<CellImpl>,
    pub lock_fns: Vec<LockFn>,
    pub raw_sites: Vec<RawSite>,
    pub marker_traits_unsafe: bool,
    pub field_macro: String, // Lean text
    pub write_non_exhaustive: bool,
    pub unclassified: Vec<String>,
}

fn classify_recv(c: &Crate, module: &[String], t: &Type) -> (String, String) {
    match t {
        Type::Reference(r) if r.mutability.is_none() => (".ref".into(), "ref".into()),
        Type::Slice(_) => (".slice".into(), "slice".into()),
        Type::Array(_) => (".array".into(), "array".into()),
        Type::Paren(p) => classify_recv(c, module, &p.elem),
        Type::Group(p) => classify_recv(c, module, &p.elem),
        _ => {
            if let Some(p) = type_path(t) {
                let full = c.resolve(module, &path_segs(p), p.leading_colon.is_some()).join("::");
                let k = match full.as_str() {
                    "alloc::boxed::Box" => "box",
                    "alloc::vec::Vec" => "vec",
                    "alloc::rc::Rc" => "rc",
                    "alloc::sync::Arc" => "arc",
                    "alloc::collections::VecDeque" | "alloc::collections::vec_deque::VecDeque" => "vecDeque",
                    "alloc::collections::BTreeMap" | "alloc::collections::btree_map::BTreeMap" => "btreeMap",
                    "std::collections::HashMap" | "std::collections::hash_map::HashMap" => "hashMap",
                    "hashbrown::HashMap" => "hbHashMap",
                    "core::prelude::Option" | "core::option::Option" => "option",
                    "core::prelude::Result" | "core::result::Result" => "result",
                    _ => "",
                };
                if !k.is_empty() {
                    return (format!(".{k}"), k.to_string());
                }
                return (format!(".other {}", lean_str(&full)), format!("other:{full}"));
            }
            (format!(".other {}", lean_str(&toks(t))), format!("other:{}", toks(t)))
        }
    }
}

/// All generic type parameters (of `g`) that occur in `t` are bounded by `'static`
/// (or the whole self type is). A type without parameters counts only if it has no lifetimes.
fn target_static(g: &Generics, t: &Type) -> bool {
    let text = toks(t);
    let (st, self_static) = static_bounded(g, &text);
    if self_static {
        return true;
    }
    let params = type_params(g);
    let used: Vec<&String> = params.iter().filter(|p| mentions_ident(t, p)).collect();
    if used.is_empty() {
        return false;
    }
    used.iter().all(|p| st.contains(p))
}

/// All `Type: Trait<…>` bounds of an impl header: inline parameter bounds and where-predicates.
fn trait_bounds(g: &Generics) -> Vec<(Type, Path)> {
    let mut v = vec![];
    for p in &g.params {
        if let GenericParam::Type(t) = p {
            let id = &t.ident;
            let ty: Type = syn::parse_quote!(#id);
            for b in &t.bounds {
                if let TypeParamBound::Trait(tb) = b {
                    if !matches!(tb.modifier, TraitBoundModifier::Maybe(_)) {
                        v.push((ty.clone(), tb.path.clone()));
                    }
                }
            }
        }
    }
    if let Some(w) = &g.where_clause {
        for pr in &w.predicates {
            if let WherePredicate::Type(pt) = pr {
                for b in &pt.bounds {
                    if let TypeParamBound::Trait(tb) = b {
                        if !matches!(tb.modifier, TraitBoundModifier::Maybe(_)) {
                            v.push((pt.bounded_ty.clone(), tb.path.clone()));
                        }
                    }
                }
            }
        }
    }
    v
}

/// Classify how `unsafe impl<…> IndexWrite<Idx> for R where …` constrains `Idx`
/// (see `IndexBound` in Model/WriteCap.lean). Decided from the where-clauses as written.
/// Returns (Lean text, key, index type text, facts text).
fn classify_index(c: &Crate, module: &[String], i: &ItemImpl) -> (String, String, String, String) {
    let unk = |why: &str| (".unconstrained".to_string(), "unconstrained".to_string(), String::new(), why.to_string());
    let Some((_, tp, _)) = &i.trait_ else { return unk("no trait") };
    let targs = last_type_args(tp);
    let Some(idx) = targs.first() else { return unk("IndexWrite without an index type argument") };
    let idx_text = pretty(&toks(*idx));
    let tparams = type_params(&i.generics);
    let self_text = toks(&*i.self_ty);
    let mentions: Vec<&String> = tparams.iter().filter(|p| mentions_ident(*idx, p)).collect();
    // bare parameter `I`?
    let bare: Option<String> = match idx {
        Type::Path(p) if p.qself.is_none() => p.path.get_ident().map(|x| x.to_string()).filter(|x| tparams.contains(x)),
        _ => None,
    };
    let mut assumes_self = vec![];
    let mut assumes_index = vec![];
    let mut pins: Vec<(String, String)> = vec![];
    for (bty, tr) in trait_bounds(&i.generics) {
        let bt = toks(&bty);
        let tname = last_seg(&tr);
        let full = c.resolve(module, &path_segs(&tr), tr.leading_colon.is_some()).join("::");
        if tname == "Sized" {
            continue;
        }
        if bt == "Self" || bt == self_text {
            assumes_self.push(pretty(&format!("{bt}: {}", toks(&tr))));
        } else if tname == "IndexWrite" {
            let arg = last_type_args(&tr).first().map(|t| toks(*t)).unwrap_or_default();
            if bare.as_deref() == Some(arg.as_str()) {
                pins.push(classify_recv(c, module, &bty));
            } else {
                assumes_index.push(pretty(&format!("{bt}: {}", toks(&tr))));
            }
        } else if tname == "Index" || tname == "IndexMut" || full.starts_with("crate::") || full.starts_with('?') {
            // an `Index` assumption on another type, or a crate-defined / unresolved trait that may
            // have `Index` as a supertrait
            assumes_index.push(pretty(&format!("{bt}: {}", toks(&tr))));
        }
    }
    let facts = format!(
        "index type `{idx_text}`{}; assumes on Self: [{}]; other Index assumptions: [{}]; pinned by IndexWrite of: [{}]",
        if mentions.is_empty() { " (no impl parameter)".to_string() } else { format!(" (mentions {})", mentions.iter().map(|s| s.as_str()).collect::<Vec<_>>().join(", ")) },
        assumes_self.join("; "),
        assumes_index.join("; "),
        pins.iter().map(|p| p.1.clone()).collect::<Vec<_>>().join(", ")
    );
    let nothing_assumed = assumes_self.is_empty() && assumes_index.is_empty();
    let (lean, key) = if mentions.is_empty() {
        if nothing_assumed && pins.is_empty() {
            (".concrete".to_string(), "concrete".to_string())
        } else {
            (".unconstrained".to_string(), "unconstrained".to_string())
        }
    } else if pins.len() == 1 && assumes_index.is_empty() && bare.is_some() {
        (format!("(.delegates {})", pins[0].0), format!("delegates:{}", pins[0].1))
    } else if pins.is_empty() && nothing_assumed {
        (".upstream".to_string(), "upstream".to_string())
    } else {
        (".unconstrained".to_string(), "unconstrained".to_string())
    };
    (lean, key, idx_text, facts)
}

/// `unsafe { match &self.__inner { None => None, Some(v) => Some(Write::assume(v)) } }` or the
/// `Ok` / `Err` analogue: every arm re-wraps its payload with `Write::assume` under the same
/// constructor; arm order and binder names are free.
fn as_write_body_ok(b: &Block) -> bool {
    let inner: &Expr = match b.stmts.as_slice() {
        [Stmt::Expr(Expr::Unsafe(u), None)] => match u.block.stmts.as_slice() {
            [Stmt::Expr(e, None)] => e,
            _ => return false,
        },
        [Stmt::Expr(e, None)] => e,
        _ => return false,
    };
    let Expr::Match(m) = inner else { return false };
    if toks(&*m.expr).replace(' ', "") != "&self.__inner" {
        return false;
    }
    let mut ctors = vec![];
    for arm in &m.arms {
        if arm.guard.is_some() {
            return false;
        }
        let body = toks(&*arm.body).replace(' ', "");
        match &arm.pat {
            Pat::Ident(pi) if pi.ident == "None" && pi.subpat.is_none() => {
                if body != "None" {
                    return false;
                }
                ctors.push("None".to_string());
            }
            Pat::Path(pp) if last_seg(&pp.path) == "None" => {
                if body != "None" {
                    return false;
                }
                ctors.push("None".to_string());
            }
            Pat::TupleStruct(ts) if ts.elems.len() == 1 => {
                let c = last_seg(&ts.path);
                let Pat::Ident(pi) = &ts.elems[0] else { return false };
                let x = pi.ident.to_string();
                if !["Some", "Ok", "Err"].contains(&c.as_str()) || body != format!("{c}(Write::assume({x}))") {
                    return false;
                }
                ctors.push(c);
            }
            _ => return false,
        }
    }
    ctors.sort();
    ctors == ["None", "Some"] || ctors == ["Err", "Ok"]
}

/// Token text of a block with all whitespace and trailing commas removed.
fn canon_body(b: &Block) -> String {
    toks(b).replace(' ', "").replace(",}", "}")
}

fn ret_type_text(sig: &Signature) -> String {
    match &sig.output {
        ReturnType::Default => String::new(),
        ReturnType::Type(_, t) => toks(&**t),
    }
}

fn has_bound(g: &Generics, extra: Option<&Generics>, param: &str, bound_last_seg: &str) -> bool {
    let check = |g: &Generics| -> bool {
        for p in &g.params {
            if let GenericParam::Type(t) = p {
                if t.ident == param {
                    for b in &t.bounds {
                        if let TypeParamBound::Trait(tb) = b {
                            if last_seg(&tb.path) == bound_last_seg {
                                return true;
                            }
                        }
                    }
                }
            }
        }
        if let Some(w) = &g.where_clause {
            for pr in &w.predicates {
                if let WherePredicate::Type(pt) = pr {
                    if toks(&pt.bounded_ty) == param {
                        for b in &pt.bounds {
                            if let TypeParamBound::Trait(tb) = b {
                                if last_seg(&tb.path) == bound_last_seg {
                                    return true;
                                }
                            }
                        }
                    }
                }
            }
        }
        false
    };
    check(g) || extra.map(|e| check(e)).unwrap_or(false)
}

const CELL_READERS: &[&str] = &["get", "borrow", "try_borrow", "into_inner", "get_mut", "as_ptr", "clone", "fmt", "eq", "cmp", "partial_cmp"];

struct BodyScan {
    touches: bool,   // mutates the cell or hands out a reference to it
    mutates: bool,   // calls a non-reading method on the cell
    barrier: bool,
    raw_calls: Vec<String>, // method / path calls by name (for the raw-unlock-site scan)
}
impl<'ast> Visit<'ast> for BodyScan {
    fn visit_expr_method_call(&mut self, m: &'ast ExprMethodCall) {
        let name = m.method.to_string();
        if let Expr::Field(f) = &*m.receiver {
            if let Member::Named(id) = &f.member {
                if id == "cell" && !CELL_READERS.contains(&name.as_str()) {
                    self.touches = true;
                    self.mutates = true;
                }
            }
        }
        if name == "backward_barrier" || name == "backward_barrier_weak" || name == "forward_barrier" {
            self.barrier = true;
        }
        if name == "unlock" && m.args.len() == 1 {
            self.barrier = true; // Gc::unlock(self, mc) = Gc::write(mc, self).unlock()
        }
        self.raw_calls.push(name);
        visit::visit_expr_method_call(self, m);
    }
    fn visit_expr_call(&mut self, c: &'ast ExprCall) {
        if let Expr::Path(p) = &*c.func {
            let segs = path_segs(&p.path);
            if segs.len() >= 2 && segs[segs.len() - 2] == "Gc" && segs[segs.len() - 1] == "write" {
                self.barrier = true;
            }
            if let Some(l) = segs.last() {
                self.raw_calls.push(l.clone());
            }
        }
        visit::visit_expr_call(self, c);
    }
    fn visit_expr_reference(&mut self, r: &'ast ExprReference) {
        if let Expr::Field(f) = &*r.expr {
            if let Member::Named(id) = &f.member {
                if id == "cell" {
                    self.touches = true;
                }
            }
        }
        visit::visit_expr_reference(self, r);
    }
}

fn recv_kind(sig: &Signature, on_gc: bool) -> &'static str {
    match sig.inputs.first() {
        Some(FnArg::Receiver(r)) => {
            if r.reference.is_some() {
                if r.mutability.is_some() {
                    "refMut"
                } else {
                    "ref"
                }
            } else if on_gc {
                "gc"
            } else {
                "value"
            }
        }
        _ => "none",
    }
}

/// Names of the metavariables of a matcher `$a:f1, $b:f2, …` whose fragment specifiers are exactly
/// `frags` (the names themselves are free, but must be distinct).
pub fn metavars(matcher: &proc_macro2::TokenStream, frags: &[&str]) -> Option<Vec<String>> {
    let t = toks(matcher).replace(' ', "");
    let parts: Vec<&str> = t.split(',').filter(|x| !x.is_empty()).collect();
    if parts.len() != frags.len() {
        return None;
    }
    let mut names = vec![];
    for (p, f) in parts.iter().zip(frags) {
        let p = p.strip_prefix('$')?;
        let (n, fr) = p.split_once(':')?;
        if fr != *f || n.is_empty() || !n.chars().all(|c| c.is_alphanumeric() || c == '_') || names.contains(&n.to_string()) {
            return None;
        }
        names.push(n.to_string());
    }
    Some(names)
}

/// Check the `__field!` macro: one rule whose expansion is a pure pattern destructuring.
fn field_macro_shape(raw: &Raw) -> String {
    let Some((_, _, body)) = raw.macro_rules("__field") else {
        return ".missing".into();
    };
    let text = toks(&body);
    // split "( matcher ) => { rhs }" – exactly one rule expected
    let trees: Vec<proc_macro2::TokenTree> = body.into_iter().collect();
    let groups: Vec<&proc_macro2::Group> =
        trees.iter().filter_map(|t| if let proc_macro2::TokenTree::Group(g) = t { Some(g) } else { None }).collect();
    if groups.len() != 2 {
        return format!(".other {}", lean_str(&format!("expected exactly one rule, found {} groups", groups.len())));
    }
    // matcher: `$A:expr, $B:path, $C:ident` — the metavariable names are free
    let Some(mv) = metavars(&groups[0].stream(), &["expr", "path", "ident"]) else {
        return format!(".other {}", lean_str(&format!("unexpected matcher: {}", toks(&groups[0].stream()))));
    };
    // make the RHS parseable: $crate -> crate, metavariables -> fixed names (by position)
    let rhs = toks(&groups[1].stream())
        .replace("$ crate", "crate")
        .replace(&format!("$ {}", mv[0]), "__value")
        .replace(&format!("$ {}", mv[1]), "__Type")
        .replace(&format!("$ {}", mv[2]), "__field");
    let expr: Expr = match syn::parse_str(&rhs) {
        Ok(e) => e,
        Err(e) => return format!(".other {}", lean_str(&format!("rhs does not parse as an expression: {e}"))),
    };
    let bad = |why: &str| format!(".other {}", lean_str(&format!("{why}; macro body: {text}")));
    let Expr::Match(m) = expr else { return bad("rhs is not a `match`") };
    if toks(&*m.expr) != "__value" {
        return bad("scrutinee is not `$value`");
    }
    if m.arms.len() != 1 {
        return bad("more than one arm");
    }
    let arm = &m.arms[0];
    if arm.guard.is_some() {
        return bad("arm has a guard");
    }
    let Pat::Reference(pr) = &arm.pat else { return bad("pattern is not `&…`") };
    if pr.mutability.is_some() {
        return bad("pattern is `&mut`");
    }
    let Pat::Struct(ps) = &*pr.pat else { return bad("pattern under & is not a struct pattern") };
    let pth = path_segs(&ps.path).join("::");
    if pth != "crate::barrier::Write" {
        return bad("outer struct pattern is not `$crate::barrier::Write`");
    }
    if ps.fields.len() != 1 || ps.rest.is_none() {
        return bad("outer pattern must be `{ __inner: …, .. }`");
    }
    let f0 = &ps.fields[0];
    if toks(&f0.member) != "__inner" {
        return bad("outer pattern field is not `__inner`");
    }
    let Pat::Struct(inner) = &*f0.pat else { return bad("`__inner` is not matched by a struct pattern") };
    if toks(&inner.path) != "__Type" || inner.fields.len() != 1 || inner.rest.is_none() {
        return bad("inner pattern must be `$type { ref $field, .. }`");
    }
    let f1 = &inner.fields[0];
    let ok_binding = match &*f1.pat {
        Pat::Ident(pi) => pi.by_ref.is_some() && pi.mutability.is_none() && pi.subpat.is_none() && pi.ident == "__field",
        _ => false,
    };
    if !ok_binding || toks(&f1.member) != "__field" {
        return bad("inner field is not bound by `ref $field`");
    }
    // body: unsafe { $crate::barrier::Write::__from_ref_and_ptr($field, $field as *const _) }
    let body = toks(&*arm.body).replace(' ', "");
    if body != "unsafe{crate::barrier::Write::__from_ref_and_ptr(__field,__fieldas*const_)}" {
        return bad("arm body is not `unsafe { Write::__from_ref_and_ptr($field, $field as *const _) }`");
    }
    ".byPattern".into()
}

pub fn extract(c: &Crate, items: &Items, raw: &Raw) -> Table {
    let mut t = Table {
        ctors: vec![],
        projs: vec![],
        unlocks: vec![],
        cells: vec![],
        lock_fns: vec![],
        raw_sites: vec![],
        marker_traits_unsafe: false,
        field_macro: field_macro_shape(raw),
        write_non_exhaustive: false,
        unclassified: vec![],
    };
    // struct Write attributes
    for (m, s) in &items.structs {
        if s.ident == "Write" && m.last().map(|x| x == "barrier").unwrap_or(false) {
            t.write_non_exhaustive = s.attrs.iter().any(|a| a.path().is_ident("non_exhaustive"));
        }
    }
    // Unlock trait: method unsafe?
    let mut unlock_trait_unsafe = false;
    for (_, tr) in &items.traits {
        if tr.ident == "Unlock" {
            for it in &tr.items {
                if let TraitItem::Fn(f) = it {
                    if f.sig.ident == "unlock_unchecked" {
                        unlock_trait_unsafe = f.sig.unsafety.is_some();
                    }
                }
            }
        }
    }
    let mut lock_types: Vec<String> = vec![];
    for (module, i) in &items.impls {
        let modname = module.join("::");
        let self_text = toks(&*i.self_ty);
        let trait_name = i.trait_.as_ref().map(|t| last_seg(&t.1)).unwrap_or_default();
        match trait_name.as_str() {
            "DerefWrite" | "IndexWrite" => {
                let (recv, key) = classify_recv(c, module, &i.self_ty);
                let hdr = format!(
                    "impl{} {} for {}{}",
                    toks(&i.generics.params).replace(' ', "").chars().take(0).collect::<String>(),
                    toks(&i.trait_.as_ref().unwrap().1),
                    self_text,
                    i.generics.where_clause.as_ref().map(|w| format!(" {}", toks(w))).unwrap_or_default()
                );
                let hdr = pretty(&format!("<{}> {}", toks(&i.generics.params), hdr.trim_start_matches("impl ")));
                if i.unsafety.is_none() {
                    t.unclassified.push(format!("safe impl of {trait_name} for {self_text}"));
                }
                let (idx, idx_key, idx_ty, idx_facts) = if trait_name == "IndexWrite" {
                    classify_index(c, module, i)
                } else {
                    // DerefWrite: `Deref` has no type parameter, so no downstream crate can add a
                    // `Deref` impl to a foreign receiver; but a where-clause bounding the receiver
                    // itself would mean the `Deref` impl is assumed, not known: fail closed
                    for (bty, tr) in trait_bounds(&i.generics) {
                        let bt = toks(&bty);
                        if (bt == "Self" || bt == self_text) && last_seg(&tr) != "Sized" {
                            t.unclassified.push(format!("DerefWrite for {self_text} assumes `{}` on the receiver", pretty(&format!("{bt}: {}", toks(&tr)))));
                        }
                    }
                    (".na".to_string(), "na".to_string(), String::new(), String::new())
                };
                t.projs.push(Proj {
                    kind: if trait_name == "DerefWrite" { "deref" } else { "index" },
                    recv,
                    recv_key: key,
                    text: hdr,
                    target_static: target_static(&i.generics, &i.self_ty),
                    gate: raw.gate_for(&modname, &trait_name, &self_text),
                    idx,
                    idx_key,
                    idx_ty,
                    idx_facts,
                });
            }
            "Unlock" => {
                let mut in_place = false;
                let mut is_unsafe_fn = unlock_trait_unsafe;
                for it in &i.items {
                    if let ImplItem::Fn(f) = it {
                        if f.sig.ident == "unlock_unchecked" {
                            is_unsafe_fn = is_unsafe_fn && f.sig.unsafety.is_some();
                            // body: a single expression `&self.<field>`
                            if f.block.stmts.len() == 1 {
                                if let Stmt::Expr(Expr::Reference(r), None) = &f.block.stmts[0] {
                                    if r.mutability.is_none() {
                                        if let Expr::Field(fe) = &*r.expr {
                                            // `self` must itself be the struct owning that field
                                            // (not a pointer type reaching it through `Deref`)
                                            let head = type_path(&i.self_ty).map(last_seg).unwrap_or_default();
                                            let field = toks(&fe.member);
                                            let owns = items.structs.iter().any(|(_, st)| {
                                                st.ident == head && st.fields.iter().any(|f| f.ident.as_ref().map(|x| x.to_string()) == Some(field.clone()))
                                            });
                                            if toks(&*fe.base) == "self" && owns {
                                                in_place = true;
                                            }
                                        }
                                    }
                                }
                            }
                        }
                    }
                }
                let ty = type_path(&i.self_ty).map(last_seg).unwrap_or(self_text.clone());
                lock_types.push(ty.clone());
                t.unlocks.push(UnlockImpl { ty, in_place, is_unsafe_fn });
            }
            "Collect" => {
                if let Some(p) = type_path(&i.self_ty) {
                    let full = c.resolve(module, &path_segs(p), p.leading_colon.is_some()).join("::");
                    let is_cell = full.starts_with("core::cell::")
                        || full.starts_with("std::cell::")
                        || full.starts_with("core::sync::atomic")
                        || full.starts_with("std::sync::")
                        || full.starts_with("alloc::sync::Weak") && false;
                    if is_cell {
                        let mut nt_false = false;
                        let mut has_trace = false;
                        for it in &i.items {
                            match it {
                                ImplItem::Const(k) if k.ident == "NEEDS_TRACE" => nt_false = toks(&k.expr) == "false",
                                ImplItem::Fn(f) if f.sig.ident == "trace" => has_trace = true,
                                _ => {}
                            }
                        }
                        t.cells.push(CellImpl {
                            ty: full,
                            content_static: target_static(&i.generics, &i.self_ty),
                            needs_trace_false: nt_false && !has_trace,
                        });
                    }
                }
            }
            "Index" => {
                if self_text.starts_with("Write <") {
                    // impl<T: IndexWrite<I> + ?Sized, I> Index<I> for Write<T>
                    if !has_bound(&i.generics, None, "T", "IndexWrite") {
                        t.unclassified.push(format!("Index for {self_text} without an IndexWrite bound"));
                    }
                    for it in &i.items {
                        if let ImplItem::Fn(f) = it {
                            if f.sig.ident == "index" && canon_body(&f.block) != "{unsafe{Write::assume(&self.__inner[index])}}" {
                                t.unclassified.push(format!("<Write<T> as Index>::index has an unexpected body: {}", toks(&f.block)));
                            }
                        }
                    }
                } else {
                    // an `Index` impl written in the crate itself: its body is not analysed
                    t.unclassified.push(format!("crate-local `impl Index for {}` (body not analysed)", pretty(&self_text)));
                }
            }
            _ => {}
        }
        // functions producing / projecting Write references
        let on_write = type_path(&i.self_ty).map(|p| last_seg(p) == "Write").unwrap_or(false) && modname.ends_with("barrier");
        for it in &i.items {
            let ImplItem::Fn(f) = it else { continue };
            let ret = ret_type_text(&f.sig);
            let returns_write = {
                let r = ret.replace(' ', "");
                r.contains("&Write<") || r.contains("mutWrite<") || (r.contains("Write<") && r.contains('&')) || (on_write && (r.contains("&Self") || r.contains("&mutSelf")))
                    || regex_lite_ref_lifetime_write(&r)
            };
            if !returns_write {
                continue;
            }
            let name = f.sig.ident.to_string();
            let takes_write = f.sig.inputs.iter().any(|a| match a {
                FnArg::Receiver(_) => on_write,
                FnArg::Typed(pt) => toks(&*pt.ty).replace(' ', "").contains("Write<"),
            });
            let is_unsafe = f.sig.unsafety.is_some();
            let self_head = type_path(&i.self_ty).map(last_seg).unwrap_or(self_text.clone());
            if !takes_write {
                // a constructor
                let (kind, qual): (&'static str, String) = if on_write {
                    (
                        match name.as_str() {
                            "assume" => "assume",
                            "from_static" => "fromStatic",
                            "from_mut" => "fromMut",
                            "__from_ref_and_ptr" => "fromRefAndPtr",
                            _ => "other",
                        },
                        format!("Write::{name}"),
                    )
                } else if self_head == "Gc" && name == "write" {
                    ("gcWrite", "Gc::write".to_string())
                } else {
                    ("other", format!("{self_head}::{name}"))
                };
                // 'static bound on the impl's / fn's target parameter
                let tparams = type_params(&i.generics);
                let (st_impl, _) = static_bounded(&i.generics, &self_text);
                let (st_fn, _) = static_bounded(&f.sig.generics, &self_text);
                let static_bound = tparams.iter().any(|p| st_impl.contains(p) || st_fn.contains(p));
                // barrier: a `backward_barrier` call mentioning the Gc parameter precedes `Write::assume`
                let mut barrier = false;
                if kind == "gcWrite" {
                    let gc_param = f
                        .sig
                        .inputs
                        .iter()
                        .filter_map(|a| match a {
                            FnArg::Typed(pt) if toks(&*pt.ty) == "Self" => Some(toks(&*pt.pat)),
                            FnArg::Receiver(_) => Some("self".to_string()),
                            _ => None,
                        })
                        .next()
                        .unwrap_or_default();
                    let body = toks(&f.block).replace(' ', "");
                    if let (Some(b), Some(a)) = (body.find(".backward_barrier("), body.find("Write::assume(")) {
                        let call = &body[b..a.max(b)];
                        barrier = b < a && call.contains(&format!("Gc::erase({gc_param}),None"));
                    }
                }
                t.ctors.push(Ctor { name: qual, kind, is_unsafe, static_bound, barrier });
            } else if on_write {
                let body = canon_body(&f.block);
                let expect: Option<&[&str]> = match name.as_str() {
                    "unlock" => Some(&["{unsafe{self.__inner.unlock_unchecked()}}"]),
                    "as_deref" => Some(&["{unsafe{Write::assume(&*self)}}"]),
                    "as_write" => None, // judged structurally below (arm order / binder names are free)
                    "deref" => Some(&["{&self.__inner}"]),
                    "deref_mut" => Some(&["{&mutself.__inner}"]),
                    _ => None,
                };
                if let Some(ex) = expect {
                    if !ex.contains(&body.as_str()) {
                        t.unclassified.push(format!("Write::{name} has an unexpected body: {}", toks(&f.block)));
                    }
                }
                if name == "as_write" && !as_write_body_ok(&f.block) {
                    t.unclassified.push(format!("Write::as_write has an unexpected body: {}", toks(&f.block)));
                }
                match name.as_str() {
                    "unlock" => {}
                    "as_deref" => {
                        if !has_bound(&i.generics, Some(&f.sig.generics), "T", "DerefWrite") {
                            t.unclassified.push("Write::as_deref without a DerefWrite bound".into());
                        }
                    }
                    "as_write" => {
                        // receiver is Write<Option<T>> / Write<Result<T, E>>
                        let inner = type_path(&i.self_ty).map(|p| last_type_args(p)).unwrap_or_default();
                        if let Some(inner) = inner.first() {
                            let (recv, key) = classify_recv(c, module, inner);
                            t.projs.push(Proj {
                                kind: "asWrite",
                                recv,
                                recv_key: key,
                                text: pretty(&format!("Write<{}>::as_write", toks(*inner))),
                                target_static: false,
                                gate: raw.gate_for(&modname, "", &self_text),
                                idx: ".na".into(),
                                idx_key: "na".into(),
                                idx_ty: String::new(),
                                idx_facts: String::new(),
                            });
                        } else {
                            t.unclassified.push("Write::as_write on an unknown receiver".into());
                        }
                    }
                    "index" | "deref" | "deref_mut" => {}
                    _ => {
                        if !is_unsafe {
                            t.unclassified.push(format!("unknown safe Write projection Write::{name}"));
                        }
                    }
                }
            }
        }
        // `unlock` must require T: Unlock
        if on_write {
            for it in &i.items {
                if let ImplItem::Fn(f) = it {
                    if f.sig.ident == "unlock" && !has_bound(&i.generics, Some(&f.sig.generics), "T", "Unlock") {
                        t.unclassified.push("Write::unlock without an Unlock bound".into());
                    }
                }
            }
        }
    }
    // Deref for Write must target T (in-place); any other Deref-like impl returning Write handled above.
    // Free functions returning &Write
    for (_, f) in &items.fns {
        let r = ret_type_text(&f.sig).replace(' ', "");
        if (r.contains("Write<") && r.contains('&')) && !f.sig.inputs.iter().any(|a| toks(a).replace(' ', "").contains("Write<")) {
            t.ctors.push(Ctor {
                name: format!("fn {}", f.sig.ident),
                kind: "other",
                is_unsafe: f.sig.unsafety.is_some(),
                static_bound: false,
                barrier: false,
            });
        }
    }
    // lock API
    lock_types.sort();
    lock_types.dedup();
    for (_module, i) in &items.impls {
        let tr_name = i.trait_.as_ref().map(|t| last_seg(&t.1));
        if tr_name.as_deref() == Some("Unlock") {
            continue; // judged as an UnlockImpl
        }
        let Some(p) = type_path(&i.self_ty) else { continue };
        let head = last_seg(p);
        let (lock_ty, on_gc) = if lock_types.contains(&head) {
            (head.clone(), false)
        } else if head == "Gc" {
            let inner = last_type_args(p);
            match inner.first().and_then(|t| type_path(t)).map(last_seg) {
                Some(h) if lock_types.contains(&h) => (h, true),
                _ => continue,
            }
        } else {
            continue;
        };
        for it in &i.items {
            let ImplItem::Fn(f) = it else { continue };
            if tr_name.is_none() && !matches!(f.vis, Visibility::Public(_)) {
                continue;
            }
            let mut scan = BodyScan { touches: false, mutates: false, barrier: false, raw_calls: vec![] };
            scan.visit_block(&f.block);
            let name = f.sig.ident.to_string();
            let default_take = name == "take"
                && (has_bound(&i.generics, Some(&f.sig.generics), "T", "Default"));
            let ty_txt = if on_gc { format!("Gc<{lock_ty}>") } else { lock_ty.clone() };
            t.lock_fns.push(LockFn {
                name: match &tr_name {
                    Some(tn) => format!("<{ty_txt} as {tn}>::{name}"),
                    None => format!("{ty_txt}::{name}"),
                },
                recv: recv_kind(&f.sig, on_gc),
                is_unsafe: f.sig.unsafety.is_some(),
                // trait impls (Debug, Clone, …) may *read* through `&self.cell`; only a mutating call counts
                touches_cell: if tr_name.is_some() { scan.mutates } else { scan.touches },
                barrier: scan.barrier,
                default_take,
            });
        }
    }
    // raw unlock sites: every function of the crate calling `unlock_unchecked` or an unsafe raw
    // accessor of a lock type
    let mut raw_names: Vec<String> = vec!["unlock_unchecked".to_string()];
    for f in &t.lock_fns {
        if f.is_unsafe && f.touches_cell {
            if let Some(n) = f.name.rsplit("::").next() {
                raw_names.push(n.to_string());
            }
        }
    }
    let site = |t: &mut Table, name: String, sig: &Signature, block: &Block, via_write: bool| {
        let mut scan = BodyScan { touches: false, mutates: false, barrier: false, raw_calls: vec![] };
        scan.visit_block(block);
        if scan.raw_calls.iter().any(|c| raw_names.contains(c)) {
            t.raw_sites.push(RawSite { name, is_unsafe: sig.unsafety.is_some(), via_write, barrier: scan.barrier });
        }
    };
    for (module, i) in &items.impls {
        let head = type_path(&i.self_ty).map(last_seg).unwrap_or_else(|| pretty(&toks(&*i.self_ty)));
        let trn = i.trait_.as_ref().map(|t| last_seg(&t.1));
        let in_barrier = module.last().map(|m| m == "barrier").unwrap_or(false);
        for it in &i.items {
            if let ImplItem::Fn(f) = it {
                let name = match &trn {
                    Some(tn) => format!("<{head} as {tn}>::{}", f.sig.ident),
                    None => format!("{head}::{}", f.sig.ident),
                };
                let via_write = head == "Write" && in_barrier && trn.is_none() && f.sig.ident == "unlock"
                    && matches!(f.sig.inputs.first(), Some(FnArg::Receiver(r)) if r.reference.is_some() && r.mutability.is_none());
                site(&mut t, name, &f.sig, &f.block, via_write);
            }
        }
    }
    for (_, f) in &items.fns {
        site(&mut t, format!("fn {}", f.sig.ident), &f.sig, &f.block, false);
    }
    // the marker traits must be `unsafe trait`s (else a downstream crate implements them freely)
    let mut dw_unsafe = false;
    let mut iw_unsafe = false;
    for (_, tr) in &items.traits {
        if tr.ident == "DerefWrite" {
            dw_unsafe = tr.unsafety.is_some();
        }
        if tr.ident == "IndexWrite" {
            iw_unsafe = tr.unsafety.is_some();
        }
    }
    t.marker_traits_unsafe = dw_unsafe && iw_unsafe;
    // exported macros mentioning Write other than field!/unlock!
    for (_m, name, exported, body) in raw.all_macro_rules() {
        if !exported {
            continue;
        }
        let b = body.replace(' ', "");
        if name == "__unlock" {
            let b = b.trim_end_matches(';');
            // `($a:expr, $b:path, $c:ident) => { $crate::barrier::field!($a, $b, $c).unlock() }`, names free
            let ok = (|| {
                let (m, rhs) = b.split_once("=>")?;
                let m = m.strip_prefix('(')?.strip_suffix(')')?;
                let ts: proc_macro2::TokenStream = m.parse().ok()?;
                let mv = metavars(&ts, &["expr", "path", "ident"])?;
                Some(rhs == format!("{{$crate::barrier::field!(${},${},${}).unlock()}}", mv[0], mv[1], mv[2]))
            })()
            .unwrap_or(false);
            if !ok {
                t.unclassified.push("macro __unlock! is not `field!(…).unlock()`".into());
            }
        } else if name != "__field" && (b.contains("Write") || b.contains("unlock_unchecked")) {
            t.unclassified.push(format!("exported macro {name}! mentions Write"));
        }
    }
    if t.ctors.iter().all(|c| c.kind != "gcWrite") {
        t.unclassified.push("Gc::write not found".into());
    }
    if t.unlocks.is_empty() {
        t.unclassified.push("no Unlock impl found".into());
    }
    if t.cells.is_empty() {
        t.unclassified.push("no Collect impl for Cell / RefCell found".into());
    }
    t
}

/// `&'gcWrite<` style (reference with a lifetime) – text has spaces stripped.
fn regex_lite_ref_lifetime_write(r: &str) -> bool {
    let b = r.as_bytes();
    let mut i = 0;
    while i < b.len() {
        if b[i] == b'&' && i + 1 < b.len() && b[i + 1] == b'\'' {
            let mut j = i + 2;
            while j < b.len() && (b[j].is_ascii_alphanumeric() || b[j] == b'_') {
                j += 1;
            }
            let rest = &r[j..];
            if rest.starts_with("Write<") || rest.starts_with("mutWrite<") {
                return true;
            }
        }
        i += 1;
    }
    false
}

impl Table {
    pub fn to_lean(&self, header: &str) -> String {
        let mut s = String::new();
        s.push_str(header);
        s.push_str("import GcArena.Model.WriteCap\nnamespace GcArena.Generated\nopen GcArena.WriteCap\n\n");
        s.push_str("def derefWriteTable : Table := {\n  ctors := [\n");
        let v: Vec<String> = self
            .ctors
            .iter()
            .map(|c| {
                format!(
                    "    {{ name := {}, kind := .{}, isUnsafe := {}, staticBound := {}, barrier := {} }}",
                    lean_str(&c.name),
                    c.kind,
                    lean_bool(c.is_unsafe),
                    lean_bool(c.static_bound),
                    lean_bool(c.barrier)
                )
            })
            .collect();
        s.push_str(&v.join(",\n"));
        s.push_str("\n  ],\n  projs := [\n");
        let v: Vec<String> = self
            .projs
            .iter()
            .map(|p| {
                format!(
                    "    {}{{ kind := .{}, recv := {}, text := {}, targetStatic := {}, idx := {}, gate := {} }}",
                    if p.idx_facts.is_empty() { String::new() } else { format!("-- {}\n    ", p.idx_facts.replace('\n', " ")) },
                    p.kind,
                    p.recv,
                    lean_str(&p.text),
                    lean_bool(p.target_static),
                    p.idx,
                    lean_str(&p.gate)
                )
            })
            .collect();
        s.push_str(&v.join(",\n"));
        s.push_str("\n  ],\n  unlocks := [\n");
        let v: Vec<String> = self
            .unlocks
            .iter()
            .map(|u| format!("    {{ ty := {}, inPlace := {}, isUnsafeFn := {} }}", lean_str(&u.ty), lean_bool(u.in_place), lean_bool(u.is_unsafe_fn)))
            .collect();
        s.push_str(&v.join(",\n"));
        s.push_str("\n  ],\n  cells := [\n");
        let v: Vec<String> = self
            .cells
            .iter()
            .map(|u| {
                format!(
                    "    {{ ty := {}, contentStatic := {}, needsTraceFalse := {} }}",
                    lean_str(&u.ty),
                    lean_bool(u.content_static),
                    lean_bool(u.needs_trace_false)
                )
            })
            .collect();
        s.push_str(&v.join(",\n"));
        s.push_str("\n  ],\n  lockFns := [\n");
        let v: Vec<String> = self
            .lock_fns
            .iter()
            .map(|f| {
                format!(
                    "    {{ name := {}, recv := .{}, isUnsafe := {}, touchesCell := {}, barrier := {}, defaultTake := {} }}",
                    lean_str(&f.name),
                    f.recv,
                    lean_bool(f.is_unsafe),
                    lean_bool(f.touches_cell),
                    lean_bool(f.barrier),
                    lean_bool(f.default_take)
                )
            })
            .collect();
        s.push_str(&v.join(",\n"));
        s.push_str("\n  ],\n  rawSites := [\n");
        let v: Vec<String> = self
            .raw_sites
            .iter()
            .map(|r| {
                format!(
                    "    {{ name := {}, isUnsafe := {}, viaWrite := {}, barrier := {} }}",
                    lean_str(&r.name),
                    lean_bool(r.is_unsafe),
                    lean_bool(r.via_write),
                    lean_bool(r.barrier)
                )
            })
            .collect();
        s.push_str(&v.join(",\n"));
        s.push_str(&format!(
            "\n  ],\n  fieldMacro := {},\n  writeNonExhaustive := {},\n  markerTraitsUnsafe := {},\n  unclassified := {}\n}}\n\nend GcArena.Generated\n",
            self.field_macro,
            lean_bool(self.write_non_exhaustive),
            lean_bool(self.marker_traits_unsafe),
            lean_list(&self.unclassified.iter().map(|x| lean_str(x)).collect::<Vec<_>>())
        ));
        s
    }

    pub fn to_json(&self) -> String {
        let mut s = String::from("{");
        s.push_str("\"ctors\":[");
        s.push_str(
            &self
                .ctors
                .iter()
                .map(|c| {
                    format!(
                        "{{\"name\":{},\"kind\":{},\"is_unsafe\":{},\"static_bound\":{},\"barrier\":{}}}",
                        json_str(&c.name),
                        json_str(c.kind),
                        c.is_unsafe,
                        c.static_bound,
                        c.barrier
                    )
                })
                .collect::<Vec<_>>()
                .join(","),
        );
        s.push_str("],\"projs\":[");
        s.push_str(
            &self
                .projs
                .iter()
                .map(|p| {
                    format!(
                        "{{\"kind\":{},\"recv\":{},\"text\":{},\"target_static\":{},\"gate\":{},\"idx\":{},\"idx_ty\":{},\"idx_facts\":{}}}",
                        json_str(p.kind),
                        json_str(&p.recv_key),
                        json_str(&p.text),
                        p.target_static,
                        json_str(&p.gate),
                        json_str(&p.idx_key),
                        json_str(&p.idx_ty),
                        json_str(&p.idx_facts)
                    )
                })
                .collect::<Vec<_>>()
                .join(","),
        );
        s.push_str("],\"unlocks\":[");
        s.push_str(
            &self
                .unlocks
                .iter()
                .map(|u| format!("{{\"ty\":{},\"in_place\":{},\"is_unsafe_fn\":{}}}", json_str(&u.ty), u.in_place, u.is_unsafe_fn))
                .collect::<Vec<_>>()
                .join(","),
        );
        s.push_str("],\"cells\":[");
        s.push_str(
            &self
                .cells
                .iter()
                .map(|u| {
                    format!(
                        "{{\"ty\":{},\"content_static\":{},\"needs_trace_false\":{}}}",
                        json_str(&u.ty),
                        u.content_static,
                        u.needs_trace_false
                    )
                })
                .collect::<Vec<_>>()
                .join(","),
        );
        s.push_str("],\"lock_fns\":[");
        s.push_str(
            &self
                .lock_fns
                .iter()
                .map(|f| {
                    format!(
                        "{{\"name\":{},\"recv\":{},\"is_unsafe\":{},\"touches_cell\":{},\"barrier\":{},\"default_take\":{}}}",
                        json_str(&f.name),
                        json_str(f.recv),
                        f.is_unsafe,
                        f.touches_cell,
                        f.barrier,
                        f.default_take
                    )
                })
                .collect::<Vec<_>>()
                .join(","),
        );
        s.push_str("],\"raw_sites\":[");
        s.push_str(
            &self
                .raw_sites
                .iter()
                .map(|r| {
                    format!(
                        "{{\"name\":{},\"is_unsafe\":{},\"via_write\":{},\"barrier\":{}}}",
                        json_str(&r.name),
                        r.is_unsafe,
                        r.via_write,
                        r.barrier
                    )
                })
                .collect::<Vec<_>>()
                .join(","),
        );
        s.push_str(&format!(
            "],\"field_macro\":{},\"write_non_exhaustive\":{},\"marker_traits_unsafe\":{},\"unclassified\":[{}]}}",
            json_str(&self.field_macro),
            self.write_non_exhaustive,
            self.marker_traits_unsafe,
            self.unclassified.iter().map(|x| json_str(x)).collect::<Vec<_>>().join(",")
        ));
        s
    }
}
