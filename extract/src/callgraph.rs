//! CallGraph: intra-crate call graph by name resolution (an over-approximation), implicit `Drop`
//! edges, receivers, the primitive destructive calls, and all `static` items.
use crate::common::*;
use crate::raw::Raw;
use std::collections::{BTreeMap, BTreeSet};
use syn::visit::{self, Visit};
use syn::*;

#[derive(Clone, Default)]
pub struct FnNode {
    pub name: String,
    pub self_head: String,
    pub trait_name: String,
    pub fn_name: String,
    pub module: Vec<String>,
    pub has_self: bool,
    pub recv: &'static str, // none | ref | refMut | value
    pub client_callable: bool,
    pub is_unsafe: bool,
    pub is_drop_impl: bool,
    pub is_trait_method: bool,
    pub ret_owned: Vec<String>,   // crate type names mentioned by value in the return type
    pub sig_owned: Vec<String>,   // … in by-value parameters (incl. `self`)
    pub lit_owned: Vec<String>,   // struct literals / tuple-struct constructor calls in the body
    pub ext_calls: Vec<String>,   // resolved external paths called
    pub method_calls: Vec<String>, // method names called
    pub parent: Option<usize>,
    pub scope: Vec<String>,       // generic type parameters in scope
    pub params: Vec<String>,      // names of the non-receiver parameters (ident patterns; "" otherwise)
}

pub struct StaticItem {
    pub name: String,
    pub module: String,
    pub mutable: bool,
    pub ty: String,
    pub tracing_callsite: bool,
}

pub struct Graph {
    pub fns: Vec<FnNode>,
    pub edges: Vec<(usize, usize)>,
    pub prim_destructive: Vec<usize>,
    pub raw_statics: Vec<String>,
    pub raw_files_scanned: usize,
    pub raw_items_scanned: usize,
    pub exp_statics: Vec<StaticItem>,
    pub makes_arena: Vec<usize>,
    pub tags: Vec<&'static str>,
    pub callback_cert: Vec<usize>,
    pub collector_cert: Vec<usize>,
    pub fresh_roots: Vec<usize>,
    pub fresh_external: Vec<String>,
    pub fresh_methods: Vec<String>,
    pub fresh_fns: Vec<usize>,
    pub marked_arena_field: String,
    pub constructs_marked_arena: Vec<usize>,
    pub unclassified: Vec<String>,
}

const PRIM_DESTRUCTIVE: &[&str] = &[
    "core::ptr::drop_in_place",
    "std::ptr::drop_in_place",
    "alloc::alloc::dealloc",
    "std::alloc::dealloc",
    "core::mem::ManuallyDrop::drop",
    "std::mem::ManuallyDrop::drop",
    "core::mem::drop",
    "std::mem::drop",
    "core::prelude::drop",
    "alloc::boxed::Box::from_raw",
    "alloc::alloc::realloc",
];

/// Crate type names mentioned *by value* in a type (not under `&`, raw pointers, `PhantomData`,
/// `NonNull`, `Weak`, fn types).
fn owned_types(t: &Type, out: &mut Vec<String>) {
    match t {
        Type::Paren(p) => owned_types(&p.elem, out),
        Type::Group(p) => owned_types(&p.elem, out),
        Type::Array(a) => owned_types(&a.elem, out),
        Type::Slice(a) => owned_types(&a.elem, out),
        Type::Tuple(tu) => {
            for e in &tu.elems {
                owned_types(e, out);
            }
        }
        Type::Path(tp) => {
            if let Some(q) = &tp.qself {
                owned_types(&q.ty, out);
            }
            let name = last_seg(&tp.path);
            if ["PhantomData", "NonNull", "Weak"].contains(&name.as_str()) {
                return;
            }
            out.push(name);
            for seg in &tp.path.segments {
                if let PathArguments::AngleBracketed(a) = &seg.arguments {
                    for ga in &a.args {
                        if let GenericArgument::Type(t) = ga {
                            owned_types(t, out);
                        }
                    }
                }
            }
        }
        _ => {}
    }
}

struct Builder<'a> {
    c: &'a Crate,
    fns: Vec<FnNode>,
    bodies: Vec<Option<Block>>,
    by_name: BTreeMap<String, Vec<usize>>,
    indirect: BTreeMap<String, usize>,
}

impl<'a> Builder<'a> {
    fn add(&mut self, n: FnNode, body: Option<Block>) -> usize {
        let id = self.fns.len();
        self.by_name.entry(n.fn_name.clone()).or_default().push(id);
        self.fns.push(n);
        self.bodies.push(body);
        id
    }
    fn indirect_node(&mut self, field: &str) -> usize {
        if let Some(i) = self.indirect.get(field) {
            return *i;
        }
        let id = self.add(
            FnNode {
                name: format!("indirect:{field}"),
                fn_name: format!("indirect:{field}"),
                recv: "none",
                ..Default::default()
            },
            None,
        );
        self.indirect.insert(field.to_string(), id);
        id
    }
}

fn param_names(sig: &Signature) -> Vec<String> {
    sig.inputs
        .iter()
        .filter_map(|a| match a {
            FnArg::Typed(t) => Some(match &*t.pat {
                Pat::Ident(i) => i.ident.to_string(),
                _ => String::new(),
            }),
            FnArg::Receiver(_) => None,
        })
        .collect()
}

/// Where a function *value* (a path naming a crate fn, not in call position) goes.
#[derive(Clone, Debug)]
enum Sink {
    /// initialiser of struct-literal field `f`: a later `(x.f)(..)` may call it
    Field(String),
    /// argument `k` of a call of one of `callees`: followed into the callee's parameter
    Arg { callees: Vec<usize>, k: usize },
    /// anything else: may be called by any indirect call
    Other,
}

fn strip_expr(mut e: &Expr) -> &Expr {
    loop {
        match e {
            Expr::Paren(p) => e = &p.expr,
            Expr::Group(p) => e = &p.expr,
            Expr::Cast(c) => e = &c.expr,
            _ => return e,
        }
    }
}

fn recv_of(sig: &Signature) -> (&'static str, bool) {
    match sig.inputs.first() {
        Some(FnArg::Receiver(r)) => {
            if r.colon_token.is_some() {
                // self: Gc<..> etc. – by value of some handle
                return ("value", true);
            }
            if r.reference.is_some() {
                if r.mutability.is_some() {
                    ("refMut", true)
                } else {
                    ("ref", true)
                }
            } else {
                ("value", true)
            }
        }
        _ => ("none", false),
    }
}

fn sig_owned(sig: &Signature, self_head: &str) -> (Vec<String>, Vec<String>) {
    let mut ins = vec![];
    for a in &sig.inputs {
        match a {
            FnArg::Receiver(r) => {
                if r.reference.is_none() && r.colon_token.is_none() && !self_head.is_empty() {
                    ins.push(self_head.to_string());
                }
                if r.colon_token.is_some() {
                    owned_types(&r.ty, &mut ins);
                }
            }
            FnArg::Typed(pt) => owned_types(&pt.ty, &mut ins),
        }
    }
    let mut ret = vec![];
    if let ReturnType::Type(_, t) = &sig.output {
        owned_types(t, &mut ret);
    }
    let fix = |v: Vec<String>| -> Vec<String> { v.into_iter().map(|x| if x == "Self" { self_head.to_string() } else { x }).collect() };
    (fix(ins), fix(ret))
}

/// Visitor over one function body (does not descend into nested items).
struct BodyV<'b, 'a> {
    b: &'b mut Builder<'a>,
    cur: usize,
    edges: &'b mut Vec<(usize, usize)>,
    path_edges: &'b mut Vec<(usize, usize)>,
    in_path_call: bool,
    prim: &'b mut BTreeSet<usize>,
    unresolved: &'b mut Vec<String>,
    /// function values met: (function, targets, where the value goes)
    fn_values: &'b mut Vec<(usize, Vec<usize>, Sink)>,
    /// (function, parameter index, field): the parameter initialises struct-literal field `field`
    param_field: &'b mut Vec<(usize, usize, String)>,
    /// (function, parameter index j, callees, k): parameter j is passed on as argument k
    param_flow: &'b mut Vec<(usize, usize, Vec<usize>, usize)>,
    capture: Option<Vec<usize>>,
}

impl<'b, 'a> BodyV<'b, 'a> {
    fn edge(&mut self, to: usize) {
        if let Some(c) = &mut self.capture {
            c.push(to);
            return;
        }
        self.edges.push((self.cur, to));
        if self.in_path_call {
            self.path_edges.push((self.cur, to));
        }
    }
    fn nodes_named(&self, f: &str) -> Vec<usize> {
        self.b.by_name.get(f).cloned().unwrap_or_default()
    }
    /// Index of the current function's parameter named by a single-identifier path.
    fn param_index(&self, e: &Expr) -> Option<usize> {
        match strip_expr(e) {
            Expr::Path(p) if p.qself.is_none() && p.path.segments.len() == 1 => {
                let id = p.path.segments[0].ident.to_string();
                self.b.fns[self.cur].params.iter().position(|x| *x == id)
            }
            _ => None,
        }
    }
    /// The crate functions a path in value position may denote (empty for variables, constants, …).
    fn value_targets(&mut self, e: &Expr) -> Vec<usize> {
        match strip_expr(e) {
            Expr::Path(p) => {
                let saved = self.capture.take();
                self.capture = Some(vec![]);
                self.resolve_call_path(&p.path, p.qself.is_some());
                let mut t = self.capture.take().unwrap_or_default();
                self.capture = saved;
                t.retain(|n| !self.b.fns[*n].name.starts_with("indirect:"));
                t.sort();
                t.dedup();
                t
            }
            _ => vec![],
        }
    }
    fn resolve_call_path(&mut self, p: &Path, qself: bool) {
        let segs = path_segs(p);
        let f = segs.last().cloned().unwrap_or_default();
        let cur = self.b.fns[self.cur].clone();
        if qself {
            for n in self.nodes_named(&f) {
                if self.b.fns[n].is_trait_method {
                    self.edge(n);
                }
            }
            return;
        }
        if segs.len() == 1 {
            // nested fn of the current function (or of its ancestors), free fn, tuple-struct constructor
            let mut found = false;
            for n in self.nodes_named(&f) {
                let nd = &self.b.fns[n];
                let is_nested_here = {
                    let mut anc = Some(self.cur);
                    let mut ok = false;
                    while let Some(a) = anc {
                        if nd.parent == Some(a) {
                            ok = true;
                            break;
                        }
                        anc = self.b.fns[a].parent;
                    }
                    ok
                };
                if is_nested_here || (nd.self_head.is_empty() && nd.parent.is_none() && !nd.name.starts_with("indirect:")) {
                    self.edge(n);
                    found = true;
                }
            }
            if !found {
                if f == "Self" {
                    let h = cur.self_head.clone();
                    self.b.fns[self.cur].lit_owned.push(h);
                } else if ["Some", "None", "Ok", "Err"].contains(&f.as_str()) {
                } else if self.b.c.defs.get(&f).map(|v| v.iter().any(|(_, k)| *k == "struct")).unwrap_or(false) {
                    self.b.fns[self.cur].lit_owned.push(f.clone());
                } else {
                    let r = self.b.c.resolve(&cur.module, &segs, p.leading_colon.is_some()).join("::");
                    if !r.starts_with('?') && !r.starts_with("crate") {
                        self.ext(&r);
                    }
                }
            }
            return;
        }
        let head = &segs[0];
        let prefix = &segs[..segs.len() - 1];
        let ty = prefix.last().unwrap().clone();
        if head == "Self" && prefix.len() == 1 {
            let mut found = false;
            for n in self.nodes_named(&f) {
                if self.b.fns[n].self_head == cur.self_head {
                    self.edge(n);
                    found = true;
                }
            }
            if !found {
                // associated fn provided by a trait
                for n in self.nodes_named(&f) {
                    if self.b.fns[n].is_trait_method {
                        self.edge(n);
                    }
                }
            }
            return;
        }
        if cur.scope.contains(head) {
            // generic parameter: trait dispatch, any impl
            for n in self.nodes_named(&f) {
                if self.b.fns[n].is_trait_method {
                    self.edge(n);
                }
            }
            return;
        }
        let r = self.b.c.resolve(&cur.module, prefix, p.leading_colon.is_some());
        let rj = r.join("::");
        if r[0] == "crate" || r[0] == "Self" {
            let kind = self.b.c.defs.get(&ty).map(|v| v.iter().map(|(_, k)| *k).collect::<Vec<_>>()).unwrap_or_default();
            let mut found = false;
            for n in self.nodes_named(&f) {
                let nd = &self.b.fns[n];
                let hit = nd.self_head == ty
                    || nd.trait_name == ty
                    || (kind.contains(&"mod") && nd.self_head.is_empty() && nd.module.last().map(|m| *m == ty).unwrap_or(false))
                    || (kind.contains(&"type")); // alias: any impl (e.g. GcSlice::new_slice)
                if hit {
                    self.edge(n);
                    found = true;
                }
            }
            if !found && !self.nodes_named(&f).is_empty() && !kind.contains(&"enum") {
                // e.g. a method reached through Deref / a trait: fall back to the name
                for n in self.nodes_named(&f) {
                    self.edge(n);
                }
            }
            return;
        }
        if r[0] == "?" {
            // unknown prefix: fall back to every crate fn of that name
            let ns = self.nodes_named(&f);
            if !ns.is_empty() {
                self.unresolved.push(format!("{} in {}", segs.join("::"), cur.name));
            }
            for n in ns {
                self.edge(n);
            }
            return;
        }
        // external
        let full = format!("{rj}::{f}");
        self.ext(&full);
    }
    fn ext(&mut self, full: &str) {
        let full = full.trim_start_matches("::").to_string();
        if PRIM_DESTRUCTIVE.contains(&full.as_str()) {
            self.prim.insert(self.cur);
        }
        let v = &mut self.b.fns[self.cur].ext_calls;
        if !v.contains(&full) {
            v.push(full);
        }
    }
}

impl<'ast, 'b, 'a> Visit<'ast> for BodyV<'b, 'a> {
    fn visit_item(&mut self, _: &'ast Item) {}
    fn visit_macro(&mut self, m: &'ast Macro) {
        // the expanded crate should contain no macro calls except the compiler built-ins below;
        // anything else could hide calls from the graph: fail closed
        let n = last_seg(&m.path);
        if !["format_args", "const_format_args", "stringify", "concat", "line", "file", "column", "cfg", "module_path"].contains(&n.as_str()) {
            let cur = self.b.fns[self.cur].name.clone();
            self.unresolved.push(format!("macro: unexpanded macro `{n}!` in {cur}"));
        }
    }
    fn visit_expr_method_call(&mut self, m: &'ast ExprMethodCall) {
        let name = m.method.to_string();
        if !self.b.fns[self.cur].method_calls.contains(&name) {
            self.b.fns[self.cur].method_calls.push(name.clone());
        }
        let cur_head = self.b.fns[self.cur].self_head.clone();
        let on_self = toks(&*m.receiver) == "self" && !cur_head.is_empty();
        let cands: Vec<usize> = self.nodes_named(&name).into_iter().filter(|n| self.b.fns[*n].has_self).collect();
        let own: Vec<usize> = cands.iter().copied().filter(|n| self.b.fns[*n].self_head == cur_head).collect();
        if on_self && !own.is_empty() {
            for n in own {
                self.edge(n);
            }
        } else {
            for n in cands {
                self.edge(n);
            }
        }
        if name == "drop_in_place" || name == "dealloc" {
            // raw-pointer / allocator methods of the same name
            if self.nodes_named(&name).is_empty() {
                self.prim.insert(self.cur);
            }
        }
        visit::visit_expr_method_call(self, m);
    }
    fn visit_expr_call(&mut self, c: &'ast ExprCall) {
        let f: &Expr = strip_expr(&c.func);
        match f {
            Expr::Path(p) => {
                // callees (captured, then added as ordinary path edges)
                let saved = self.capture.take();
                self.capture = Some(vec![]);
                self.resolve_call_path(&p.path, p.qself.is_some());
                let mut callees = self.capture.take().unwrap_or_default();
                self.capture = saved;
                callees.sort();
                callees.dedup();
                self.in_path_call = true;
                for n in &callees {
                    self.edge(*n);
                }
                self.in_path_call = false;
                for (k, a) in c.args.iter().enumerate() {
                    if matches!(strip_expr(a), Expr::Path(_)) {
                        if let Some(j) = self.param_index(a) {
                            self.param_flow.push((self.cur, j, callees.clone(), k));
                            continue;
                        }
                        let t = self.value_targets(a);
                        if !t.is_empty() {
                            self.fn_values.push((self.cur, t, Sink::Arg { callees: callees.clone(), k }));
                        }
                    } else {
                        self.visit_expr(a);
                    }
                }
                return;
            }
            Expr::Field(fe) => {
                let field = toks(&fe.member);
                let n = self.b.indirect_node(&field);
                self.edge(n);
            }
            _ => {}
        }
        visit::visit_expr_call(self, c);
    }
    /// A path in any other value position (`iter.map(Self::f)`, `let g = helper;`): if it names a
    /// crate fn it may be called here, or later through any indirect call.
    fn visit_expr_path(&mut self, p: &'ast ExprPath) {
        if p.qself.is_none() && p.path.segments.len() == 1 {
            let id = p.path.segments[0].ident.to_string();
            // a local binding / parameter / `self`: not a function item (locals shadow items)
            if id == "self" || id == "Self" || self.b.fns[self.cur].params.contains(&id) || !self.b.c.defs.get(&id).map(|v| v.iter().any(|(_, k)| *k == "fn")).unwrap_or(false) {
                return;
            }
        }
        let e = Expr::Path(p.clone());
        let t = self.value_targets(&e);
        if !t.is_empty() {
            self.fn_values.push((self.cur, t, Sink::Other));
        }
    }
    fn visit_expr_struct(&mut self, s: &'ast ExprStruct) {
        let name = last_seg(&s.path);
        let name = if name == "Self" { self.b.fns[self.cur].self_head.clone() } else { name };
        self.b.fns[self.cur].lit_owned.push(name);
        for fv in &s.fields {
            if let Expr::Closure(cl) = &fv.expr {
                let field = toks(&fv.member);
                let n = self.b.indirect_node(&field);
                // the closure body runs under the indirect node
                let module = self.b.fns[self.cur].module.clone();
                let scope = self.b.fns[self.cur].scope.clone();
                let head = self.b.fns[self.cur].self_head.clone();
                self.b.fns[n].module = module;
                self.b.fns[n].scope = scope;
                self.b.fns[n].self_head = head;
                let saved = self.cur;
                self.cur = n;
                self.visit_expr(&cl.body);
                self.cur = saved;
                self.b.fns[n].self_head = String::new();
            } else if matches!(strip_expr(&fv.expr), Expr::Path(_)) {
                let field = toks(&fv.member);
                if let Some(j) = self.param_index(&fv.expr) {
                    self.param_field.push((self.cur, j, field));
                } else {
                    let t = self.value_targets(&fv.expr);
                    if !t.is_empty() {
                        self.fn_values.push((self.cur, t, Sink::Field(field)));
                    }
                }
            } else {
                self.visit_expr(&fv.expr);
            }
        }
        if let Some(r) = &s.rest {
            self.visit_expr(r);
        }
    }
}

/// Collect nested `fn` items of a block (direct children, recursively registered by the caller).
struct NestedFns<'x> {
    out: &'x mut Vec<ItemFn>,
}
impl<'ast, 'x> Visit<'ast> for NestedFns<'x> {
    fn visit_item_fn(&mut self, f: &'ast ItemFn) {
        self.out.push(f.clone());
    }
    fn visit_item_impl(&mut self, _: &'ast ItemImpl) {}
    fn visit_item_mod(&mut self, _: &'ast ItemMod) {}
}

pub fn extract(c: &Crate, items: &Items, raw: &Raw) -> Graph {
    let mut b = Builder { c, fns: vec![], bodies: vec![], by_name: BTreeMap::new(), indirect: BTreeMap::new() };
    let mut unclassified = vec![];
    // visibility of crate types
    let mut pub_types: BTreeSet<String> = BTreeSet::new();
    for (_, s) in &items.structs {
        if matches!(s.vis, Visibility::Public(_)) {
            pub_types.insert(s.ident.to_string());
        }
    }
    for (_, s) in &items.enums {
        if matches!(s.vis, Visibility::Public(_)) {
            pub_types.insert(s.ident.to_string());
        }
    }
    let mut alias_names: BTreeSet<String> = BTreeSet::new();
    for (_, a) in &items.aliases {
        alias_names.insert(a.ident.to_string());
    }
    // nested fns are also reported by collect_items (visit descends into bodies); register only
    // top-level free fns here and nested ones when their parent is registered.
    fn register_nested(b: &mut Builder, parent: usize, block: &Block) {
        let mut nested = vec![];
        let mut v = NestedFns { out: &mut nested };
        v.visit_block(block);
        for f in nested {
            let p = b.fns[parent].clone();
            let (recv, has_self) = recv_of(&f.sig);
            let mut scope = p.scope.clone();
            scope.extend(type_params(&f.sig.generics));
            let (so, ro) = sig_owned(&f.sig, "");
            let id = b.add(
                FnNode {
                    name: format!("{}::{}", p.name, f.sig.ident),
                    fn_name: f.sig.ident.to_string(),
                    module: p.module.clone(),
                    has_self,
                    recv,
                    is_unsafe: f.sig.unsafety.is_some(),
                    params: param_names(&f.sig),
                    parent: Some(parent),
                    scope,
                    sig_owned: so,
                    ret_owned: ro,
                    ..Default::default()
                },
                Some((*f.block).clone()),
            );
            register_nested(b, id, &f.block);
        }
    }
    // impls (including those nested in function bodies / const blocks)
    let mut impl_nodes: Vec<usize> = vec![];
    for (module, i) in &items.impls {
        let self_head = match &*i.self_ty {
            Type::Path(tp) => last_seg(&tp.path),
            other => pretty(&toks(other)),
        };
        let trait_name = i.trait_.as_ref().map(|t| last_seg(&t.1)).unwrap_or_default();
        let type_pub = pub_types.contains(&self_head) || alias_names.contains(&self_head) || !matches!(&*i.self_ty, Type::Path(_));
        for it in &i.items {
            let ImplItem::Fn(f) = it else { continue };
            let (recv, has_self) = recv_of(&f.sig);
            let mut scope = type_params(&i.generics);
            scope.extend(type_params(&f.sig.generics));
            let (so, ro) = sig_owned(&f.sig, &self_head);
            let name = if trait_name.is_empty() {
                format!("{self_head}::{}", f.sig.ident)
            } else {
                format!("<{self_head} as {trait_name}>::{}", f.sig.ident)
            };
            let client = type_pub && (!trait_name.is_empty() || matches!(f.vis, Visibility::Public(_)));
            let id = b.add(
                FnNode {
                    name,
                    self_head: self_head.clone(),
                    trait_name: trait_name.clone(),
                    fn_name: f.sig.ident.to_string(),
                    module: module.clone(),
                    has_self,
                    recv,
                    client_callable: client,
                    is_unsafe: f.sig.unsafety.is_some(),
                    params: param_names(&f.sig),
                    is_drop_impl: trait_name == "Drop" && f.sig.ident == "drop",
                    is_trait_method: !trait_name.is_empty(),
                    ret_owned: ro,
                    sig_owned: so,
                    scope,
                    ..Default::default()
                },
                Some(f.block.clone()),
            );
            impl_nodes.push(id);
        }
    }
    // trait default methods
    for (module, tr) in &items.traits {
        for it in &tr.items {
            if let TraitItem::Fn(f) = it {
                let (recv, has_self) = recv_of(&f.sig);
                let mut scope = type_params(&tr.generics);
                scope.extend(type_params(&f.sig.generics));
                scope.push("Self".into());
                b.add(
                    FnNode {
                        name: format!("trait {}::{}", tr.ident, f.sig.ident),
                        trait_name: tr.ident.to_string(),
                        fn_name: f.sig.ident.to_string(),
                        module: module.clone(),
                        has_self,
                        recv,
                        client_callable: matches!(tr.vis, Visibility::Public(_)),
                        is_unsafe: f.sig.unsafety.is_some(),
                    params: param_names(&f.sig),
                        is_trait_method: true,
                        scope,
                        ..Default::default()
                    },
                    f.default.clone(),
                );
            }
        }
    }
    let mut free_nodes = vec![];
    for (k, (module, f)) in items.fns.iter().enumerate() {
        if items.fn_nested[k] {
            continue;
        }
        let (recv, has_self) = recv_of(&f.sig);
        let (so, ro) = sig_owned(&f.sig, "");
        let id = b.add(
            FnNode {
                name: format!("fn {}{}", if module.is_empty() { String::new() } else { format!("{}::", module.join("::")) }, f.sig.ident),
                fn_name: f.sig.ident.to_string(),
                module: module.clone(),
                has_self,
                recv,
                client_callable: matches!(f.vis, Visibility::Public(_)),
                is_unsafe: f.sig.unsafety.is_some(),
                    params: param_names(&f.sig),
                scope: type_params(&f.sig.generics),
                ret_owned: ro,
                sig_owned: so,
                ..Default::default()
            },
            Some((*f.block).clone()),
        );
        free_nodes.push(id);
    }
    // nested fns
    let upto = b.fns.len();
    for id in 0..upto {
        if let Some(body) = b.bodies[id].clone() {
            register_nested(&mut b, id, &body);
        }
    }
    // associated consts with closures (vtables): analyse their initialisers under a const node
    let mut const_inits: Vec<(usize, Expr)> = vec![];
    for (module, i) in &items.impls {
        let self_head = type_path(&i.self_ty).map(last_seg).unwrap_or_default();
        for it in &i.items {
            if let ImplItem::Const(k) = it {
                if !toks(&k.expr).contains('(') {
                    continue; // a literal / path / boolean expression: nothing can be called
                }
                let id = b.add(
                    FnNode {
                        name: format!("const {self_head}::{}", k.ident),
                        fn_name: format!("const:{}", k.ident),
                        self_head: self_head.clone(),
                        module: module.clone(),
                        recv: "none",
                        scope: type_params(&i.generics),
                        ..Default::default()
                    },
                    None,
                );
                const_inits.push((id, k.expr.clone()));
            }
        }
    }
    // edges
    let mut edges: Vec<(usize, usize)> = vec![];
    let mut path_edges: Vec<(usize, usize)> = vec![];
    let mut prim: BTreeSet<usize> = BTreeSet::new();
    let mut unresolved = vec![];
    let n0 = b.fns.len();
    let mut fn_values: Vec<(usize, Vec<usize>, Sink)> = vec![];
    let mut param_field: Vec<(usize, usize, String)> = vec![];
    let mut param_flow: Vec<(usize, usize, Vec<usize>, usize)> = vec![];
    for id in 0..n0 {
        if let Some(body) = b.bodies[id].clone() {
            let mut v = BodyV { b: &mut b, cur: id, edges: &mut edges, path_edges: &mut path_edges, in_path_call: false, prim: &mut prim, unresolved: &mut unresolved,
                                fn_values: &mut fn_values, param_field: &mut param_field, param_flow: &mut param_flow, capture: None };
            v.visit_block(&body);
        }
    }
    for (id, e) in &const_inits {
        let mut v = BodyV { b: &mut b, cur: *id, edges: &mut edges, path_edges: &mut path_edges, in_path_call: false, prim: &mut prim, unresolved: &mut unresolved,
                            fn_values: &mut fn_values, param_field: &mut param_field, param_flow: &mut param_flow, capture: None };
        v.visit_expr(e);
    }
    // Function values.  A crate fn named in value position is a possible target of the indirect call
    // through field `f` when it initialises `f` in a struct literal — directly, or as an argument that
    // a constructor function stores into `f` (followed through parameters to a fixpoint).  A value
    // whose destination is not understood may be called where it is mentioned and by *every* indirect call.
    {
        let mut pf: BTreeMap<(usize, usize), BTreeSet<String>> = BTreeMap::new();
        for (f, k, field) in &param_field {
            pf.entry((*f, *k)).or_default().insert(field.clone());
        }
        loop {
            let mut changed = false;
            for (cur, j, callees, k) in &param_flow {
                let mut add: BTreeSet<String> = BTreeSet::new();
                for c in callees {
                    if let Some(s) = pf.get(&(*c, *k)) {
                        add.extend(s.iter().cloned());
                    }
                }
                let e = pf.entry((*cur, *j)).or_default();
                for a in add {
                    changed |= e.insert(a);
                }
            }
            if !changed {
                break;
            }
        }
        let mut field_targets: BTreeMap<String, BTreeSet<usize>> = BTreeMap::new();
        let mut loose: BTreeSet<usize> = BTreeSet::new();
        for (cur, targets, sink) in &fn_values {
            let fields: Vec<String> = match sink {
                Sink::Field(f) => vec![f.clone()],
                Sink::Arg { callees, k } => {
                    let mut v: BTreeSet<String> = BTreeSet::new();
                    for c in callees {
                        if let Some(s) = pf.get(&(*c, *k)) {
                            v.extend(s.iter().cloned());
                        }
                    }
                    v.into_iter().collect()
                }
                Sink::Other => vec![],
            };
            if fields.is_empty() {
                for t in targets {
                    edges.push((*cur, *t));
                    loose.insert(*t);
                }
            } else {
                for f in fields {
                    field_targets.entry(f).or_default().extend(targets.iter().copied());
                }
            }
        }
        for (f, ts) in &field_targets {
            let n = b.indirect_node(f);
            for t in ts {
                edges.push((n, *t));
            }
        }
        let indirect: Vec<usize> = b.indirect.values().copied().collect();
        for n in indirect {
            for t in &loose {
                edges.push((n, *t));
            }
        }
    }
    // implicit Drop edges
    let mut drop_of: BTreeMap<String, usize> = BTreeMap::new();
    for (i, f) in b.fns.iter().enumerate() {
        if f.is_drop_impl {
            drop_of.insert(f.self_head.clone(), i);
        }
    }
    // contains*: crate type -> drop types contained by value
    let mut fields_of: BTreeMap<String, Vec<String>> = BTreeMap::new();
    for (_, s) in &items.structs {
        let mut v = vec![];
        for f in &s.fields {
            owned_types(&f.ty, &mut v);
        }
        fields_of.entry(s.ident.to_string()).or_default().extend(v);
    }
    for (_, s) in &items.enums {
        let mut v = vec![];
        for var in &s.variants {
            for f in &var.fields {
                owned_types(&f.ty, &mut v);
            }
        }
        fields_of.entry(s.ident.to_string()).or_default().extend(v);
    }
    let contains_star = |t: &str| -> BTreeSet<String> {
        let mut seen = BTreeSet::new();
        let mut stack = vec![t.to_string()];
        while let Some(x) = stack.pop() {
            if !seen.insert(x.clone()) {
                continue;
            }
            if let Some(fs) = fields_of.get(&x) {
                for f in fs {
                    stack.push(f.clone());
                }
            }
        }
        seen
    };
    let explicit = edges.clone();
    for id in 0..b.fns.len() {
        let mut owned: Vec<String> = vec![];
        owned.extend(b.fns[id].sig_owned.iter().cloned());
        owned.extend(b.fns[id].ret_owned.iter().cloned());
        owned.extend(b.fns[id].lit_owned.iter().cloned());
        for (a, g) in &explicit {
            if *a == id {
                owned.extend(b.fns[*g].ret_owned.iter().cloned());
            }
        }
        let mut drops = BTreeSet::new();
        for t in owned {
            for x in contains_star(&t) {
                if let Some(d) = drop_of.get(&x) {
                    drops.insert(*d);
                }
            }
        }
        for d in drops {
            if d != id {
                edges.push((id, d));
            }
        }
    }
    edges.sort();
    edges.dedup();
    // statics
    let mut raw_statics = vec![];
    for f in &raw.files {
        struct S<'x> {
            file: &'x str,
            out: &'x mut Vec<String>,
        }
        impl<'ast, 'x> Visit<'ast> for S<'x> {
            fn visit_item_static(&mut self, s: &'ast ItemStatic) {
                if !is_verif_gated(&s.attrs) {
                    self.out.push(format!("{}: static {}", self.file, s.ident));
                }
            }
            fn visit_item_mod(&mut self, m: &'ast ItemMod) {
                if !is_verif_gated(&m.attrs) {
                    visit::visit_item_mod(self, m);
                }
            }
            fn visit_item_impl(&mut self, m: &'ast ItemImpl) {
                if !is_verif_gated(&m.attrs) {
                    visit::visit_item_impl(self, m);
                }
            }
            fn visit_impl_item_fn(&mut self, m: &'ast ImplItemFn) {
                if !is_verif_gated(&m.attrs) {
                    visit::visit_impl_item_fn(self, m);
                }
            }
            fn visit_macro(&mut self, m: &'ast Macro) {
                let n = last_seg(&m.path);
                if ["thread_local", "lazy_static", "static_init", "once_cell"].contains(&n.as_str()) {
                    self.out.push(format!("{}: {}!", self.file, n));
                }
                // `static` inside macro arguments (e.g. in a macro_rules body or invocation)
                if !m.path.is_ident("macro_rules") {
                    let t = toks(&m.tokens);
                    if t.contains(" static ") && !t.contains("' static") || t.starts_with("static ") {
                        // crude; only flags a bare `static` keyword
                        if t.split_whitespace().zip(t.split_whitespace().skip(1)).any(|(a, b)| a == "static" && b != ">" && !a.starts_with('\'')) {
                            // filter out the lifetime `'static` (tokenised as "' static")
                            let toks_v: Vec<&str> = t.split_whitespace().collect();
                            for (k, w) in toks_v.iter().enumerate() {
                                if *w == "static" && (k == 0 || toks_v[k - 1] != "'") {
                                    self.out.push(format!("{}: `static` inside {}!", self.file, n));
                                    break;
                                }
                            }
                        }
                    }
                }
                visit::visit_macro(self, m);
            }
        }
        let mut v = S { file: &f.module, out: &mut raw_statics };
        v.visit_file(&f.ast);
    }
    let mut exp_statics = vec![];
    for (m, s) in &items.statics {
        let ty = pretty(&toks(&*s.ty));
        let mutable = !matches!(s.mutability, StaticMutability::None);
        exp_statics.push(StaticItem {
            name: s.ident.to_string(),
            module: m.join("::"),
            mutable,
            tracing_callsite: !mutable && ty.trim_start_matches("::").starts_with("tracing::"),
            ty,
        });
    }
    // fresh-state constructors
    // structural tags (no function name is pinned; the type names `Context`, `Metrics`, `Arena`,
    // `MarkedArena` are):
    //  * constructor of `Context` / `Metrics`: inherent fn of that type without receiver returning it;
    //  * collector driver: `&mut self` method of `Context` that an `Arena` / `MarkedArena` method calls
    //    and from which a primitive destructor / deallocator call is reachable.
    let mut tags: Vec<&'static str> = vec![".none"; b.fns.len()];
    let is_ctor = |f: &FnNode, ty: &str| f.self_head == ty && f.trait_name.is_empty() && f.recv == "none" && f.parent.is_none() && f.ret_owned.iter().any(|x| x == ty);
    let reaches_prim: BTreeSet<usize> = {
        let mut seen: BTreeSet<usize> = prim.iter().copied().collect();
        let mut stack: Vec<usize> = seen.iter().copied().collect();
        while let Some(x) = stack.pop() {
            for (a, g) in &edges {
                if *g == x && seen.insert(*a) {
                    stack.push(*a);
                }
            }
        }
        seen
    };
    let mut fresh_roots = vec![];
    for (i, f) in b.fns.iter().enumerate() {
        if is_ctor(f, "Context") {
            tags[i] = ".contextNew";
            fresh_roots.push(i);
        } else if is_ctor(f, "Metrics") {
            tags[i] = ".metricsNew";
            fresh_roots.push(i);
        } else if f.self_head == "Context"
            && f.recv == "refMut"
            && f.trait_name.is_empty()
            && reaches_prim.contains(&i)
            && edges.iter().any(|(a, g)| *g == i && ["Arena", "MarkedArena"].contains(&b.fns[*a].self_head.as_str()))
        {
            tags[i] = ".doCollection";
        }
    }
    if !tags.contains(&".contextNew") || !tags.contains(&".metricsNew") {
        unclassified.push("Context::new / Metrics::new not found".into());
    }
    let mut seen: BTreeSet<usize> = fresh_roots.iter().copied().collect();
    let mut stack: Vec<usize> = fresh_roots.clone();
    while let Some(x) = stack.pop() {
        for (a, g) in &path_edges {
            if *a == x && seen.insert(*g) {
                stack.push(*g);
            }
        }
    }
    let mut fresh_methods: Vec<String> = vec![];
    for i in &seen {
        for e in &b.fns[*i].method_calls {
            if !fresh_methods.contains(e) {
                fresh_methods.push(e.clone());
            }
        }
    }
    fresh_methods.sort();
    let fresh_fns: Vec<usize> = seen.iter().copied().collect();
    let mut fresh_external: Vec<String> = vec![];
    for i in &seen {
        for e in &b.fns[*i].ext_calls {
            if !fresh_external.contains(e) {
                fresh_external.push(e.clone());
            }
        }
    }
    fresh_external.sort();
    // MarkedArena
    let mut marked_arena_field = String::new();
    for (_, s) in &items.structs {
        if s.ident == "MarkedArena" {
            if let Some(f) = s.fields.iter().next() {
                // canonical form: lifetime / parameter names are free
                marked_arena_field = match &f.ty {
                    Type::Reference(r) if r.mutability.is_some() && type_path(&r.elem).map(last_seg).as_deref() == Some("Arena") => "&mut Arena".to_string(),
                    other => pretty(&toks(other)),
                };
            }
        }
    }
    let constructs_marked_arena: Vec<usize> =
        b.fns.iter().enumerate().filter(|(_, f)| f.lit_owned.iter().any(|x| x == "MarkedArena")).map(|(i, _)| i).collect();
    if !tags.contains(&".doCollection") {
        unclassified.push("no collector driver found (a `&mut self` method of `Context` called from an `Arena` method and reaching a destructor)".into());
    }
    for u in &unresolved {
        if let Some(m) = u.strip_prefix("macro: ") {
            unclassified.push(m.to_string());
        }
    }
    let _ = (free_nodes, impl_nodes);
    // Closure certificates (checked, not trusted, by the Lean side: `closedB`, roots ⊆ set).
    // The root rule mirrors `GcArena.CallGraphDefs.callbackRoots`.
    let ctx_new: Vec<usize> = (0..b.fns.len()).filter(|i| tags[*i] == ".contextNew").collect();
    let makes_arena: Vec<usize> = {
        let mut v: Vec<usize> = path_edges.iter().filter(|(_, g)| ctx_new.contains(g)).map(|(a, _)| *a).collect();
        v.sort();
        v.dedup();
        v
    };
    let excluded = |i: usize, f: &FnNode| -> bool {
        (f.self_head == "Arena" && (f.recv == "refMut" || f.recv == "value")) || f.self_head == "MarkedArena" || makes_arena.contains(&i)
    };
    let cut: BTreeSet<usize> =
        b.fns.iter().enumerate().filter(|(_, f)| f.is_drop_impl && f.self_head.ends_with("Builder")).map(|(i, _)| i).collect();
    let close = |roots: Vec<usize>, es: &Vec<(usize, usize)>| -> Vec<usize> {
        let mut succ: BTreeMap<usize, Vec<usize>> = BTreeMap::new();
        for (a, g) in es {
            succ.entry(*a).or_default().push(*g);
        }
        let mut seen: BTreeSet<usize> = roots.iter().copied().collect();
        let mut stack = roots;
        while let Some(x) = stack.pop() {
            if let Some(v) = succ.get(&x) {
                for g in v {
                    if seen.insert(*g) {
                        stack.push(*g);
                    }
                }
            }
        }
        seen.into_iter().collect()
    };
    let cb_roots: Vec<usize> = b.fns.iter().enumerate().filter(|(i, f)| f.client_callable && !excluded(*i, f)).map(|(i, _)| i).collect();
    let cb_edges: Vec<(usize, usize)> = edges.iter().copied().filter(|(a, _)| !cut.contains(a)).collect();
    let callback_cert = close(cb_roots, &cb_edges);
    let rev: Vec<(usize, usize)> = edges.iter().map(|(a, g)| (*g, *a)).collect();
    let dc: Vec<usize> = (0..b.fns.len()).filter(|i| tags[*i] == ".doCollection").collect();
    let collector_cert = close(dc.clone(), &rev);
    // Private helpers of the driver: a function that is not client-callable, from which the driver
    // is reachable (by the over-approximated name resolution: e.g. `metrics.finish_cycle()` also
    // resolves to `Arena::finish_cycle`), and whose every caller is the driver or another such helper
    // — it only ever runs as part of a driver call.  Greatest such set below `collector_cert`;
    // re-checked by the Lean side (`entersOnlyVia`).
    {
        let mut parts: BTreeSet<usize> =
            collector_cert.iter().copied().filter(|i| tags[*i] == ".none" && !b.fns[*i].client_callable && !b.fns[*i].is_drop_impl).collect();
        loop {
            let bad: Vec<usize> = parts
                .iter()
                .copied()
                .filter(|i| {
                    let mut callers = edges.iter().filter(|(_, g)| g == i).map(|(a, _)| *a).peekable();
                    callers.peek().is_none() || callers.any(|a| !(dc.contains(&a) || parts.contains(&a)))
                })
                .collect();
            if bad.is_empty() {
                break;
            }
            for x in bad {
                parts.remove(&x);
            }
        }
        // every helper must be reached from the driver proper (a cycle of helpers calling only one another is dead code, leave it untagged)
        let from_dc: BTreeSet<usize> = close(dc.clone(), &edges).into_iter().collect();
        for i in parts {
            if from_dc.contains(&i) {
                tags[i] = ".driverPart";
            }
        }
    }
    Graph {
        makes_arena,
        tags,
        callback_cert,
        collector_cert,
        fns: b.fns,
        edges,
        prim_destructive: prim.into_iter().collect(),
        raw_files_scanned: raw.files.len(),
        raw_items_scanned: raw.files.iter().map(|f| f.ast.items.len()).sum(),
        raw_statics,
        exp_statics,
        fresh_roots,
        fresh_external,
        fresh_methods,
        fresh_fns,
        marked_arena_field,
        constructs_marked_arena,
        unclassified,
    }
}

impl Graph {
    pub fn to_lean(&self, header: &str) -> String {
        let mut s = String::new();
        s.push_str(header);
        s.push_str("import GcArena.Model.CallGraphM\nnamespace GcArena.Generated.CallGraph\nopen GcArena.CallGraphM\n\n");
        // long list literals overflow the elaborator's recursion depth: emit chunks and append
        let v: Vec<String> = self
            .fns
            .iter()
            .enumerate()
            .map(|(i, f)| {
                let self_kind = match f.self_head.as_str() {
                    "Arena" => ".arena",
                    "MarkedArena" => ".markedArena",
                    _ => ".other",
                };
                let tag = self.tags.get(i).copied().unwrap_or(".none");
                format!(
                    "  /- {i} -/ {{ name := {}, selfKind := {}, recv := .{}, clientCallable := {}, isUnsafe := {}, isDropImpl := {}, isBuilder := {}, makesArena := {}, tag := {} }}",
                    lean_str(&f.name),
                    self_kind,
                    f.recv,
                    lean_bool(f.client_callable),
                    lean_bool(f.is_unsafe),
                    lean_bool(f.is_drop_impl),
                    lean_bool(f.self_head.ends_with("Builder")),
                    lean_bool(self.makes_arena.contains(&i)),
                    tag
                )
            })
            .collect();
        let mut names = vec![];
        for (k, chunk) in v.chunks(100).enumerate() {
            s.push_str(&format!("def fnsChunk{k} : List FnInfo := [\n{}\n]\n\n", chunk.join(",\n")));
            names.push(format!("fnsChunk{k}"));
        }
        if names.is_empty() {
            names.push("[]".into());
        }
        s.push_str(&format!("/-- Functions of the crate (node id = position). -/\ndef fns : List FnInfo := {}\n\n", names.join(" ++ ")));
        // adjacency masks
        let n = self.fns.len();
        let mut succ: Vec<Vec<usize>> = vec![vec![]; n];
        for (a, g) in &self.edges {
            succ[*a].push(*g);
        }
        let av: Vec<String> = succ
            .iter()
            .enumerate()
            .map(|(i, v)| format!("  /- {i} ⟶ {} -/ {}", v.iter().map(|x| x.to_string()).collect::<Vec<_>>().join(" "), hex_mask(v)))
            .collect();
        let mut names = vec![];
        for (k, chunk) in av.chunks(100).enumerate() {
            s.push_str(&format!("def adjChunk{k} : List Nat := [\n{}\n]\n\n", chunk.join(",\n")));
            names.push(format!("adjChunk{k}"));
        }
        if names.is_empty() {
            names.push("[]".into());
        }
        s.push_str(&format!(
            "/-- Call graph as successor masks ({} edges): explicit calls by name resolution, indirect calls through\nfn-pointer fields, implicit `Drop` calls of values a function may own. -/\ndef adj : List Nat := {}\n\n",
            self.edges.len(),
            names.join(" ++ ")
        ));
        s.push_str(&format!(
            "/-- Nodes that directly call `ptr::drop_in_place`, `alloc::dealloc`, `ManuallyDrop::drop`, `mem::drop`, `Box::from_raw`. -/\ndef primDestructive : List Nat := {}\n\n",
            lean_nat_list(&self.prim_destructive)
        ));
        s.push_str(&format!(
            "/-- `static` items, `thread_local!`, `lazy_static!` in the raw source files. -/\ndef rawStatics : List String := {}\n\n/-- What that scan visited: source files under src/, top-level items in them. -/\ndef rawFilesScanned : Nat := {}\ndef rawItemsScanned : Nat := {}\n\n",
            lean_list(&self.raw_statics.iter().map(|x| lean_str(x)).collect::<Vec<_>>()),
            self.raw_files_scanned,
            self.raw_items_scanned
        ));
        s.push_str("/-- `static` items of the macro-expanded crate (all features). -/\ndef expandedStatics : List StaticInfo := [\n");
        let sv: Vec<String> = self
            .exp_statics
            .iter()
            .map(|x| {
                format!(
                    "  {{ name := {}, module := {}, isMut := {}, ty := {}, tracingCallsite := {} }}",
                    lean_str(&x.name),
                    lean_str(&x.module),
                    lean_bool(x.mutable),
                    lean_str(&x.ty),
                    lean_bool(x.tracing_callsite)
                )
            })
            .collect();
        s.push_str(&sv.join(",\n"));
        s.push_str("\n]\n\n");
        s.push_str(&format!("/-- `Context::new`, `Metrics::new`. -/\ndef freshRoots : List Nat := {}\n\n", lean_nat_list(&self.fresh_roots)));
        s.push_str(&format!(
            "/-- External functions called by `freshFns`. -/\ndef freshExternal : List String := {}\n\n",
            lean_list(&self.fresh_external.iter().map(|x| lean_str(x)).collect::<Vec<_>>())
        ));
        s.push_str(&format!(
            "/-- Functions reachable from `freshRoots` through path calls (`Type::f(..)`). -/\ndef freshFns : List Nat := {}\n\n/-- Methods called (`x.m(..)`) by those functions. -/\ndef freshMethods : List String := {}\n\n",
            lean_nat_list(&self.fresh_fns),
            lean_list(&self.fresh_methods.iter().map(|x| lean_str(x)).collect::<Vec<_>>())
        ));
        s.push_str(&format!("/-- Type of the field of `MarkedArena`. -/\ndef markedArenaField : String := {}\n\n", lean_str(&self.marked_arena_field)));
        s.push_str(&format!("/-- Functions constructing a `MarkedArena`. -/\ndef constructsMarkedArena : List Nat := {}\n\n", lean_nat_list(&self.constructs_marked_arena)));
        s.push_str(&format!(
            "/-- Certificate: the set of nodes reachable from the callback-side entry points with the builder\n`Drop` impls cut (re-checked for closedness by the Lean side, not trusted). -/\ndef callbackClosureCert : Nat := {}\n\n/-- Certificate: the nodes from which `Context::do_collection` is reachable. -/\ndef collectorClosureCert : Nat := {}\n\n",
            hex_mask(&self.callback_cert),
            hex_mask(&self.collector_cert)
        ));
        s.push_str(&format!(
            "def unclassified : List String := {}\n\nend GcArena.Generated.CallGraph\n",
            lean_list(&self.unclassified.iter().map(|x| lean_str(x)).collect::<Vec<_>>())
        ));
        s
    }

    pub fn to_json(&self) -> String {
        let fns: Vec<String> = self
            .fns
            .iter()
            .map(|f| {
                format!(
                    "{{\"name\":{},\"self_ty\":{},\"recv\":{},\"client_callable\":{},\"is_unsafe\":{},\"is_drop_impl\":{},\"ext_calls\":[{}]}}",
                    json_str(&f.name),
                    json_str(&f.self_head),
                    json_str(f.recv),
                    f.client_callable,
                    f.is_unsafe,
                    f.is_drop_impl,
                    f.ext_calls.iter().map(|x| json_str(x)).collect::<Vec<_>>().join(",")
                )
            })
            .collect();
        format!(
            "{{\"fns\":[{}],\"edges\":[{}],\"prim_destructive\":{:?},\"raw_statics\":[{}],\"exp_statics\":[{}],\"fresh_roots\":{:?},\"fresh_external\":[{}],\"marked_arena_field\":{},\"constructs_marked_arena\":{:?},\"unclassified\":[{}]}}",
            fns.join(","),
            self.edges.iter().map(|(a, b)| format!("[{a},{b}]")).collect::<Vec<_>>().join(","),
            self.prim_destructive,
            self.raw_statics.iter().map(|x| json_str(x)).collect::<Vec<_>>().join(","),
            self.exp_statics
                .iter()
                .map(|x| format!(
                    "{{\"name\":{},\"module\":{},\"mutable\":{},\"ty\":{},\"tracing_callsite\":{}}}",
                    json_str(&x.name),
                    json_str(&x.module),
                    x.mutable,
                    json_str(&x.ty),
                    x.tracing_callsite
                ))
                .collect::<Vec<_>>()
                .join(","),
            self.fresh_roots,
            self.fresh_external.iter().map(|x| json_str(x)).collect::<Vec<_>>().join(","),
            json_str(&self.marked_arena_field),
            self.constructs_marked_arena,
            self.unclassified.iter().map(|x| json_str(x)).collect::<Vec<_>>().join(",")
        )
    }
}

/// Hex literal of the bit mask with the given bits set.
pub fn hex_mask(bits: &[usize]) -> String {
    let max = bits.iter().copied().max();
    let Some(max) = max else { return "0x0".into() };
    let mut nib = vec![0u8; max / 4 + 1];
    for b in bits {
        nib[b / 4] |= 1 << (b % 4);
    }
    let mut s = String::from("0x");
    for d in nib.iter().rev() {
        s.push(std::char::from_digit(*d as u32, 16).unwrap());
    }
    s
}
