//! Raw (un-expanded) source files: cfg gates, `macro_rules!` bodies, `static` items.
use crate::common::*;
use std::collections::BTreeMap;
use syn::visit::Visit;
use syn::*;

pub struct RawFile {
    pub module: String, // "barrier", "" for lib.rs
    pub path: String,
    pub text: String,
    pub ast: File,
}

pub struct Raw {
    pub files: Vec<RawFile>,
    /// module -> cfg gate from lib.rs
    pub mod_gate: BTreeMap<String, String>,
    /// (module, trait name or "", key text, gate)
    pub item_gates: Vec<(String, String, String, String)>,
    pub hash: u64,
    pub parse_errors: Vec<String>,
}

impl Raw {
    pub fn load(repo: &str) -> Raw {
        let src = format!("{repo}/src");
        let mut names: Vec<String> = std::fs::read_dir(&src)
            .map(|rd| {
                rd.filter_map(|e| e.ok())
                    .map(|e| e.file_name().to_string_lossy().to_string())
                    .filter(|n| n.ends_with(".rs"))
                    .collect()
            })
            .unwrap_or_default();
        names.sort();
        let mut raw =
            Raw { files: vec![], mod_gate: BTreeMap::new(), item_gates: vec![], hash: 0xcbf29ce484222325, parse_errors: vec![] };
        for n in names {
            let p = format!("{src}/{n}");
            let text = std::fs::read_to_string(&p).unwrap_or_default();
            raw.hash = fnv(n.as_bytes(), raw.hash);
            raw.hash = fnv(text.as_bytes(), raw.hash);
            match syn::parse_file(&text) {
                Ok(ast) => {
                    let module = if n == "lib.rs" { String::new() } else { n.trim_end_matches(".rs").to_string() };
                    raw.files.push(RawFile { module, path: p, text, ast });
                }
                Err(e) => raw.parse_errors.push(format!("{p}: {e}")),
            }
        }
        // module gates
        let mut verif_mods = vec![];
        if let Some(lib) = raw.files.iter().find(|f| f.module.is_empty()) {
            for it in &lib.ast.items {
                if let Item::Mod(m) = it {
                    let g = cfg_of(&m.attrs);
                    if g.contains("gc_arena_verif") {
                        verif_mods.push(m.ident.to_string());
                    }
                    raw.mod_gate.insert(m.ident.to_string(), g);
                }
            }
        }
        raw.files.retain(|f| !verif_mods.contains(&f.module));
        // item gates
        let mut gates = vec![];
        for f in &raw.files {
            for it in &f.ast.items {
                match it {
                    Item::Impl(i) => {
                        let g = cfg_of(&i.attrs);
                        if !g.is_empty() {
                            let tr = i.trait_.as_ref().map(|t| path_segs(&t.1).last().cloned().unwrap_or_default()).unwrap_or_default();
                            gates.push((f.module.clone(), tr, toks(&i.self_ty), g));
                        }
                    }
                    Item::Macro(m) => {
                        let g = cfg_of(&m.attrs);
                        if !g.is_empty() {
                            gates.push((f.module.clone(), "macro".into(), toks(&m.mac.tokens), g));
                        }
                    }
                    _ => {}
                }
            }
        }
        raw.item_gates = gates;
        raw
    }

    /// cfg gate of an impl found in the expanded crate (module gate && item gate).
    pub fn gate_for(&self, module: &str, trait_name: &str, self_ty: &str) -> String {
        let mut parts = vec![];
        let top = module.split("::").next().unwrap_or("");
        if let Some(g) = self.mod_gate.get(top) {
            if !g.is_empty() {
                parts.push(g.clone());
            }
        }
        for (m, tr, key, g) in &self.item_gates {
            if m != top {
                continue;
            }
            if (tr == trait_name && key == self_ty) || (tr == "macro" && key.contains(self_ty)) {
                parts.push(g.clone());
                break;
            }
        }
        parts.join(" && ")
    }

    /// Body tokens of `macro_rules! name { ... }` (exported or not), with its attributes.
    pub fn macro_rules(&self, name: &str) -> Option<(String, Vec<Attribute>, proc_macro2::TokenStream)> {
        for f in &self.files {
            let mut found = None;
            struct V<'a> {
                name: &'a str,
                found: &'a mut Option<(Vec<Attribute>, proc_macro2::TokenStream)>,
            }
            impl<'a, 'ast> Visit<'ast> for V<'a> {
                fn visit_item_macro(&mut self, m: &'ast ItemMacro) {
                    if m.mac.path.is_ident("macro_rules") && m.ident.as_ref().map(|i| i == self.name).unwrap_or(false) {
                        *self.found = Some((m.attrs.clone(), m.mac.tokens.clone()));
                    }
                }
            }
            V { name, found: &mut found }.visit_file(&f.ast);
            if let Some((a, t)) = found {
                return Some((f.module.clone(), a, t));
            }
        }
        None
    }

    /// All `macro_rules!` definitions: (module, name, exported, body tokens text).
    pub fn all_macro_rules(&self) -> Vec<(String, String, bool, String)> {
        let mut out = vec![];
        for f in &self.files {
            struct V<'a> {
                module: &'a str,
                out: &'a mut Vec<(String, String, bool, String)>,
            }
            impl<'a, 'ast> Visit<'ast> for V<'a> {
                fn visit_item_macro(&mut self, m: &'ast ItemMacro) {
                    if is_verif_gated(&m.attrs) {
                        return;
                    }
                    if m.mac.path.is_ident("macro_rules") {
                        let exported = m.attrs.iter().any(|a| a.path().is_ident("macro_export"));
                        self.out.push((
                            self.module.to_string(),
                            m.ident.as_ref().map(|i| i.to_string()).unwrap_or_default(),
                            exported,
                            toks(&m.mac.tokens),
                        ));
                    }
                }
            }
            V { module: &f.module, out: &mut out }.visit_file(&f.ast);
        }
        out
    }
}
