//! CollectTable: every `unsafe impl Collect<'gc> for X<P…>` of the crate, abstracted to
//! (shape, NEEDS_TRACE disjuncts, traced positions, guards, 'static bounds, gate).
use crate::common::*;
use crate::raw::Raw;
use std::collections::BTreeMap;
use syn::visit::{self, Visit};
use syn::*;

#[derive(Default)]
pub struct Entry {
    pub shape: String, // Lean constructor text
    pub shape_key: String,
    pub text: String,
    pub nparams: usize,
    pub const_needs: bool,
    pub disjuncts: Vec<usize>,
    pub traced: Vec<usize>,
    pub direct: Vec<usize>,
    pub guards: Vec<Vec<usize>>,
    pub static_params: Vec<usize>,
    pub self_static: bool,
    pub ptr_fields: Vec<String>,
    pub traced_fields: Vec<String>,
    pub gate: String,
    pub params: Vec<(String, usize, &'static str)>, // (name, position, role)
    pub field_params: Vec<usize>,
    pub free_lifetimes: Vec<String>,
}

pub struct Table {
    pub entries: Vec<Entry>,
    pub gc_leaf: (bool, String),
    pub weak_leaf: (bool, String),
    pub dyn_forward: (bool, bool, bool, bool),
    pub short_circuit: bool,
    pub unclassified: Vec<String>,
}

fn shape_of_path(full: &str) -> Option<&'static str> {
    Some(match full {
        "alloc::boxed::Box" => "box",
        "core::prelude::Option" | "core::option::Option" => "option",
        "core::prelude::Result" | "core::result::Result" => "result",
        "alloc::vec::Vec" => "vec",
        "alloc::collections::VecDeque" => "vecDeque",
        "alloc::collections::LinkedList" => "linkedList",
        "alloc::collections::BinaryHeap" => "binaryHeap",
        "alloc::collections::BTreeMap" => "btreeMap",
        "alloc::collections::BTreeSet" => "btreeSet",
        "std::collections::HashMap" => "hashMap",
        "std::collections::HashSet" => "hashSet",
        "alloc::rc::Rc" => "rc",
        "alloc::sync::Arc" => "arc",
        "core::cell::Cell" => "cell",
        "core::cell::RefCell" => "refCell",
        "core::marker::PhantomData" => "phantomData",
        "crate::lock::Lock" => "lock",
        "crate::lock::RefLock" => "refLock",
        "crate::lock::OnceLock" => "onceLock",
        "crate::slice::SliceWithHeader" => "sliceWithHeader",
        "hashbrown::HashMap" => "hbHashMap",
        "hashbrown::HashSet" => "hbHashSet",
        "hashbrown::HashTable" => "hbHashTable",
        "indexmap::IndexMap" => "indexMap",
        "indexmap::IndexSet" => "indexSet",
        "slotmap::SlotMap" => "slotMap",
        "smallvec::SmallVec" => "smallVec",
        "enum_map::EnumMap" => "enumMap",
        "crate::static_wrapper::Static" => "staticWrapper",
        _ => return None,
    })
}

/// What iterating `expr` yields, as type-argument positions, for a container of shape `shape`.
enum Yield {
    Single(usize),
    Pair(usize, usize),
    Unknown,
}
fn iter_yield(shape: &str, expr: &str) -> Yield {
    let e = expr.replace(' ', "");
    let maps = ["hashMap", "btreeMap", "hbHashMap", "indexMap"];
    let seqs = [
        "slice", "array", "vec", "vecDeque", "linkedList", "binaryHeap", "hashSet", "btreeSet", "hbHashSet", "hbHashTable",
        "indexSet", "smallVec",
    ];
    match e.as_str() {
        "self" | "self.iter()" | "&self" | "&*self" | "(&*self).iter()" | "(*self).iter()" | "self.into_iter()" | "(&self).into_iter()" | "(&*self).into_iter()"
        | "self.as_slice()" | "self.as_slice().iter()" | "&self[..]" | "self[..].iter()" => {
            if maps.contains(&shape) {
                Yield::Pair(0, 1)
            } else if seqs.contains(&shape) {
                Yield::Single(0)
            } else {
                Yield::Unknown
            }
        }
        "self.values()" => {
            if maps.contains(&shape) || shape == "slotMap" || shape == "enumMap" {
                Yield::Single(1)
            } else {
                Yield::Unknown
            }
        }
        "self.keys()" => {
            if maps.contains(&shape) {
                Yield::Single(0)
            } else {
                Yield::Unknown
            }
        }
        "&self.slice" | "self.slice.iter()" | "(&self.slice).iter()" | "(&self.slice).into_iter()" | "self.slice.into_iter()" => {
            if shape == "sliceWithHeader" {
                Yield::Single(1)
            } else {
                Yield::Unknown
            }
        }
        _ => Yield::Unknown,
    }
}

/// A non-variable trace source expression -> position.
fn source_pos(shape: &str, expr: &str) -> Option<usize> {
    let e = expr.replace(' ', "");
    match (shape, e.as_str()) {
        ("box" | "rc" | "arc", "&**self" | "**self" | "self.as_ref()" | "&*self.as_ref()" | "self.deref()" | "&**self.deref()") => Some(0),
        ("refLock", "&*self.borrow()" | "*self.borrow()" | "self.borrow()" | "&self.borrow()") => Some(0),
        ("lock", "&self.get()" | "self.get()") => Some(0),
        ("sliceWithHeader", "self.header" | "&self.header") => Some(0),
        ("staticWrapper", "&self.0") => Some(0),
        _ => None,
    }
}

struct Interp<'a> {
    shape: &'a str,
    cc: String,
    params: &'a [String], // type-argument position -> impl param name
    env: BTreeMap<String, usize>,
    traced: Vec<usize>,
    direct: Vec<usize>,
    guards: Vec<Vec<usize>>,
    own_disjuncts: Vec<usize>,
    own_const: bool,
    problems: Vec<String>,
}

/// Parse a NEEDS_TRACE-style boolean: `false || A::NEEDS_TRACE || B::Item::NEEDS_TRACE`.
/// Returns (has literal true, positions) or None.
fn parse_needs(e: &Expr, params: &[String], own: Option<(&[usize], bool)>) -> Option<(bool, Vec<usize>)> {
    match e {
        Expr::Paren(p) => parse_needs(&p.expr, params, own),
        Expr::Group(p) => parse_needs(&p.expr, params, own),
        Expr::Lit(l) => match &l.lit {
            Lit::Bool(b) => Some((b.value, vec![])),
            _ => None,
        },
        Expr::Binary(b) if matches!(b.op, BinOp::Or(_)) => {
            let (c1, mut p1) = parse_needs(&b.left, params, own)?;
            let (c2, p2) = parse_needs(&b.right, params, own)?;
            p1.extend(p2);
            Some((c1 || c2, p1))
        }
        Expr::Path(p) => {
            let segs = path_segs(&p.path);
            if segs.last().map(|s| s == "NEEDS_TRACE").unwrap_or(false) && segs.len() >= 2 {
                if segs[0] == "Self" && segs.len() == 2 {
                    let (d, c) = own?;
                    return Some((c, d.to_vec()));
                }
                if segs.len() == 2 || (segs.len() == 3 && segs[1] == "Item") {
                    let pos = params.iter().position(|x| *x == segs[0])?;
                    return Some((false, vec![pos]));
                }
            }
            None
        }
        _ => None,
    }
}

/// The variants of the value `src` evaluates to, with the type-argument position each carries:
/// `Option<T>` (`self`, `self.as_ref()`), `Result<T, E>`, `OnceLock::get()`.
fn variant_map(shape: &str, src: &str) -> Option<Vec<(&'static str, Option<usize>)>> {
    let e = src.replace(' ', "");
    match (shape, e.as_str()) {
        ("option", "self" | "self.as_ref()" | "&self" | "*self" | "&*self") => Some(vec![("Some", Some(0)), ("None", None)]),
        ("result", "self" | "self.as_ref()" | "&self" | "*self" | "&*self") => Some(vec![("Ok", Some(0)), ("Err", Some(1))]),
        ("onceLock", "self.get()") => Some(vec![("Some", Some(0)), ("None", None)]),
        _ => None,
    }
}

impl<'a> Interp<'a> {
    /// Bind the payload of a variant pattern (`Some(x)`, `Ok(r)`, `&Some(ref x)`); `None` / `_` bind nothing.
    fn bind_variant(&mut self, pat: &Pat, vm: &[(&'static str, Option<usize>)]) -> bool {
        match pat {
            Pat::Reference(r) => self.bind_variant(&r.pat, vm),
            Pat::Paren(p) => self.bind_variant(&p.pat, vm),
            Pat::Wild(_) => true,
            Pat::TupleStruct(ts) => {
                let v = last_seg(&ts.path);
                match vm.iter().find(|(c, _)| *c == v) {
                    Some((_, Some(pos))) if ts.elems.len() == 1 => self.bind_pat(&ts.elems[0], &Yield::Single(*pos)),
                    _ => false,
                }
            }
            Pat::Path(pp) => vm.iter().any(|(c, p)| *c == last_seg(&pp.path) && p.is_none()),
            Pat::Ident(pi) => pi.subpat.is_none() && vm.iter().any(|(c, p)| pi.ident == *c && p.is_none()),
            _ => false,
        }
    }

    fn bind_pat(&mut self, pat: &Pat, y: &Yield) -> bool {
        match (pat, y) {
            (Pat::Type(pt), _) => self.bind_pat(&pt.pat, y),
            (Pat::Paren(pp), _) => self.bind_pat(&pp.pat, y),
            (Pat::Wild(_), Yield::Single(_)) => true,
            (Pat::Ident(pi), Yield::Single(p)) => {
                self.env.insert(pi.ident.to_string(), *p);
                true
            }
            (Pat::Tuple(pt), Yield::Pair(a, b)) if pt.elems.len() == 2 => {
                let mut ok = true;
                for (el, pos) in pt.elems.iter().zip([*a, *b]) {
                    match el {
                        Pat::Ident(pi) => {
                            self.env.insert(pi.ident.to_string(), pos);
                        }
                        Pat::Wild(_) => {}
                        _ => ok = false,
                    }
                }
                ok
            }
            (Pat::Reference(r), _) => self.bind_pat(&r.pat, y),
            _ => false,
        }
    }

    fn arg_pos(&self, e: &Expr) -> Option<usize> {
        let mut e = e;
        loop {
            match e {
                Expr::Paren(p) => e = &p.expr,
                Expr::Group(p) => e = &p.expr,
                _ => break,
            }
        }
        // a bound variable, possibly under `&`, `*`, parentheses (`t`, `&copy`, `&*guard`, `&**b`)
        let mut x = e;
        loop {
            match x {
                Expr::Paren(p) => x = &p.expr,
                Expr::Group(p) => x = &p.expr,
                Expr::Reference(r) if r.mutability.is_none() => x = &r.expr,
                Expr::Unary(u) if matches!(u.op, UnOp::Deref(_)) => x = &u.expr,
                _ => break,
            }
        }
        if let Expr::Path(p) = x {
            if let Some(id) = p.path.get_ident() {
                if let Some(pos) = self.env.get(&id.to_string()) {
                    return Some(*pos);
                }
            }
        }
        source_pos(self.shape, &toks(e))
    }

    fn expr(&mut self, e: &Expr) {
        match e {
            Expr::Block(b) => self.block(&b.block),
            Expr::Paren(p) => self.expr(&p.expr),
            Expr::ForLoop(f) => {
                let y = iter_yield(self.shape, &toks(&*f.expr));
                if matches!(y, Yield::Unknown) || !self.bind_pat(&f.pat, &y) {
                    self.problems.push(format!("loop over `{}` with pattern `{}` not understood", toks(&*f.expr), toks(&*f.pat)));
                    return;
                }
                self.block(&f.body);
            }
            Expr::If(i) => {
                // `if let Some(x) = SRC { … }` or `if P::NEEDS_TRACE { … }`
                if let Expr::Let(l) = &*i.cond {
                    // `if let Ctor(x) = SRC { … } [else { … }]`
                    let Some(vm) = variant_map(self.shape, &toks(&*l.expr)) else {
                        self.problems.push(format!("`if let {} = {}` not understood", toks(&*l.pat), toks(&*l.expr)));
                        return;
                    };
                    if !self.bind_variant(&l.pat, &vm) {
                        self.problems.push(format!("`if let {} = {}` not understood", toks(&*l.pat), toks(&*l.expr)));
                        return;
                    }
                    self.block(&i.then_branch);
                    if let Some((_, els)) = &i.else_branch {
                        self.expr(els);
                    }
                } else if let Some((c, pos)) = parse_needs(&i.cond, self.params, Some((&self.own_disjuncts.clone(), self.own_const))) {
                    if i.else_branch.is_some() {
                        self.problems.push("NEEDS_TRACE guard with an else branch".into());
                        return;
                    }
                    if !c {
                        self.guards.push(pos);
                    }
                    self.block(&i.then_branch);
                } else {
                    self.problems.push(format!("condition `{}` not understood", toks(&*i.cond)));
                }
            }
            Expr::Match(m) => {
                // `match SRC { Ctor(x) => …, … }` over the variants of Option / Result / OnceLock::get
                let Some(vm) = variant_map(self.shape, &toks(&*m.expr)) else {
                    self.problems.push(format!("`match {}` not understood", toks(&*m.expr)));
                    return;
                };
                for arm in &m.arms {
                    if arm.guard.is_some() || !self.bind_variant(&arm.pat, &vm) {
                        self.problems.push(format!("match arm `{}` not understood", toks(&arm.pat)));
                        continue;
                    }
                    self.expr(&arm.body);
                }
            }
            // `()` / `{}`: nothing happens
            Expr::Tuple(t) if t.elems.is_empty() => {}
            Expr::MethodCall(mc) if mc.method == "for_each" && mc.args.len() == 1 && matches!(&mc.args[0], Expr::Closure(_)) => {
                // `ITER.for_each(|x| …)` is `for x in ITER { … }`
                let Expr::Closure(cl) = &mc.args[0] else { return };
                let y = iter_yield(self.shape, &toks(&*mc.receiver));
                if cl.inputs.len() != 1 || matches!(y, Yield::Unknown) || !self.bind_pat(&cl.inputs[0], &y) {
                    self.problems.push(format!("`{}.for_each({})` not understood", toks(&*mc.receiver), toks(&mc.args[0])));
                    return;
                }
                self.expr(&cl.body);
            }
            Expr::MethodCall(mc) => {
                let name = mc.method.to_string();
                let recv = toks(&*mc.receiver);
                if recv == self.cc && name == "trace" && mc.args.len() == 1 {
                    match self.arg_pos(&mc.args[0]) {
                        Some(p) => self.traced.push(p),
                        None => self.problems.push(format!("trace source `{}` not understood", toks(&mc.args[0]))),
                    }
                } else if name == "trace" && mc.args.len() == 1 && toks(&mc.args[0]) == self.cc {
                    match self.arg_pos(&mc.receiver) {
                        Some(p) => {
                            self.traced.push(p);
                            self.direct.push(p);
                        }
                        None => self.problems.push(format!("trace receiver `{recv}` not understood")),
                    }
                } else {
                    self.problems.push(format!("call `{}` not understood", toks(e)));
                }
            }
            _ => self.problems.push(format!("expression `{}` not understood", toks(e))),
        }
    }

    fn block(&mut self, b: &Block) {
        for st in &b.stmts {
            match st {
                Stmt::Expr(e, _) => self.expr(e),
                Stmt::Local(l) => {
                    // `let (A, B, C) = self;`
                    let init = l.init.as_ref().map(|i| toks(&*i.expr)).unwrap_or_default();
                    let mut ok = false;
                    if init == "self" && self.shape.starts_with("tuple") {
                        if let Pat::Tuple(pt) = &l.pat {
                            ok = true;
                            for (i, el) in pt.elems.iter().enumerate() {
                                match el {
                                    Pat::Ident(pi) => {
                                        self.env.insert(pi.ident.to_string(), i);
                                    }
                                    Pat::Wild(_) => {}
                                    _ => ok = false,
                                }
                            }
                        }
                    }
                    if !ok {
                        // `let name[: T] = SRC;` naming a value the shape is known to hold
                        if let Some(init) = &l.init {
                            if let Some(pos) = self.arg_pos(&init.expr) {
                                ok = init.diverge.is_none() && self.bind_pat(&l.pat, &Yield::Single(pos));
                            }
                        }
                    }
                    if !ok {
                        self.problems.push(format!("statement `{}` not understood", toks(st)));
                    }
                }
                _ => self.problems.push(format!("statement `{}` not understood", toks(st))),
            }
        }
    }
}

/// Field names mentioned in trace-call arguments of an internal concrete type's trace body.
struct FieldScan {
    cc: String,
    renames: BTreeMap<String, String>, // bound ident -> field
    found: Vec<String>,
}
impl<'ast> Visit<'ast> for FieldScan {
    fn visit_field_pat(&mut self, fp: &'ast FieldPat) {
        if let Pat::Ident(pi) = &*fp.pat {
            self.renames.insert(pi.ident.to_string(), toks(&fp.member));
        }
        visit::visit_field_pat(self, fp);
    }
    fn visit_expr_method_call(&mut self, mc: &'ast ExprMethodCall) {
        let name = mc.method.to_string();
        if toks(&*mc.receiver) == self.cc && ["trace", "trace_gc", "trace_gc_weak"].contains(&name.as_str()) {
            struct Ids<'b>(&'b mut Vec<String>);
            impl<'ast, 'b> Visit<'ast> for Ids<'b> {
                fn visit_expr_field(&mut self, f: &'ast ExprField) {
                    if toks(&*f.base) == "self" {
                        self.0.push(format!("self.{}", toks(&f.member)));
                    }
                    visit::visit_expr_field(self, f);
                }
                fn visit_ident(&mut self, i: &'ast proc_macro2::Ident) {
                    self.0.push(i.to_string());
                }
            }
            let mut v = vec![];
            for a in &mc.args {
                Ids(&mut v).visit_expr(a);
            }
            self.found.extend(v);
        }
        visit::visit_expr_method_call(self, mc);
    }
}

/// Does type `t` mention identifier `id` outside of `PhantomData<…>`?
fn mentions_outside_phantom(t: &Type, id: &str) -> bool {
    match t {
        Type::Paren(p) => mentions_outside_phantom(&p.elem, id),
        Type::Group(p) => mentions_outside_phantom(&p.elem, id),
        Type::Reference(r) => mentions_outside_phantom(&r.elem, id),
        Type::Ptr(r) => mentions_outside_phantom(&r.elem, id),
        Type::Slice(r) => mentions_outside_phantom(&r.elem, id),
        Type::Array(r) => mentions_outside_phantom(&r.elem, id),
        Type::Tuple(tu) => tu.elems.iter().any(|e| mentions_outside_phantom(e, id)),
        Type::Path(tp) => {
            if last_seg(&tp.path) == "PhantomData" {
                return false;
            }
            if let Some(q) = &tp.qself {
                if mentions_outside_phantom(&q.ty, id) {
                    return true;
                }
            }
            if tp.path.segments.first().map(|sg| sg.ident == id).unwrap_or(false) {
                return true;
            }
            for sg in &tp.path.segments {
                if let PathArguments::AngleBracketed(a) = &sg.arguments {
                    for g in &a.args {
                        if let GenericArgument::Type(t2) = g {
                            if mentions_outside_phantom(t2, id) {
                                return true;
                            }
                        }
                    }
                }
            }
            false
        }
        other => mentions_ident(other, id), // fn pointers, trait objects, …: conservatively "mentions"
    }
}

pub fn extract(c: &Crate, items: &Items, raw: &Raw) -> Table {
    let mut t = Table {
        entries: vec![],
        gc_leaf: (false, ".none".into()),
        weak_leaf: (false, ".none".into()),
        dyn_forward: (false, false, false, false),
        short_circuit: false,
        unclassified: vec![],
    };
    // Trace::trace default body
    for (_, tr) in &items.traits {
        if tr.ident == "Trace" {
            for it in &tr.items {
                if let TraitItem::Fn(f) = it {
                    if f.sig.ident == "trace" {
                        if let Some(b) = &f.default {
                            // `if <P>::NEEDS_TRACE { <arg>.trace(self); }` with P the method's type
                            // parameter and arg its value parameter (names free)
                            let s = toks(b).replace(' ', "").replace(";}", "}");
                            let tp = type_params(&f.sig.generics).first().cloned().unwrap_or_default();
                            let arg = f.sig.inputs.iter().nth(1).and_then(|a| if let FnArg::Typed(pt) = a { Some(toks(&*pt.pat)) } else { None }).unwrap_or_default();
                            t.short_circuit = !tp.is_empty() && !arg.is_empty() && s == format!("{{if{tp}::NEEDS_TRACE{{{arg}.trace(self)}}}}");
                        }
                    }
                }
            }
        }
    }
    let mut saw_gc = false;
    let mut saw_weak = false;
    for (module, i) in &items.impls {
        let Some((_, tp, _)) = &i.trait_ else { continue };
        let tname = last_seg(tp);
        if tname == "DynCollect" {
            // blanket impl: check the TraceWrap forwarding
            struct W {
                strong: bool,
                weak: bool,
            }
            impl<'ast> Visit<'ast> for W {
                fn visit_impl_item_fn(&mut self, f: &'ast ImplItemFn) {
                    let b = toks(&f.block).replace(' ', "");
                    if f.sig.ident == "trace_gc" && b.contains(".trace_gc(gc)") {
                        self.strong = true;
                    }
                    if f.sig.ident == "trace_gc_weak" && b.contains(".trace_gc_weak(gc)") {
                        self.weak = true;
                    }
                    visit::visit_impl_item_fn(self, f);
                }
            }
            let mut w = W { strong: false, weak: false };
            for it in &i.items {
                if let ImplItem::Fn(f) = it {
                    if f.sig.ident == "dyn_trace" {
                        w.visit_block(&f.block);
                        let last = f.block.stmts.last().map(|s| toks(s).replace(' ', "")).unwrap_or_default();
                        if last != "self.trace(&mutTraceWrap(cc))" {
                            w.strong = false;
                        }
                    }
                }
            }
            t.dyn_forward.2 = w.strong;
            t.dyn_forward.3 = w.weak;
            continue;
        }
        if tname != "Collect" {
            continue;
        }
        let modname = module.join("::");
        let self_text = pretty(&toks(&*i.self_ty));
        let hdr = pretty(&format!(
            "impl<{}> Collect for {}{}",
            toks(&i.generics.params),
            toks(&*i.self_ty),
            i.generics.where_clause.as_ref().map(|w| format!(" {}", toks(w))).unwrap_or_default()
        ));
        let gate = raw.gate_for(&modname, "Collect", &toks(&*i.self_ty));
        if i.unsafety.is_none() {
            t.unclassified.push(format!("safe impl Collect for {self_text}"));
        }
        // NEEDS_TRACE const and trace fn
        let mut needs_expr: Option<&Expr> = None;
        let mut trace_fn: Option<&ImplItemFn> = None;
        for it in &i.items {
            match it {
                ImplItem::Const(k) if k.ident == "NEEDS_TRACE" => needs_expr = Some(&k.expr),
                ImplItem::Fn(f) if f.sig.ident == "trace" => trace_fn = Some(f),
                _ => {}
            }
        }
        let cc_name = trace_fn
            .and_then(|f| f.sig.inputs.iter().nth(1))
            .and_then(|a| if let FnArg::Typed(pt) = a { Some(toks(&*pt.pat)) } else { None })
            .unwrap_or_else(|| "cc".into());
        // trait objects
        if let Type::TraitObject(_) = &*i.self_ty {
            if self_text.contains("DynCollect") {
                t.dyn_forward.0 = true;
                t.dyn_forward.1 = trace_fn.map(|f| toks(&f.block).replace(' ', "") == format!("{{self.dyn_trace({cc_name})}}")).unwrap_or(false)
                    && needs_expr.is_none();
            } else {
                t.unclassified.push(format!("Collect for trait object {self_text}"));
            }
            continue;
        }
        // shape + type arguments
        let tparams = type_params(&i.generics);
        let (shape_key, args): (String, Vec<&Type>) = match &*i.self_ty {
            Type::Reference(r) => {
                let st = r.lifetime.as_ref().map(|l| l.ident == "static").unwrap_or(false);
                if st && r.mutability.is_none() {
                    ("staticRef".into(), vec![&*r.elem])
                } else {
                    (format!("other:{self_text}"), vec![])
                }
            }
            Type::Slice(s) => ("slice".into(), vec![&*s.elem]),
            Type::Array(a) => ("array".into(), vec![&*a.elem]),
            Type::Tuple(tu) => (format!("tuple {}", tu.elems.len()), tu.elems.iter().collect()),
            other => {
                if let Some(p) = type_path(other) {
                    let full = c.resolve(module, &path_segs(p), p.leading_colon.is_some()).join("::");
                    let targs = last_type_args(p);
                    if full == "crate::gc::Gc" || full == "crate::gc_weak::GcWeak" {
                        let needs = match needs_expr {
                            None => true,
                            Some(e) => toks(e) == "true",
                        };
                        let body = trace_fn.map(|f| toks(&f.block).replace(' ', "")).unwrap_or_default();
                        let call = if body == format!("{{{cc_name}.trace_gc(Self::erase(*self))}}") {
                            ".traceGc"
                        } else if body == format!("{{{cc_name}.trace_gc_weak(Self::erase(*self))}}") {
                            ".traceGcWeak"
                        } else {
                            ".none"
                        };
                        if full == "crate::gc::Gc" {
                            t.gc_leaf = (needs, call.into());
                            saw_gc = true;
                        } else {
                            t.weak_leaf = (needs, call.into());
                            saw_weak = true;
                        }
                        continue;
                    }
                    match shape_of_path(&full) {
                        Some(s) => (s.to_string(), targs),
                        None => {
                            if tparams.is_empty() {
                                if full.starts_with("crate::") {
                                    ("internal".into(), vec![])
                                } else {
                                    ("leaf".into(), vec![])
                                }
                            } else {
                                (format!("other:{full}"), targs)
                            }
                        }
                    }
                } else {
                    (format!("other:{self_text}"), vec![])
                }
            }
        };
        let mut e = Entry { text: hdr.clone(), gate, ..Default::default() };
        e.shape = if let Some(rest) = shape_key.strip_prefix("other:") {
            format!(".other {}", lean_str(rest))
        } else if shape_key.starts_with("tuple ") {
            format!("(.{shape_key})")
        } else {
            format!(".{shape_key}")
        };
        e.shape_key = shape_key.clone();
        // positions: each type argument must be a bare impl parameter
        let mut pos_names: Vec<String> = vec![];
        let mut args_ok = true;
        for a in &args {
            let s = toks(*a);
            if tparams.contains(&s) {
                pos_names.push(s);
            } else {
                args_ok = false;
                pos_names.push(format!("<{s}>"));
            }
        }
        e.nparams = args.len();
        if !args_ok && shape_key != "leaf" && shape_key != "internal" {
            t.unclassified.push(format!("{hdr}: type argument is not a bare impl parameter"));
        }
        // 'static bounds
        let (st, self_static) = static_bounded(&i.generics, &toks(&*i.self_ty));
        e.self_static = self_static;
        for (k, n) in pos_names.iter().enumerate() {
            if st.contains(n) {
                e.static_params.push(k);
            }
        }
        if shape_key == "leaf" && !self_static {
            // a foreign concrete type without `Self: 'static`: cannot be judged
            e.shape = format!(".other {}", lean_str(&self_text));
        }
        // NEEDS_TRACE
        match needs_expr {
            None => e.const_needs = true,
            Some(ex) => match parse_needs(ex, &pos_names, None) {
                Some((cst, pos)) => {
                    e.const_needs = cst;
                    e.disjuncts = pos;
                }
                None => {
                    t.unclassified.push(format!("{hdr}: NEEDS_TRACE expression `{}` not understood", toks(ex)));
                }
            },
        }
        // trace body
        if shape_key == "internal" {
            // fields of the type whose type mentions 'gc / Gc
            let name = type_path(&i.self_ty).map(last_seg).unwrap_or_default();
            let mut fields: Vec<(String, String)> = vec![];
            let mut found_def = false;
            for (m2, s) in &items.structs {
                if s.ident == name && m2 == module {
                    found_def = true;
                    for (k, f) in s.fields.iter().enumerate() {
                        fields.push((f.ident.as_ref().map(|x| x.to_string()).unwrap_or(k.to_string()), toks(&f.ty)));
                    }
                }
            }
            for (m2, s) in &items.enums {
                if s.ident == name && m2 == module {
                    found_def = true;
                    for v in &s.variants {
                        for (k, f) in v.fields.iter().enumerate() {
                            fields.push((f.ident.as_ref().map(|x| x.to_string()).unwrap_or(k.to_string()), toks(&f.ty)));
                        }
                    }
                }
            }
            if !found_def {
                t.unclassified.push(format!("{hdr}: definition of {name} not found"));
            }
            for (n, ty) in &fields {
                if ty.contains("'gc") || ty.contains("Gc") {
                    e.ptr_fields.push(n.clone());
                }
            }
            if let Some(f) = trace_fn {
                let mut fs = FieldScan { cc: cc_name.clone(), renames: BTreeMap::new(), found: vec![] };
                fs.visit_block(&f.block);
                let mut tf = vec![];
                for x in &fs.found {
                    if let Some(m) = x.strip_prefix("self.") {
                        tf.push(m.to_string());
                    } else if let Some(m) = fs.renames.get(x) {
                        tf.push(m.clone());
                    }
                }
                tf.sort();
                tf.dedup();
                e.traced_fields = tf;
            }
            if e.ptr_fields.is_empty() && !self_static {
                // nothing pointer-like was recognised: refuse to call it complete silently
                e.ptr_fields.push("<no pointer field recognised>".into());
            }
        } else if let Some(f) = trace_fn {
            let mut it = Interp {
                shape: shape_key.split(' ').next().unwrap_or(""),
                cc: cc_name.clone(),
                params: &pos_names,
                env: BTreeMap::new(),
                traced: vec![],
                direct: vec![],
                guards: vec![],
                own_disjuncts: e.disjuncts.clone(),
                own_const: e.const_needs,
                problems: vec![],
            };
            it.block(&f.block);
            e.traced = it.traced;
            e.traced.sort();
            e.traced.dedup();
            e.direct = it.direct;
            e.direct.sort();
            e.direct.dedup();
            e.guards = it.guards;
            for p in it.problems {
                t.unclassified.push(format!("{hdr}: {p}"));
            }
        }
        // ---- per-parameter roles, fields of crate-defined types, lifetimes ------------------------
        // Collect-bounded parameters: `P: Collect<'gc>` or `P::Item: Collect<'gc>`, inline or in `where`
        let mut collect_bounded: Vec<String> = vec![];
        {
            let mut note = |bounded: String, bounds: &syn::punctuated::Punctuated<TypeParamBound, Token![+]>| {
                for b in bounds {
                    if let TypeParamBound::Trait(tb) = b {
                        if last_seg(&tb.path) == "Collect" {
                            let head = bounded.split("::").next().unwrap_or("").trim().to_string();
                            collect_bounded.push(head);
                        }
                    }
                }
            };
            for gp in &i.generics.params {
                if let GenericParam::Type(tp) = gp {
                    note(tp.ident.to_string(), &tp.bounds);
                }
            }
            if let Some(w) = &i.generics.where_clause {
                for pr in &w.predicates {
                    if let WherePredicate::Type(pt) = pr {
                        note(toks(&pt.bounded_ty).replace(' ', ""), &pt.bounds);
                    }
                }
            }
        }
        for pn in &tparams {
            let pos = pos_names.iter().position(|x| x == pn).unwrap_or(99);
            let role = if collect_bounded.contains(pn) {
                if e.traced.contains(&pos) { "traced" } else { "collectOnly" }
            } else if st.contains(pn) {
                "static"
            } else {
                "unbounded" // includes parameters bounded only by `'gc`
            };
            e.params.push((pn.clone(), pos, role));
        }
        // types defined in the crate: which parameters occur in a field (outside PhantomData)
        if let Some(p) = type_path(&i.self_ty) {
            let full = c.resolve(module, &path_segs(p), p.leading_colon.is_some()).join("::");
            if full.starts_with("crate::") && !tparams.is_empty() {
                let name = last_seg(p);
                let mut found = false;
                for (_, sdef) in &items.structs {
                    if sdef.ident != name {
                        continue;
                    }
                    found = true;
                    let sparams = type_params(&sdef.generics);
                    for (k, sp) in sparams.iter().enumerate() {
                        if sdef.fields.iter().any(|f| mentions_outside_phantom(&f.ty, sp)) {
                            e.field_params.push(k);
                        }
                    }
                }
                for (_, sdef) in &items.enums {
                    if sdef.ident != name {
                        continue;
                    }
                    found = true;
                    let sparams = type_params(&sdef.generics);
                    for (k, sp) in sparams.iter().enumerate() {
                        if sdef.variants.iter().any(|v| v.fields.iter().any(|f| mentions_outside_phantom(&f.ty, sp))) {
                            e.field_params.push(k);
                        }
                    }
                }
                if !found {
                    t.unclassified.push(format!("{hdr}: definition of the crate type {name} not found (fields unknown)"));
                }
            }
        }
        // lifetimes of the self type: `'gc` (the trait's), `'static`, or bounded by `'static`
        {
            let trait_lt: Vec<String> = tp
                .segments
                .last()
                .map(|sg| match &sg.arguments {
                    PathArguments::AngleBracketed(a) => {
                        a.args.iter().filter_map(|g| if let GenericArgument::Lifetime(l) = g { Some(l.ident.to_string()) } else { None }).collect()
                    }
                    _ => vec![],
                })
                .unwrap_or_default();
            let mut static_lts: Vec<String> = vec!["static".into()];
            for gp in &i.generics.params {
                if let GenericParam::Lifetime(lp) = gp {
                    if lp.bounds.iter().any(|b| b.ident == "static") {
                        static_lts.push(lp.lifetime.ident.to_string());
                    }
                }
            }
            if let Some(w) = &i.generics.where_clause {
                for pr in &w.predicates {
                    if let WherePredicate::Lifetime(pl) = pr {
                        if pl.bounds.iter().any(|b| b.ident == "static") {
                            static_lts.push(pl.lifetime.ident.to_string());
                        }
                    }
                }
            }
            let mut seen: Vec<String> = vec![];
            let mut prev_tick = false;
            fn walk(ts: proc_macro2::TokenStream, prev_tick: &mut bool, out: &mut Vec<String>) {
                for tt in ts {
                    match tt {
                        proc_macro2::TokenTree::Group(g) => walk(g.stream(), prev_tick, out),
                        proc_macro2::TokenTree::Punct(p) => *prev_tick = p.as_char() == '\'',
                        proc_macro2::TokenTree::Ident(id) => {
                            if *prev_tick {
                                out.push(id.to_string());
                            }
                            *prev_tick = false;
                        }
                        _ => *prev_tick = false,
                    }
                }
            }
            use quote::ToTokens;
            walk(i.self_ty.to_token_stream(), &mut prev_tick, &mut seen);
            for l in seen {
                if !trait_lt.contains(&l) && !static_lts.contains(&l) && !e.self_static && !e.free_lifetimes.contains(&l) {
                    e.free_lifetimes.push(l);
                }
            }
        }
        t.entries.push(e);
    }
    if !saw_gc {
        t.unclassified.push("impl Collect for Gc not found".into());
    }
    if !saw_weak {
        t.unclassified.push("impl Collect for GcWeak not found".into());
    }
    t
}

impl Table {
    pub fn to_lean(&self, header: &str) -> String {
        let mut s = String::new();
        s.push_str(header);
        s.push_str("import GcArena.Model.CollectTy\nnamespace GcArena.Generated\nopen GcArena.CollectTy\n\n");
        s.push_str("def collectTable : Table := {\n  entries := [\n");
        let v: Vec<String> = self
            .entries
            .iter()
            .map(|e| {
                format!(
                    "    {{ shape := {}, text := {}, nparams := {}, constNeeds := {}, disjuncts := {}, traced := {}, direct := {},\n      guards := [{}], staticParams := {}, selfStatic := {}, ptrFields := {}, tracedFields := {},\n      params := [{}], fieldParams := {}, freeLifetimes := {}, gate := {} }}",
                    e.shape,
                    lean_str(&e.text),
                    e.nparams,
                    lean_bool(e.const_needs),
                    lean_nat_list(&e.disjuncts),
                    lean_nat_list(&e.traced),
                    lean_nat_list(&e.direct),
                    e.guards.iter().map(|g| lean_nat_list(g)).collect::<Vec<_>>().join(", "),
                    lean_nat_list(&e.static_params),
                    lean_bool(e.self_static),
                    lean_list(&e.ptr_fields.iter().map(|x| lean_str(x)).collect::<Vec<_>>()),
                    lean_list(&e.traced_fields.iter().map(|x| lean_str(x)).collect::<Vec<_>>()),
                    e.params.iter().map(|(n, p, r)| format!("⟨{}, {}, .{}⟩", lean_str(n), p, r)).collect::<Vec<_>>().join(", "),
                    lean_nat_list(&e.field_params),
                    lean_list(&e.free_lifetimes.iter().map(|x| lean_str(x)).collect::<Vec<_>>()),
                    lean_str(&e.gate)
                )
            })
            .collect();
        s.push_str(&v.join(",\n"));
        s.push_str(&format!(
            "\n  ],\n  gcLeaf := ⟨{}, {}⟩,\n  weakLeaf := ⟨{}, {}⟩,\n  dynForward := ⟨{}, {}, {}, {}⟩,\n  traceShortCircuit := {},\n  unclassified := {}\n}}\n\nend GcArena.Generated\n",
            lean_bool(self.gc_leaf.0),
            self.gc_leaf.1,
            lean_bool(self.weak_leaf.0),
            self.weak_leaf.1,
            lean_bool(self.dyn_forward.0),
            lean_bool(self.dyn_forward.1),
            lean_bool(self.dyn_forward.2),
            lean_bool(self.dyn_forward.3),
            lean_bool(self.short_circuit),
            lean_list(&self.unclassified.iter().map(|x| lean_str(x)).collect::<Vec<_>>())
        ));
        s
    }

    pub fn to_json(&self) -> String {
        let ents: Vec<String> = self
            .entries
            .iter()
            .map(|e| {
                format!(
                    "{{\"shape\":{},\"text\":{},\"nparams\":{},\"const_needs\":{},\"disjuncts\":{:?},\"traced\":{:?},\"direct\":{:?},\"guards\":{:?},\"static_params\":{:?},\"self_static\":{},\"ptr_fields\":[{}],\"traced_fields\":[{}],\"params\":[{}],\"field_params\":{:?},\"free_lifetimes\":[{}],\"gate\":{}}}",
                    json_str(&e.shape_key),
                    json_str(&e.text),
                    e.nparams,
                    e.const_needs,
                    e.disjuncts,
                    e.traced,
                    e.direct,
                    e.guards,
                    e.static_params,
                    e.self_static,
                    e.ptr_fields.iter().map(|x| json_str(x)).collect::<Vec<_>>().join(","),
                    e.traced_fields.iter().map(|x| json_str(x)).collect::<Vec<_>>().join(","),
                    e.params.iter().map(|(n, p, r)| format!("{{\"name\":{},\"pos\":{},\"role\":{}}}", json_str(n), p, json_str(r))).collect::<Vec<_>>().join(","),
                    e.field_params,
                    e.free_lifetimes.iter().map(|x| json_str(x)).collect::<Vec<_>>().join(","),
                    json_str(&e.gate)
                )
            })
            .collect();
        format!(
            "{{\"entries\":[{}],\"gc_leaf\":[{},{}],\"weak_leaf\":[{},{}],\"dyn_forward\":[{},{},{},{}],\"short_circuit\":{},\"unclassified\":[{}]}}",
            ents.join(","),
            self.gc_leaf.0,
            json_str(&self.gc_leaf.1),
            self.weak_leaf.0,
            json_str(&self.weak_leaf.1),
            self.dyn_forward.0,
            self.dyn_forward.1,
            self.dyn_forward.2,
            self.dyn_forward.3,
            self.short_circuit,
            self.unclassified.iter().map(|x| json_str(x)).collect::<Vec<_>>().join(",")
        )
    }
}
