//! Recording implementation of the public `gc_arena::collect::Trace` trait and the registry that
//! maps allocation addresses back to the pointer ids the test inserted.
use gc_arena::collect::Trace;
use gc_arena::{Collect, Gc, GcWeak, Mutation};
use std::collections::HashMap;

/// Allocates the distinct pointers of a case and remembers address -> id.
pub struct Ptrs<'gc> {
    mc: &'gc Mutation<'gc>,
    pub by_addr: HashMap<usize, usize>,
}

impl<'gc> Ptrs<'gc> {
    pub fn new(mc: &'gc Mutation<'gc>) -> Ptrs<'gc> {
        Ptrs { mc, by_addr: HashMap::new() }
    }
    pub fn mc(&self) -> &'gc Mutation<'gc> {
        self.mc
    }
    /// a fresh strong pointer with id `id`
    pub fn g(&mut self, id: usize) -> Gc<'gc, u32> {
        let g = Gc::new(self.mc, id as u32);
        let prev = self.by_addr.insert(Gc::as_ptr(g) as usize, id);
        assert!(prev.is_none(), "allocation address reused while alive");
        g
    }
    /// a fresh weak pointer with id `id` (its own allocation)
    pub fn w(&mut self, id: usize) -> GcWeak<'gc, u32> {
        Gc::downgrade(self.g(id))
    }
    /// a fresh strong pointer to a `Tok` (C16: the pointee carries a drop flag)
    pub fn gt(&mut self, id: usize) -> Gc<'gc, Tok> {
        let g = Gc::new_static(self.mc, Tok { id: id as u32, dropped: None });
        let prev = self.by_addr.insert(Gc::as_ptr(g) as usize, id);
        assert!(prev.is_none(), "allocation address reused while alive");
        g
    }
    pub fn wt(&mut self, id: usize) -> GcWeak<'gc, Tok> {
        Gc::downgrade(self.gt(id))
    }
    /// register a foreign allocation
    pub fn register(&mut self, addr: usize, id: usize) {
        self.by_addr.insert(addr, id);
    }
}

/// Pointee of the C16 pointers: compared / hashed by id, sets its flag when dropped.
pub struct Tok {
    pub id: u32,
    pub dropped: Option<std::rc::Rc<std::cell::Cell<bool>>>,
}
impl Drop for Tok {
    fn drop(&mut self) {
        if let Some(f) = &self.dropped {
            f.set(true)
        }
    }
}
impl PartialEq for Tok {
    fn eq(&self, o: &Tok) -> bool {
        self.id == o.id
    }
}
impl Eq for Tok {}
impl PartialOrd for Tok {
    fn partial_cmp(&self, o: &Tok) -> Option<std::cmp::Ordering> {
        Some(self.cmp(o))
    }
}
impl Ord for Tok {
    fn cmp(&self, o: &Tok) -> std::cmp::Ordering {
        self.id.cmp(&o.id)
    }
}
impl std::hash::Hash for Tok {
    fn hash<H: std::hash::Hasher>(&self, h: &mut H) {
        self.id.hash(h)
    }
}

/// The recording tracer.
pub struct Recorder<'a> {
    by_addr: &'a HashMap<usize, usize>,
    pub seen: Vec<(usize, bool)>,
    pub unknown: usize,
}

impl<'a> Recorder<'a> {
    pub fn new(by_addr: &'a HashMap<usize, usize>) -> Self {
        Recorder { by_addr, seen: vec![], unknown: 0 }
    }
    fn note(&mut self, addr: usize, weak: bool) {
        match self.by_addr.get(&addr) {
            Some(id) => self.seen.push((*id, weak)),
            None => self.unknown += 1,
        }
    }
    pub fn sorted(mut self) -> Vec<(usize, bool)> {
        self.seen.sort();
        self.seen
    }
}

impl<'a, 'gc> Trace<'gc> for Recorder<'a> {
    fn trace_gc(&mut self, gc: Gc<'gc, ()>) {
        self.note(Gc::as_ptr(gc) as usize, false)
    }
    fn trace_gc_weak(&mut self, gc: GcWeak<'gc, ()>) {
        self.note(GcWeak::as_ptr(gc) as usize, true)
    }
}

pub struct Obs {
    pub needs_trace: bool,
    /// through `Trace::trace` (with the NEEDS_TRACE short-circuit)
    pub reported: Vec<(usize, bool)>,
    /// through `Collect::trace` directly
    pub direct: Vec<(usize, bool)>,
    pub unknown: usize,
}

pub fn observe_with<'gc, T: Collect<'gc> + ?Sized>(by_addr: &HashMap<usize, usize>, v: &T) -> Obs {
    let mut r = Recorder::new(by_addr);
    Trace::trace(&mut r, v);
    let unknown = r.unknown;
    let reported = r.sorted();
    let mut r2 = Recorder::new(by_addr);
    Collect::trace(v, &mut r2);
    let direct = r2.sorted();
    Obs { needs_trace: T::NEEDS_TRACE, reported, direct, unknown }
}

pub fn observe<'gc, T: Collect<'gc> + ?Sized>(p: &Ptrs<'gc>, v: &T) -> Obs {
    observe_with(&p.by_addr, v)
}

pub fn show(l: &[(usize, bool)]) -> String {
    let items: Vec<String> = l.iter().map(|(i, w)| format!("{}:{}", i, if *w { "w" } else { "s" })).collect();
    format!("[{}]", items.join(","))
}

pub struct Case {
    pub name: &'static str,
    pub ty: &'static str,
    pub val: &'static str,
    pub src: &'static str,
    pub nptrs: usize,
    pub run: for<'gc> fn(&'gc Mutation<'gc>) -> Obs,
}
