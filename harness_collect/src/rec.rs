//! Recording implementation of the public `gc_arena::collect::Trace` trait and the registry that
//! maps allocation addresses back to the pointer ids the test inserted.
use gc_arena::collect::Trace;
use gc_arena::arena::Root;
use gc_arena::{Arena, Collect, Gc, GcWeak, Mutation, Rootable};
use std::cell::{Cell, RefCell};
use std::collections::HashMap;
use std::rc::Rc;

/// Allocates the distinct pointers of a case and remembers address -> id.
pub struct Ptrs<'gc> {
    mc: &'gc Mutation<'gc>,
    pub by_addr: HashMap<usize, usize>,
    /// weak observers of every allocation that is expected to survive a collection when the value
    /// is the arena root (everything reachable through strong pointers)
    observers: Vec<GcWeak<'gc, ()>>,
}

thread_local! {
    /// destruction flags of the `DropTok`s handed out by `Ptrs::tok` since the last `survive` began
    static TOKS: RefCell<Vec<Rc<Cell<bool>>>> = const { RefCell::new(Vec::new()) };
}

/// A `'static` payload without `Collect` impl (only usable in `require_static` positions) that
/// records its own destruction.
pub struct DropTok(Option<Rc<Cell<bool>>>);

impl Drop for DropTok {
    fn drop(&mut self) {
        if let Some(f) = &self.0 {
            f.set(true)
        }
    }
}

impl<'gc> Ptrs<'gc> {
    pub fn new(mc: &'gc Mutation<'gc>) -> Ptrs<'gc> {
        Ptrs { mc, by_addr: HashMap::new(), observers: vec![] }
    }
    pub fn take_observers(&mut self) -> Vec<GcWeak<'gc, ()>> {
        std::mem::take(&mut self.observers)
    }
    pub fn mc(&self) -> &'gc Mutation<'gc> {
        self.mc
    }
    /// a fresh strong pointer with id `id` (expected to survive when the value is rooted)
    pub fn g(&mut self, id: usize) -> Gc<'gc, u32> {
        let g = self.g0(id);
        self.observers.push(GcWeak::erase(Gc::downgrade(g)));
        g
    }
    /// the same below a node that is only weakly reachable (not observed for survival)
    pub fn g0(&mut self, id: usize) -> Gc<'gc, u32> {
        let g = Gc::new(self.mc, id as u32);
        let prev = self.by_addr.insert(Gc::as_ptr(g) as usize, id);
        assert!(prev.is_none(), "allocation address reused while alive");
        g
    }
    /// `Gc::new(mc, v)` registered with id `id`: a link to another node (`Gc<'gc, Self>`)
    pub fn adopt<T: Collect<'gc> + 'gc>(&mut self, id: usize, v: T) -> Gc<'gc, T> {
        let g = self.adopt0(id, v);
        self.observers.push(GcWeak::erase(Gc::downgrade(g)));
        g
    }
    pub fn adopt0<T: Collect<'gc> + 'gc>(&mut self, id: usize, v: T) -> Gc<'gc, T> {
        let g = Gc::new(self.mc, v);
        let prev = self.by_addr.insert(Gc::as_ptr(g) as usize, id);
        assert!(prev.is_none(), "allocation address reused while alive");
        g
    }
    /// a drop token whose destruction is counted by `survive`
    pub fn tok(&mut self) -> DropTok {
        let f = Rc::new(Cell::new(false));
        TOKS.with(|t| t.borrow_mut().push(f.clone()));
        DropTok(Some(f))
    }
    /// a drop token below a weakly reachable node (its destruction is legitimate)
    pub fn tok0(&mut self) -> DropTok {
        DropTok(None)
    }
    /// a fresh weak pointer with id `id` (its own allocation, held only weakly)
    pub fn w(&mut self, id: usize) -> GcWeak<'gc, u32> {
        Gc::downgrade(self.g0(id))
    }
    pub fn w0(&mut self, id: usize) -> GcWeak<'gc, u32> {
        Gc::downgrade(self.g0(id))
    }
    /// a fresh strong pointer to a `Tok` (C16: the pointee carries a drop flag)
    pub fn gt(&mut self, id: usize) -> Gc<'gc, Tok> {
        let g = Gc::new_static(self.mc, Tok { id: id as u32, dropped: None });
        let prev = self.by_addr.insert(Gc::as_ptr(g) as usize, id);
        assert!(prev.is_none(), "allocation address reused while alive");
        g
    }
    pub fn wt(&mut self, id: usize) -> GcWeak<'gc, Tok> {
        Gc::downgrade(self.gt(id))
    }
    /// register a foreign allocation
    pub fn register(&mut self, addr: usize, id: usize) {
        self.by_addr.insert(addr, id);
    }
}

/// Pointee of the C16 pointers: compared / hashed by id, sets its flag when dropped.
pub struct Tok {
    pub id: u32,
    pub dropped: Option<std::rc::Rc<std::cell::Cell<bool>>>,
}
impl Drop for Tok {
    fn drop(&mut self) {
        if let Some(f) = &self.dropped {
            f.set(true)
        }
    }
}
impl PartialEq for Tok {
    fn eq(&self, o: &Tok) -> bool {
        self.id == o.id
    }
}
impl Eq for Tok {}
impl PartialOrd for Tok {
    fn partial_cmp(&self, o: &Tok) -> Option<std::cmp::Ordering> {
        Some(self.cmp(o))
    }
}
impl Ord for Tok {
    fn cmp(&self, o: &Tok) -> std::cmp::Ordering {
        self.id.cmp(&o.id)
    }
}
impl std::hash::Hash for Tok {
    fn hash<H: std::hash::Hasher>(&self, h: &mut H) {
        self.id.hash(h)
    }
}

/// The recording tracer.
pub struct Recorder<'a> {
    by_addr: &'a HashMap<usize, usize>,
    pub seen: Vec<(usize, bool)>,
    pub unknown: usize,
}

impl<'a> Recorder<'a> {
    pub fn new(by_addr: &'a HashMap<usize, usize>) -> Self {
        Recorder { by_addr, seen: vec![], unknown: 0 }
    }
    fn note(&mut self, addr: usize, weak: bool) {
        match self.by_addr.get(&addr) {
            Some(id) => self.seen.push((*id, weak)),
            None => self.unknown += 1,
        }
    }
    pub fn sorted(mut self) -> Vec<(usize, bool)> {
        self.seen.sort();
        self.seen
    }
}

impl<'a, 'gc> Trace<'gc> for Recorder<'a> {
    fn trace_gc(&mut self, gc: Gc<'gc, ()>) {
        self.note(Gc::as_ptr(gc) as usize, false)
    }
    fn trace_gc_weak(&mut self, gc: GcWeak<'gc, ()>) {
        self.note(GcWeak::as_ptr(gc) as usize, true)
    }
}

pub struct Obs {
    pub needs_trace: bool,
    /// through `Trace::trace` (with the NEEDS_TRACE short-circuit)
    pub reported: Vec<(usize, bool)>,
    /// through `Collect::trace` directly
    pub direct: Vec<(usize, bool)>,
    pub unknown: usize,
}

pub fn observe_with<'gc, T: Collect<'gc> + ?Sized>(by_addr: &HashMap<usize, usize>, v: &T) -> Obs {
    let mut r = Recorder::new(by_addr);
    Trace::trace(&mut r, v);
    let unknown = r.unknown;
    let reported = r.sorted();
    let mut r2 = Recorder::new(by_addr);
    Collect::trace(v, &mut r2);
    let direct = r2.sorted();
    Obs { needs_trace: T::NEEDS_TRACE, reported, direct, unknown }
}

pub fn observe<'gc, T: Collect<'gc> + ?Sized>(p: &Ptrs<'gc>, v: &T) -> Obs {
    observe_with(&p.by_addr, v)
}

pub fn show(l: &[(usize, bool)]) -> String {
    let items: Vec<String> = l.iter().map(|(i, w)| format!("{}:{}", i, if *w { "w" } else { "s" })).collect();
    format!("[{}]", items.join(","))
}

/// Result of the end-to-end survival run of a case: the value is the arena root (together with
/// the weak observers), every other reference is dropped, two full cycles run.
pub struct Surv {
    /// allocations reachable from the value through strong pointers
    pub observed: usize,
    /// of those, how many had been destructed after the two cycles (must be 0)
    pub destructed: usize,
    /// `DropTok` payloads of strongly reachable nodes / how many were destructed (must be 0)
    pub tokens: usize,
    pub tokens_dropped: usize,
    /// an unreferenced allocation made in the same arena was collected (the run is not vacuous)
    pub garbage_collected: bool,
}

pub trait HasObs<'gc> {
    fn observers(&self) -> &[GcWeak<'gc, ()>];
}
impl<'gc, T> HasObs<'gc> for (T, Vec<GcWeak<'gc, ()>>) {
    fn observers(&self) -> &[GcWeak<'gc, ()>] {
        &self.1
    }
}

pub fn survive<R>(build: impl for<'gc> FnOnce(&'gc Mutation<'gc>) -> Root<'gc, R>) -> Surv
where
    R: for<'a> Rootable<'a>,
    for<'a> Root<'a, R>: Collect<'a> + Sized + HasObs<'a>,
{
    TOKS.with(|t| t.borrow_mut().clear());
    let garbage = Rc::new(Cell::new(false));
    let g2 = garbage.clone();
    let mut arena = Arena::<R>::new(move |mc| {
        let _unrooted = Gc::new_static(mc, DropTok(Some(g2)));
        build(mc)
    });
    arena.finish_cycle();
    arena.finish_cycle();
    let (observed, destructed) = arena.mutate(|_, root| {
        let o = root.observers();
        (o.len(), o.iter().filter(|w| w.is_dropped()).count())
    });
    let (tokens, tokens_dropped) = TOKS.with(|t| {
        let t = t.borrow();
        (t.len(), t.iter().filter(|f| f.get()).count())
    });
    let garbage_collected = garbage.get();
    drop(arena);
    Surv { observed, destructed, tokens, tokens_dropped, garbage_collected }
}

pub struct Case {
    pub name: &'static str,
    pub ty: &'static str,
    pub val: &'static str,
    pub src: &'static str,
    pub nptrs: usize,
    pub run: Option<for<'gc> fn(&'gc Mutation<'gc>) -> Obs>,
    pub survive: Option<fn() -> Surv>,
    /// cases without a finite value: only the NEEDS_TRACE constant
    pub nt: Option<for<'gc> fn(&'gc Mutation<'gc>) -> bool>,
}
