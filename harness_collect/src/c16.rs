//! C16, dynamic half: every provided `Collect` impl x type-parameter position x {Gc, GcWeak} x
//! sizes {0, 1, 2, many} x element position, through the recording tracer (`Trace::trace`, so the
//! `NEEDS_TRACE` short-circuit is exercised), plus one end-to-end survival run per container kind.
//!
//! Output, one line per case:
//!   c16 <impl> <param-pos> <ptr-kind> <size> <elem-pos> inserted=[..] reported=[..] needs_trace=<b> verdict=<ok|FAIL:reason>
//!   c16-static <type> needs_trace=<b> reported=[..] verdict=.. [note=..]  (pointer-free types: nothing may be reported)
//!   c16-survive <kind> alive=<n>/<n> garbage_collected=<b> verdict=..
//!   c16-summary cases=<n> fails=<n> survive=<n> features=<list>
//!
//! Element flavours: `P` (every element is a distinct pointer; elem-pos = all) and `Option<P>`
//! (exactly one element, at elem-pos = i, holds the pointer).  Keys of ordered / hashed
//! containers are wrapped in `Key<T>` (ordered / hashed by an integer; its `Collect` impl forwards
//! to `T` through `Trace::trace`).
use crate::rec::*;
use gc_arena::collect::{DynCollect, Trace};
use gc_arena::lock::{Lock, OnceLock, RefLock};
use gc_arena::{Arena, Collect, DynamicRootSet, Gc, GcWeak, Mutation, Rootable, Static};
use std::cell::Cell;
use std::collections::{BTreeMap, BTreeSet, BinaryHeap, LinkedList, VecDeque};
use std::marker::PhantomData;
use std::rc::Rc;
use std::sync::Arc;

pub struct Cx<'gc> {
    pub mc: &'gc Mutation<'gc>,
    pub cases: usize,
    pub fails: usize,
}

/// Key wrapper: ordered / hashed by `.0`, traces `.1`.
#[derive(Clone, Copy)]
pub struct Key<T>(pub u32, pub T);
impl<T> PartialEq for Key<T> {
    fn eq(&self, o: &Self) -> bool {
        self.0 == o.0
    }
}
impl<T> Eq for Key<T> {}
impl<T> PartialOrd for Key<T> {
    fn partial_cmp(&self, o: &Self) -> Option<std::cmp::Ordering> {
        Some(self.0.cmp(&o.0))
    }
}
impl<T> Ord for Key<T> {
    fn cmp(&self, o: &Self) -> std::cmp::Ordering {
        self.0.cmp(&o.0)
    }
}
impl<T> std::hash::Hash for Key<T> {
    fn hash<H: std::hash::Hasher>(&self, h: &mut H) {
        self.0.hash(h)
    }
}
unsafe impl<'gc, T: Collect<'gc>> Collect<'gc> for Key<T> {
    const NEEDS_TRACE: bool = T::NEEDS_TRACE;
    fn trace<C: Trace<'gc>>(&self, cc: &mut C) {
        cc.trace(&self.1)
    }
}

/// The four element flavours.
pub trait Elem<'gc>: Collect<'gc> + Copy + Sized + 'gc {
    const KIND: &'static str;
    const WEAK: bool;
    const OPTIONAL: bool;
    fn ptr(p: &mut Ptrs<'gc>, id: usize) -> Self;
    fn empty() -> Self;
}
impl<'gc> Elem<'gc> for Gc<'gc, Tok> {
    const KIND: &'static str = "gc";
    const WEAK: bool = false;
    const OPTIONAL: bool = false;
    fn ptr(p: &mut Ptrs<'gc>, id: usize) -> Self {
        p.gt(id)
    }
    fn empty() -> Self {
        unreachable!()
    }
}
impl<'gc> Elem<'gc> for GcWeak<'gc, Tok> {
    const KIND: &'static str = "weak";
    const WEAK: bool = true;
    const OPTIONAL: bool = false;
    fn ptr(p: &mut Ptrs<'gc>, id: usize) -> Self {
        p.wt(id)
    }
    fn empty() -> Self {
        unreachable!()
    }
}
impl<'gc> Elem<'gc> for Option<Gc<'gc, Tok>> {
    const KIND: &'static str = "gc";
    const WEAK: bool = false;
    const OPTIONAL: bool = true;
    fn ptr(p: &mut Ptrs<'gc>, id: usize) -> Self {
        Some(p.gt(id))
    }
    fn empty() -> Self {
        None
    }
}
impl<'gc> Elem<'gc> for Option<GcWeak<'gc, Tok>> {
    const KIND: &'static str = "weak";
    const WEAK: bool = true;
    const OPTIONAL: bool = true;
    fn ptr(p: &mut Ptrs<'gc>, id: usize) -> Self {
        Some(p.wt(id))
    }
    fn empty() -> Self {
        None
    }
}

const SIZES: &[usize] = &[0, 1, 2, 5];

impl<'gc> Cx<'gc> {
    /// Observe `c` through the recording tracer and print the case line.
    pub fn report<C: Collect<'gc> + ?Sized>(
        &mut self,
        name: &str,
        ppos: &str,
        kind: &str,
        size: usize,
        epos: &str,
        p: &Ptrs<'gc>,
        c: &C,
        mut inserted: Vec<(usize, bool)>,
        expect_needs: Option<bool>,
    ) {
        inserted.sort();
        let obs = observe(p, c);
        let mut why: Vec<String> = vec![];
        if obs.reported != inserted {
            let missing: Vec<String> = inserted
                .iter()
                .filter(|x| !obs.reported.iter().any(|y| y.0 == x.0))
                .map(|x| x.0.to_string())
                .collect();
            let extra: Vec<String> = obs
                .reported
                .iter()
                .filter(|x| !inserted.iter().any(|y| y.0 == x.0))
                .map(|x| x.0.to_string())
                .collect();
            let kindw: Vec<String> = inserted
                .iter()
                .filter(|x| obs.reported.iter().any(|y| y.0 == x.0 && y.1 != x.1))
                .map(|x| x.0.to_string())
                .collect();
            if !missing.is_empty() {
                why.push(format!("not-reported:{}", missing.join("+")));
            }
            if !extra.is_empty() {
                why.push(format!("extra:{}", extra.join("+")));
            }
            if !kindw.is_empty() {
                why.push(format!("wrong-kind:{}", kindw.join("+")));
            }
            if why.is_empty() {
                why.push("multiplicity".into());
            }
        }
        if obs.unknown != 0 {
            why.push(format!("unknown-pointers:{}", obs.unknown));
        }
        if let Some(e) = expect_needs {
            if e && !obs.needs_trace {
                why.push("needs_trace-false-with-pointer-parameter".into());
            }
        }
        if !obs.needs_trace && !inserted.is_empty() {
            why.push("needs_trace-false-but-holds-pointers".into());
        }
        if obs.needs_trace && obs.direct != inserted {
            why.push(format!("collect-trace-direct={}", show(&obs.direct)));
        }
        self.cases += 1;
        let verdict = if why.is_empty() {
            "ok".to_string()
        } else {
            self.fails += 1;
            format!("FAIL:{}", why.join(","))
        };
        println!(
            "c16 {} {} {} {} {} inserted={} reported={} needs_trace={} verdict={}",
            name,
            ppos,
            kind,
            size,
            epos,
            show(&inserted),
            show(&obs.reported),
            obs.needs_trace,
            verdict
        );
    }

    /// The size x element-position grid for one impl, one parameter position, one element flavour.
    pub fn grid<T: Elem<'gc>, I, C: Collect<'gc>>(
        &mut self,
        name: &str,
        ppos: usize,
        sizes: &[usize],
        mk: impl Fn(usize, T) -> I,
        build: impl Fn(&'gc Mutation<'gc>, Vec<I>) -> C,
    ) {
        for &n in sizes {
            if !T::OPTIONAL {
                let mut p = Ptrs::new(self.mc);
                let mut ins = vec![];
                let items: Vec<I> = (0..n)
                    .map(|i| {
                        ins.push((i + 1, T::WEAK));
                        mk(i, T::ptr(&mut p, i + 1))
                    })
                    .collect();
                let c = build(self.mc, items);
                self.report(name, &ppos.to_string(), T::KIND, n, "all", &p, &c, ins, Some(true));
            } else {
                for pos in 0..n {
                    let mut p = Ptrs::new(self.mc);
                    let items: Vec<I> =
                        (0..n).map(|i| mk(i, if i == pos { T::ptr(&mut p, i + 1) } else { T::empty() })).collect();
                    let c = build(self.mc, items);
                    self.report(name, &ppos.to_string(), T::KIND, n, &pos.to_string(), &p, &c, vec![(pos + 1, T::WEAK)], Some(true));
                }
            }
        }
    }

    /// Pointer-free types: impls that claim no tracing is needed, and pointer-free instantiations
    /// of tracing impls.  Nothing may be reported.  `NEEDS_TRACE = true` here is NOT a violation of
    /// C16 (only a missed optimisation), it is printed as a note.
    fn statik<C: Collect<'gc> + ?Sized>(&mut self, name: &str, c: &C) {
        let p = Ptrs::new(self.mc);
        let obs = observe(&p, c);
        self.cases += 1;
        let ok = obs.reported.is_empty() && obs.direct.is_empty() && obs.unknown == 0;
        if !ok {
            self.fails += 1;
        }
        println!(
            "c16-static {} needs_trace={} reported={} unknown={} verdict={}{}",
            name,
            obs.needs_trace,
            show(&obs.reported),
            obs.unknown,
            if ok { "ok" } else { "FAIL:pointer-free-value-reports-pointers" },
            if obs.needs_trace { " note=needs_trace-true-for-pointer-free-type" } else { "" }
        );
    }
}

macro_rules! flavours {
    ($cx:expr, $f:ident) => {{
        $f::<Gc<'gc, Tok>>($cx);
        $f::<GcWeak<'gc, Tok>>($cx);
        $f::<Option<Gc<'gc, Tok>>>($cx);
        $f::<Option<GcWeak<'gc, Tok>>>($cx);
    }};
}

// ------------------------------------------------------------------------------------ std / alloc
fn t_vec<'gc, T: Elem<'gc>>(cx: &mut Cx<'gc>) {
    cx.grid::<T, T, Vec<T>>("Vec", 0, SIZES, |_, t| t, |_, v| v);
}
fn t_boxed_slice<'gc, T: Elem<'gc>>(cx: &mut Cx<'gc>) {
    cx.grid::<T, T, Box<[T]>>("Box<[T]>", 0, SIZES, |_, t| t, |_, v| v.into_boxed_slice());
    cx.grid::<T, T, Rc<[T]>>("Rc<[T]>", 0, SIZES, |_, t| t, |_, v| Rc::from(v));
}
fn t_vecdeque<'gc, T: Elem<'gc>>(cx: &mut Cx<'gc>) {
    cx.grid::<T, T, VecDeque<T>>("VecDeque", 0, SIZES, |_, t| t, |_, v| {
        // make the ring buffer wrap around
        let mut d = VecDeque::with_capacity(v.len().max(1));
        let n = v.len();
        for (i, x) in v.into_iter().enumerate() {
            if i < n / 2 { d.push_front(x) } else { d.push_back(x) }
        }
        d
    });
}
fn t_linkedlist<'gc, T: Elem<'gc>>(cx: &mut Cx<'gc>) {
    cx.grid::<T, T, LinkedList<T>>("LinkedList", 0, SIZES, |_, t| t, |_, v| v.into_iter().collect());
}
fn t_binaryheap<'gc, T: Elem<'gc>>(cx: &mut Cx<'gc>) {
    cx.grid::<T, Key<T>, BinaryHeap<Key<T>>>("BinaryHeap", 0, SIZES, |i, t| Key(i as u32, t), |_, v| v.into_iter().collect());
}
fn t_btreeset<'gc, T: Elem<'gc>>(cx: &mut Cx<'gc>) {
    cx.grid::<T, Key<T>, BTreeSet<Key<T>>>("BTreeSet", 0, SIZES, |i, t| Key(i as u32, t), |_, v| v.into_iter().collect());
}
fn t_btreemap<'gc, T: Elem<'gc>>(cx: &mut Cx<'gc>) {
    cx.grid::<T, (Key<T>, u8), BTreeMap<Key<T>, u8>>("BTreeMap", 0, SIZES, |i, t| (Key(i as u32, t), 0), |_, v| v.into_iter().collect());
    cx.grid::<T, (u32, T), BTreeMap<u32, T>>("BTreeMap", 1, SIZES, |i, t| (i as u32, t), |_, v| v.into_iter().collect());
}
#[cfg(feature = "std")]
fn t_hashmap<'gc, T: Elem<'gc>>(cx: &mut Cx<'gc>) {
    use std::collections::{HashMap, HashSet};
    cx.grid::<T, (Key<T>, u8), HashMap<Key<T>, u8>>("HashMap", 0, SIZES, |i, t| (Key(i as u32, t), 0), |_, v| v.into_iter().collect());
    cx.grid::<T, (u32, T), HashMap<u32, T>>("HashMap", 1, SIZES, |i, t| (i as u32, t), |_, v| v.into_iter().collect());
    cx.grid::<T, Key<T>, HashSet<Key<T>>>("HashSet", 0, SIZES, |i, t| Key(i as u32, t), |_, v| v.into_iter().collect());
}
fn t_option<'gc, T: Elem<'gc>>(cx: &mut Cx<'gc>) {
    cx.grid::<T, T, Option<T>>("Option", 0, &[0, 1], |_, t| t, |_, v| v.into_iter().next());
}
fn t_result<'gc, T: Elem<'gc>>(cx: &mut Cx<'gc>) {
    cx.grid::<T, T, Result<T, u8>>("Result", 0, &[0, 1], |_, t| t, |_, v| v.into_iter().next().ok_or(7u8));
    cx.grid::<T, T, Result<u8, T>>("Result", 1, &[0, 1], |_, t| t, |_, v| match v.into_iter().next() {
        Some(t) => Err(t),
        None => Ok(7u8),
    });
}
fn t_boxes<'gc, T: Elem<'gc>>(cx: &mut Cx<'gc>) {
    cx.grid::<T, T, Box<T>>("Box", 0, &[1], |_, t| t, |_, v| Box::new(v[0]));
    cx.grid::<T, T, Rc<T>>("Rc", 0, &[1], |_, t| t, |_, v| Rc::new(v[0]));
    cx.grid::<T, T, Arc<T>>("Arc", 0, &[1], |_, t| t, |_, v| Arc::new(v[0]));
    cx.grid::<T, T, RefLock<T>>("RefLock", 0, &[1], |_, t| t, |_, v| RefLock::new(v[0]));
    cx.grid::<T, T, Lock<T>>("Lock", 0, &[1], |_, t| t, |_, v| Lock::new(v[0]));
    cx.grid::<T, T, OnceLock<T>>("OnceLock", 0, &[0, 1], |_, t| t, |_, v| match v.into_iter().next() {
        Some(t) => OnceLock::from(std::cell::OnceCell::from(t)),
        None => OnceLock::new(),
    });
    // unsized pointees of the smart pointers / locks
    cx.grid::<T, T, Box<RefLock<[T]>>>("RefLock<[T]>", 0, &[2], |_, t| t, |_, v| Box::new(RefLock::new([v[0], v[1]])) as Box<RefLock<[T]>>);
}
fn t_arrays<'gc, T: Elem<'gc>>(cx: &mut Cx<'gc>) {
    fn arr<T: Copy, const N: usize>(v: Vec<T>) -> [T; N] {
        <[T; N]>::try_from(v).unwrap_or_else(|_| panic!("array length"))
    }
    cx.grid::<T, T, [T; 0]>("[T;N]", 0, &[0], |_, t| t, |_, v| arr(v));
    cx.grid::<T, T, [T; 1]>("[T;N]", 0, &[1], |_, t| t, |_, v| arr(v));
    cx.grid::<T, T, [T; 2]>("[T;N]", 0, &[2], |_, t| t, |_, v| arr(v));
    cx.grid::<T, T, [T; 5]>("[T;N]", 0, &[5], |_, t| t, |_, v| arr(v));
}
fn t_slice_with_header<'gc, T: Elem<'gc>>(cx: &mut Cx<'gc>) {
    use gc_arena::GcSliceWithHeaderBuilder;
    // header position (slice of u8 of several lengths), element position (header u8)
    for &len in SIZES {
        cx.grid::<T, T, Holder<gc_arena::GcSliceWithHeader<'gc, T, u8>>>("SliceWithHeader", 0, &[1], |_, t| t, |mc, v| {
            Holder(GcSliceWithHeaderBuilder::<T, u8>::new(len).write_header(v[0]).write_slice_with(mc, |i| i as u8))
        });
    }
    cx.grid::<T, T, Holder<gc_arena::GcSliceWithHeader<'gc, u8, T>>>("SliceWithHeader", 1, SIZES, |_, t| t, |mc, v| {
        Holder(GcSliceWithHeaderBuilder::<u8, T>::new(v.len()).write_header(9u8).write_slice_with(mc, |i| v[i]))
    });
    cx.grid::<T, T, Holder<gc_arena::GcSlice<'gc, T>>>("GcSlice/[T]", 0, SIZES, |_, t| t, |mc, v| Holder(gc_arena::GcSlice::new_slice(mc, &v)));
}

/// Traces the POINTEE of a `Gc` through `Trace::trace` (what the collector does when it marks the
/// object), so that the unsized `SliceWithHeader<H, E>` / `[E]` impls are observed directly.
pub struct Holder<G>(pub G);
unsafe impl<'gc, T: ?Sized + Collect<'gc> + 'gc, K: gc_arena::gc::IsGcKind<'gc, T>> Collect<'gc> for Holder<Gc<'gc, T, K>> {
    const NEEDS_TRACE: bool = T::NEEDS_TRACE;
    fn trace<C: Trace<'gc>>(&self, cc: &mut C) {
        cc.trace::<T>(&*self.0)
    }
}

// ------------------------------------------------------------------------------------ optional crates
#[cfg(feature = "hashbrown")]
fn t_hashbrown<'gc, T: Elem<'gc>>(cx: &mut Cx<'gc>) {
    use std::hash::{BuildHasher, RandomState};
    type S = RandomState;
    cx.grid::<T, (Key<T>, u8), hashbrown::HashMap<Key<T>, u8, S>>("hashbrown::HashMap", 0, SIZES, |i, t| (Key(i as u32, t), 0), |_, v| {
        let mut m = hashbrown::HashMap::with_hasher(S::new());
        m.extend(v);
        m
    });
    cx.grid::<T, (u32, T), hashbrown::HashMap<u32, T, S>>("hashbrown::HashMap", 1, SIZES, |i, t| (i as u32, t), |_, v| {
        let mut m = hashbrown::HashMap::with_hasher(S::new());
        m.extend(v);
        m
    });
    cx.grid::<T, Key<T>, hashbrown::HashSet<Key<T>, S>>("hashbrown::HashSet", 0, SIZES, |i, t| Key(i as u32, t), |_, v| {
        let mut m = hashbrown::HashSet::with_hasher(S::new());
        m.extend(v);
        m
    });
    cx.grid::<T, Key<T>, hashbrown::HashTable<Key<T>>>("hashbrown::HashTable", 0, SIZES, |i, t| Key(i as u32, t), |_, v| {
        let s = S::new();
        let mut m = hashbrown::HashTable::new();
        for k in v {
            m.insert_unique(s.hash_one(k.0), k, |x| s.hash_one(x.0));
        }
        m
    });
}
#[cfg(feature = "indexmap")]
fn t_indexmap<'gc, T: Elem<'gc>>(cx: &mut Cx<'gc>) {
    use std::hash::RandomState;
    type S = RandomState;
    cx.grid::<T, (Key<T>, u8), indexmap::IndexMap<Key<T>, u8, S>>("IndexMap", 0, SIZES, |i, t| (Key(i as u32, t), 0), |_, v| {
        let mut m = indexmap::IndexMap::with_hasher(S::new());
        m.extend(v);
        m
    });
    cx.grid::<T, (u32, T), indexmap::IndexMap<u32, T, S>>("IndexMap", 1, SIZES, |i, t| (i as u32, t), |_, v| {
        let mut m = indexmap::IndexMap::with_hasher(S::new());
        m.extend(v);
        m
    });
    cx.grid::<T, Key<T>, indexmap::IndexSet<Key<T>, S>>("IndexSet", 0, SIZES, |i, t| Key(i as u32, t), |_, v| {
        let mut m = indexmap::IndexSet::with_hasher(S::new());
        m.extend(v);
        m
    });
}
#[cfg(feature = "slotmap")]
fn t_slotmap<'gc, T: Elem<'gc>>(cx: &mut Cx<'gc>) {
    cx.grid::<T, T, slotmap::SlotMap<slotmap::DefaultKey, T>>("SlotMap", 1, SIZES, |_, t| t, |_, v| {
        let mut m = slotmap::SlotMap::new();
        // leave a vacant slot in the middle so that iteration has to skip it
        let mut hole = None;
        for (i, x) in v.iter().enumerate() {
            if i == 1 {
                hole = Some(m.insert(v[0]));
            }
            m.insert(*x);
        }
        if let Some(h) = hole {
            m.remove(h);
        }
        m
    });
}
#[cfg(feature = "smallvec")]
fn t_smallvec<'gc, T: Elem<'gc>>(cx: &mut Cx<'gc>) {
    // sizes 0..2 stay inline, 5 spills to the heap
    cx.grid::<T, T, smallvec::SmallVec<[T; 2]>>("SmallVec", 0, SIZES, |_, t| t, |_, v| v.into_iter().collect());
}
#[cfg(feature = "enum-map")]
mod em {
    use enum_map::Enum;
    #[derive(Enum, Clone, Copy)]
    pub enum E1 {
        A,
    }
    #[derive(Enum, Clone, Copy)]
    pub enum E2 {
        A,
        B,
    }
    #[derive(Enum, Clone, Copy)]
    pub enum E5 {
        A,
        B,
        C,
        D,
        E,
    }
}
#[cfg(feature = "enum-map")]
fn t_enummap<'gc, T: Elem<'gc>>(cx: &mut Cx<'gc>) {
    use enum_map::EnumMap;
    cx.grid::<T, T, EnumMap<em::E1, T>>("EnumMap", 1, &[1], |_, t| t, |_, v| {
        let mut it = v.into_iter();
        EnumMap::from_fn(|_| it.next().unwrap())
    });
    cx.grid::<T, T, EnumMap<em::E2, T>>("EnumMap", 1, &[2], |_, t| t, |_, v| {
        let mut it = v.into_iter();
        EnumMap::from_fn(|_| it.next().unwrap())
    });
    cx.grid::<T, T, EnumMap<em::E5, T>>("EnumMap", 1, &[5], |_, t| t, |_, v| {
        let mut it = v.into_iter();
        EnumMap::from_fn(|_| it.next().unwrap())
    });
}

include!(concat!(env!("OUT_DIR"), "/tuples.rs"));

// ------------------------------------------------------------------------------------ pointers, roots, static impls
fn t_pointers<'gc>(cx: &mut Cx<'gc>) {
    // Gc<T> / GcWeak<T> report THEMSELVES (strong / weak) and do not look into the pointee
    {
        let mut p = Ptrs::new(cx.mc);
        let inner = p.gt(2);
        let outer = Gc::new(cx.mc, inner);
        p.register(Gc::as_ptr(outer) as usize, 1);
        cx.report("Gc", "self", "gc", 1, "0", &p, &outer, vec![(1, false)], Some(true));
        let w = Gc::downgrade(outer);
        cx.report("GcWeak", "self", "weak", 1, "0", &p, &w, vec![(1, true)], Some(true));
    }
    // fat / thin kinds and unsized pointees
    {
        let mut p = Ptrs::new(cx.mc);
        let e = p.gt(2);
        let s = gc_arena::GcSlice::new_slice(cx.mc, &[e]);
        p.register(Gc::as_ptr(s) as *const () as usize, 1);
        cx.report("Gc<[T]>(GcSlice)", "self", "gc", 1, "0", &p, &s, vec![(1, false)], Some(true));
        let thin = Gc::as_thin(s);
        cx.report("GcThin<[T]>", "self", "gc", 1, "0", &p, &thin, vec![(1, false)], Some(true));
        let w = Gc::downgrade(s);
        cx.report("GcWeak<[T]>", "self", "weak", 1, "0", &p, &w, vec![(1, true)], Some(true));
    }
    // ZstCache reports its cached pointer
    {
        let mut p = Ptrs::new(cx.mc);
        let z = gc_arena::zst_cache::ZstCache::<8>::new(cx.mc);
        p.register(Gc::as_ptr(z.cached_ptr()) as usize, 1);
        cx.report("ZstCache", "self", "gc", 1, "0", &p, &z, vec![(1, false)], Some(true));
    }
    // DynamicRootSet reports exactly its one (private) inner pointer
    {
        let p = Ptrs::new(cx.mc);
        let set = DynamicRootSet::new(cx.mc);
        let obs = observe(&p, &set);
        cx.cases += 1;
        let ok = obs.needs_trace && obs.unknown == 1 && obs.reported.is_empty();
        if !ok {
            cx.fails += 1;
        }
        println!(
            "c16 DynamicRootSet self gc 1 0 inserted=[inner:s] reported=[unknown x{}] needs_trace={} verdict={}",
            obs.unknown,
            obs.needs_trace,
            if ok { "ok" } else { "FAIL:expected-exactly-its-inner-pointer" }
        );
    }
}

fn t_static<'gc>(cx: &mut Cx<'gc>) {
    let mut p = Ptrs::new(cx.mc);
    let g = p.gt(1);
    // impls that claim no tracing is needed: pointer-free by construction (ZST / 'static bound)
    cx.statik("()", &());
    cx.statik("PhantomData<Gc>", &PhantomData::<Gc<'gc, Tok>>);
    let _ = g;
    cx.statik("bool", &true);
    cx.statik("char", &'c');
    cx.statik("u8", &1u8);
    cx.statik("u16", &1u16);
    cx.statik("u32", &1u32);
    cx.statik("u64", &1u64);
    cx.statik("usize", &1usize);
    cx.statik("i8", &1i8);
    cx.statik("i16", &1i16);
    cx.statik("i32", &1i32);
    cx.statik("i64", &1i64);
    cx.statik("isize", &1isize);
    cx.statik("f32", &1f32);
    cx.statik("f64", &1f64);
    cx.statik("String", &String::from("x"));
    cx.statik::<str>("str", "x");
    cx.statik("CString", &std::ffi::CString::new("x").unwrap());
    cx.statik::<std::ffi::CStr>("CStr", c"x");
    cx.statik("TypeId", &std::any::TypeId::of::<u8>());
    #[cfg(feature = "std")]
    {
        cx.statik::<std::path::Path>("Path", std::path::Path::new("x"));
        cx.statik("PathBuf", &std::path::PathBuf::from("x"));
        cx.statik::<std::ffi::OsStr>("OsStr", std::ffi::OsStr::new("x"));
        cx.statik("OsString", &std::ffi::OsString::from("x"));
    }
    cx.statik("&'static T", &"x");
    cx.statik("Static<T>", &Static(NotCollect(3)));
    cx.statik("Cell<T:'static>", &Cell::new(NotCollect(3)));
    cx.statik("RefCell<T:'static>", &std::cell::RefCell::new(NotCollect(3)));
    // `dyn DynCollect<'gc>` is `Collect` only as `dyn DynCollect<'gc> + 'static`, so it cannot hold
    // arena pointers; its NEEDS_TRACE is the default `true`, which is allowed
    {
        let b: Box<dyn DynCollect<'gc>> = Box::new(vec![1u8]);
        let p2 = Ptrs::new(cx.mc);
        cx.report("Box<dyn DynCollect+'static>", "-", "none", 1, "-", &p2, &b, vec![], None);
    }
    // pointer-free instantiations of tracing impls: NEEDS_TRACE must be false (the optimisation
    // the short-circuit exists for) and nothing may be reported
    cx.statik("Vec<u8>", &vec![1u8]);
    cx.statik("Option<u8>", &Some(1u8));
    cx.statik("Result<u8,u8>", &Ok::<u8, u8>(1));
    cx.statik("Box<u8>", &Box::new(1u8));
    cx.statik("Rc<u8>", &Rc::new(1u8));
    cx.statik("Arc<u8>", &Arc::new(1u8));
    cx.statik("[u8;2]", &[1u8, 2]);
    cx.statik::<[u8]>("[u8]", &[1u8, 2][..]);
    cx.statik("VecDeque<u8>", &VecDeque::from(vec![1u8]));
    cx.statik("LinkedList<u8>", &LinkedList::from([1u8]));
    cx.statik("BinaryHeap<u8>", &BinaryHeap::from(vec![1u8]));
    cx.statik("BTreeMap<u8,u8>", &BTreeMap::from([(1u8, 1u8)]));
    cx.statik("BTreeSet<u8>", &BTreeSet::from([1u8]));
    #[cfg(feature = "std")]
    {
        cx.statik("HashMap<u8,u8>", &std::collections::HashMap::from([(1u8, 1u8)]));
        cx.statik("HashSet<u8>", &std::collections::HashSet::from([1u8]));
    }
    cx.statik("Lock<u8>", &Lock::new(1u8));
    cx.statik("RefLock<u8>", &RefLock::new(1u8));
    cx.statik("OnceLock<u8>", &OnceLock::<u8>::new());
    #[cfg(feature = "hashbrown")]
    {
        let mut m = hashbrown::HashMap::with_hasher(std::hash::RandomState::new());
        m.insert(1u8, 1u8);
        cx.statik("hashbrown::HashMap<u8,u8>", &m);
        cx.statik("hashbrown::HashTable<u8>", &hashbrown::HashTable::<u8>::new());
    }
    #[cfg(feature = "indexmap")]
    {
        let mut m = indexmap::IndexMap::with_hasher(std::hash::RandomState::new());
        m.insert(1u8, 1u8);
        cx.statik("IndexMap<u8,u8>", &m);
    }
    #[cfg(feature = "slotmap")]
    {
        let mut m = slotmap::SlotMap::<slotmap::DefaultKey, u8>::new();
        m.insert(1);
        cx.statik("SlotMap<_,u8>", &m);
    }
    #[cfg(feature = "smallvec")]
    {
        let v: smallvec::SmallVec<[u8; 2]> = smallvec::SmallVec::from_slice(&[1, 2, 3]);
        cx.statik("SmallVec<[u8;2]>", &v);
    }
    #[cfg(feature = "enum-map")]
    {
        let m: enum_map::EnumMap<em::E2, u8> = enum_map::EnumMap::from_fn(|_| 1u8);
        cx.statik("EnumMap<_,u8>", &m);
    }
}

pub struct NotCollect(pub u8);

// ------------------------------------------------------------------------------------ survival
type Flags = Rc<std::cell::RefCell<Vec<Rc<Cell<bool>>>>>;

fn tok<'gc>(mc: &Mutation<'gc>, flags: &Flags, id: u32) -> Gc<'gc, Tok> {
    let f = Rc::new(Cell::new(false));
    flags.borrow_mut().push(f.clone());
    Gc::new_static(mc, Tok { id, dropped: Some(f) })
}

struct Survive {
    runs: usize,
    fails: usize,
}

impl Survive {
    /// Store the container in the arena root, drop every other reference, run two full cycles,
    /// then check (drop flags) that every pointee stored STRONGLY is still alive and that an
    /// unreferenced allocation made at the same time was collected (the run is not vacuous).
    fn run<R>(&mut self, name: &str, build: impl for<'gc> FnOnce(&'gc Mutation<'gc>, &mut dyn FnMut(u32) -> Gc<'gc, Tok>) -> gc_arena::arena::Root<'gc, R>)
    where
        R: for<'a> Rootable<'a>,
        for<'a> gc_arena::arena::Root<'a, R>: Collect<'a> + Sized,
    {
        let flags: Flags = Rc::new(std::cell::RefCell::new(vec![]));
        let garbage: Flags = Rc::new(std::cell::RefCell::new(vec![]));
        let mut arena = Arena::<R>::new(|mc| {
            let _g = tok(mc, &garbage, 999);
            let fl = flags.clone();
            let mut next = move |id: u32| tok(mc, &fl, id);
            build(mc, &mut next)
        });
        arena.finish_cycle();
        arena.finish_cycle();
        let total = flags.borrow().len();
        let alive = flags.borrow().iter().filter(|f| !f.get()).count();
        let garbage_collected = garbage.borrow().iter().all(|f| f.get());
        let ok = alive == total && total > 0 && garbage_collected;
        self.runs += 1;
        if !ok {
            self.fails += 1;
        }
        println!(
            "c16-survive {} alive={}/{} garbage_collected={} verdict={}",
            name,
            alive,
            total,
            garbage_collected,
            if ok { "ok" } else if alive != total { "FAIL:stored-pointee-was-freed" } else { "FAIL:vacuous" }
        );
        drop(arena);
    }
}

type G<'gc> = Gc<'gc, Tok>;

fn survival(s: &mut Survive) {
    s.run::<Rootable![Option<G<'_>>]>("Option", |_, t| Some(t(1)));
    s.run::<Rootable![Result<G<'_>, u8>]>("Result::Ok", |_, t| Ok(t(1)));
    s.run::<Rootable![Result<u8, G<'_>>]>("Result::Err", |_, t| Err(t(1)));
    s.run::<Rootable![(u8, G<'_>, u8, G<'_>)]>("tuple4", |_, t| (0, t(1), 0, t(2)));
    s.run::<Rootable![(u8, u8, u8, u8, u8, u8, G<'_>)]>("tuple7.last", |_, t| (0, 0, 0, 0, 0, 0, t(1)));
    s.run::<Rootable![(G<'_>, G<'_>, G<'_>, G<'_>, G<'_>, G<'_>, G<'_>, G<'_>, G<'_>, G<'_>, G<'_>, G<'_>, G<'_>, G<'_>, G<'_>, G<'_>)]>(
        "tuple16",
        |_, t| (t(1), t(2), t(3), t(4), t(5), t(6), t(7), t(8), t(9), t(10), t(11), t(12), t(13), t(14), t(15), t(16)),
    );
    s.run::<Rootable![[G<'_>; 3]]>("[T;N]", |_, t| [t(1), t(2), t(3)]);
    s.run::<Rootable![Box<[G<'_>]>]>("Box<[T]>", |_, t| vec![t(1), t(2)].into_boxed_slice());
    s.run::<Rootable![Box<G<'_>>]>("Box", |_, t| Box::new(t(1)));
    s.run::<Rootable![Rc<G<'_>>]>("Rc", |_, t| Rc::new(t(1)));
    s.run::<Rootable![Arc<G<'_>>]>("Arc", |_, t| Arc::new(t(1)));
    s.run::<Rootable![Vec<G<'_>>]>("Vec", |_, t| vec![t(1), t(2), t(3)]);
    s.run::<Rootable![VecDeque<G<'_>>]>("VecDeque", |_, t| {
        let mut d = VecDeque::new();
        d.push_back(t(1));
        d.push_front(t(2));
        d.push_back(t(3));
        d
    });
    s.run::<Rootable![LinkedList<G<'_>>]>("LinkedList", |_, t| LinkedList::from([t(1), t(2)]));
    s.run::<Rootable![BinaryHeap<G<'_>>]>("BinaryHeap", |_, t| BinaryHeap::from(vec![t(1), t(2), t(3)]));
    s.run::<Rootable![BTreeMap<G<'_>, u8>]>("BTreeMap.key", |_, t| BTreeMap::from([(t(1), 0), (t(2), 0)]));
    s.run::<Rootable![BTreeMap<u8, G<'_>>]>("BTreeMap.value", |_, t| BTreeMap::from([(1, t(1)), (2, t(2))]));
    s.run::<Rootable![BTreeSet<G<'_>>]>("BTreeSet", |_, t| BTreeSet::from([t(1), t(2)]));
    #[cfg(feature = "std")]
    {
        use std::collections::{HashMap, HashSet};
        s.run::<Rootable![HashMap<G<'_>, u8>]>("HashMap.key", |_, t| HashMap::from([(t(1), 0), (t(2), 0)]));
        s.run::<Rootable![HashMap<u8, G<'_>>]>("HashMap.value", |_, t| HashMap::from([(1, t(1)), (2, t(2))]));
        s.run::<Rootable![HashSet<G<'_>>]>("HashSet", |_, t| HashSet::from([t(1), t(2)]));
    }
    s.run::<Rootable![Lock<G<'_>>]>("Lock", |_, t| Lock::new(t(1)));
    s.run::<Rootable![RefLock<G<'_>>]>("RefLock", |_, t| RefLock::new(t(1)));
    s.run::<Rootable![OnceLock<G<'_>>]>("OnceLock", |_, t| OnceLock::from(std::cell::OnceCell::from(t(1))));
    s.run::<Rootable![gc_arena::GcSliceWithHeader<'_, G<'_>, u8>]>("SliceWithHeader.header", |mc, t| {
        gc_arena::GcSliceWithHeaderBuilder::new(3).write_header(t(1)).write_slice_with(mc, |i| i as u8)
    });
    s.run::<Rootable![gc_arena::GcSliceWithHeader<'_, u8, G<'_>>]>("SliceWithHeader.slice", |mc, t| {
        gc_arena::GcSliceWithHeaderBuilder::new(3).write_header(1u8).write_slice_with(mc, |i| t(i as u32 + 1))
    });
    s.run::<Rootable![gc_arena::GcSlice<'_, G<'_>>]>("GcSlice", |mc, t| gc_arena::GcSlice::new_slice(mc, &[t(1), t(2)]));
    s.run::<Rootable![Gc<'_, G<'_>>]>("Gc<Gc>", |mc, t| Gc::new(mc, t(1)));
    #[cfg(feature = "hashbrown")]
    {
        type S = std::hash::RandomState;
        s.run::<Rootable![hashbrown::HashMap<G<'_>, u8, S>]>("hashbrown::HashMap.key", |_, t| {
            let mut m = hashbrown::HashMap::with_hasher(S::new());
            m.insert(t(1), 0);
            m.insert(t(2), 0);
            m
        });
        s.run::<Rootable![hashbrown::HashMap<u8, G<'_>, S>]>("hashbrown::HashMap.value", |_, t| {
            let mut m = hashbrown::HashMap::with_hasher(S::new());
            m.insert(1, t(1));
            m.insert(2, t(2));
            m
        });
        s.run::<Rootable![hashbrown::HashSet<G<'_>, S>]>("hashbrown::HashSet", |_, t| {
            let mut m = hashbrown::HashSet::with_hasher(S::new());
            m.insert(t(1));
            m.insert(t(2));
            m
        });
        s.run::<Rootable![hashbrown::HashTable<G<'_>>]>("hashbrown::HashTable", |_, t| {
            let mut m = hashbrown::HashTable::new();
            m.insert_unique(1, t(1), |x: &G<'_>| x.id as u64);
            m.insert_unique(2, t(2), |x: &G<'_>| x.id as u64);
            m
        });
    }
    #[cfg(feature = "indexmap")]
    {
        type S = std::hash::RandomState;
        s.run::<Rootable![indexmap::IndexMap<G<'_>, u8, S>]>("IndexMap.key", |_, t| {
            let mut m = indexmap::IndexMap::with_hasher(S::new());
            m.insert(t(1), 0);
            m.insert(t(2), 0);
            m
        });
        s.run::<Rootable![indexmap::IndexMap<u8, G<'_>, S>]>("IndexMap.value", |_, t| {
            let mut m = indexmap::IndexMap::with_hasher(S::new());
            m.insert(1, t(1));
            m.insert(2, t(2));
            m
        });
        s.run::<Rootable![indexmap::IndexSet<G<'_>, S>]>("IndexSet", |_, t| {
            let mut m = indexmap::IndexSet::with_hasher(S::new());
            m.insert(t(1));
            m.insert(t(2));
            m
        });
    }
    #[cfg(feature = "slotmap")]
    s.run::<Rootable![slotmap::SlotMap<slotmap::DefaultKey, G<'_>>]>("SlotMap", |_, t| {
        let mut m = slotmap::SlotMap::new();
        m.insert(t(1));
        m.insert(t(2));
        m
    });
    #[cfg(feature = "smallvec")]
    s.run::<Rootable![smallvec::SmallVec<[G<'_>; 2]>]>("SmallVec", |_, t| {
        let mut v = smallvec::SmallVec::new();
        v.push(t(1));
        v.push(t(2));
        v.push(t(3));
        v
    });
    #[cfg(feature = "enum-map")]
    s.run::<Rootable![enum_map::EnumMap<em::E2, G<'_>>]>("EnumMap", |_, t| {
        let mut i = 0;
        enum_map::EnumMap::from_fn(|_| {
            i += 1;
            t(i)
        })
    });
    // DynamicRootSet: a stashed root survives while its handle is held outside the arena
    {
        let flags: Flags = Rc::new(std::cell::RefCell::new(vec![]));
        let mut arena = Arena::<Rootable![DynamicRootSet<'_>]>::new(|mc| DynamicRootSet::new(mc));
        let handle = arena.mutate(|mc, set| set.stash::<Rootable![G<'_>]>(mc, Gc::new(mc, tok(mc, &flags, 1))));
        arena.finish_cycle();
        arena.finish_cycle();
        let alive = flags.borrow().iter().filter(|f| !f.get()).count();
        let ok1 = alive == 1;
        drop(handle);
        arena.finish_cycle();
        arena.finish_cycle();
        let after = flags.borrow().iter().filter(|f| !f.get()).count();
        let ok = ok1 && after == 0;
        s.runs += 1;
        if !ok {
            s.fails += 1;
        }
        println!(
            "c16-survive DynamicRootSet alive={}/1 garbage_collected={} verdict={}",
            alive,
            after == 0,
            if ok { "ok" } else if !ok1 { "FAIL:stored-pointee-was-freed" } else { "FAIL:vacuous" }
        );
    }
}

pub fn run_all() {
    let (cases, fails) = gc_arena::arena::rootless_mutate(|mc| {
        let mut cx = Cx { mc, cases: 0, fails: 0 };
        fn go<'gc>(cx: &mut Cx<'gc>) {
            flavours!(cx, t_vec);
            flavours!(cx, t_boxed_slice);
            flavours!(cx, t_vecdeque);
            flavours!(cx, t_linkedlist);
            flavours!(cx, t_binaryheap);
            flavours!(cx, t_btreeset);
            flavours!(cx, t_btreemap);
            #[cfg(feature = "std")]
            flavours!(cx, t_hashmap);
            flavours!(cx, t_option);
            flavours!(cx, t_result);
            flavours!(cx, t_boxes);
            flavours!(cx, t_arrays);
            flavours!(cx, t_slice_with_header);
            #[cfg(feature = "hashbrown")]
            flavours!(cx, t_hashbrown);
            #[cfg(feature = "indexmap")]
            flavours!(cx, t_indexmap);
            #[cfg(feature = "slotmap")]
            flavours!(cx, t_slotmap);
            #[cfg(feature = "smallvec")]
            flavours!(cx, t_smallvec);
            #[cfg(feature = "enum-map")]
            flavours!(cx, t_enummap);
            run_tuples(cx);
            t_pointers(cx);
            t_static(cx);
        }
        go(&mut cx);
        (cx.cases, cx.fails)
    });
    let mut s = Survive { runs: 0, fails: 0 };
    survival(&mut s);
    let mut feats: Vec<&str> = vec![];
    #[cfg(feature = "std")]
    feats.push("std");
    #[cfg(feature = "enum-map")]
    feats.push("enum-map");
    #[cfg(feature = "hashbrown")]
    feats.push("hashbrown");
    #[cfg(feature = "indexmap")]
    feats.push("indexmap");
    #[cfg(feature = "slotmap")]
    feats.push("slotmap");
    #[cfg(feature = "smallvec")]
    feats.push("smallvec");
    println!(
        "c16-summary cases={} fails={} survive={} survive_fails={} features={}",
        cases,
        fails,
        s.runs,
        s.fails,
        if feats.is_empty() { "none".to_string() } else { feats.join(",") }
    );
}
