//! gcverif-collect — differential harness for C15 and the dynamic half of C16.
//!
//!   gcverif-collect c15            one line per generated case:
//!        case <name> | <ty> | <val> | needs_trace=<b> reported=[..] direct=[..] unknown=<n>
//!        surv <name> observed:<n> destructed:<n> tokens:<n> tokens_dropped:<n> garbage:<b>   (second pass)
//!        ntcase <name> | <ty> | needs_trace=<b>        (types of which no finite value exists)
//!   gcverif-collect c15-stats      the generator's shape-distribution statistics
//!   gcverif-collect c15-src <name> the Rust source of a case (replay snippet)
//!   gcverif-collect c16            one line per container case + verdict lines (see c16.rs)
mod rec;
#[allow(clippy::all)]
mod shapes {
    use crate::rec::Case;
    include!(concat!(env!("OUT_DIR"), "/shapes.rs"));
}
mod c16;

use gc_arena::arena::rootless_mutate;

fn main() {
    let args: Vec<String> = std::env::args().collect();
    match args.get(1).map(|s| s.as_str()) {
        Some("c15") => {
            println!("# seed={} groups={} family={} cases={}", shapes::SEED, shapes::GROUPS, shapes::FAMILY, shapes::CASES.len());
            use std::io::Write;
            // pass 1: NEEDS_TRACE and the recorded trace of every case (no collection runs here)
            for c in shapes::CASES {
                if let Some(nt) = c.nt {
                    let b = rootless_mutate(|mc| nt(mc));
                    println!("ntcase {} | {} | needs_trace={}", c.name, c.ty, b);
                    continue;
                }
                let obs = rootless_mutate(|mc| (c.run.unwrap())(mc));
                println!(
                    "case {} | {} | {} | needs_trace={} reported={} direct={} unknown={}",
                    c.name,
                    c.ty,
                    c.val,
                    obs.needs_trace,
                    rec::show(&obs.reported),
                    rec::show(&obs.direct),
                    obs.unknown
                );
            }
            std::io::stdout().flush().ok();
            // pass 2: end-to-end survival (the value as arena root, two full cycles)
            for c in shapes::CASES {
                if let Some(sv) = c.survive {
                    let s = sv();
                    println!(
                        "surv {} observed:{} destructed:{} tokens:{} tokens_dropped:{} garbage:{}",
                        c.name, s.observed, s.destructed, s.tokens, s.tokens_dropped, s.garbage_collected
                    );
                }
            }
            println!("# done");
        }
        Some("c15-stats") => print!("{}", shapes::STATS),
        Some("c15-src") => {
            let name = args.get(2).map(|s| s.as_str()).unwrap_or("");
            for c in shapes::CASES {
                if c.name == name {
                    println!("{}", c.src);
                }
            }
        }
        Some("c16") => c16::run_all(),
        _ => {
            eprintln!("usage: gcverif-collect c15 | c15-stats | c15-src <name> | c16");
            std::process::exit(2);
        }
    }
}
