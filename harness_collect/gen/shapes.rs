// Shape generator for the C15 differential (included by build.rs).
//
// From a seed it produces N *groups*; a group is one top-level `#[derive(Collect)]` declaration
// (plus the nested derived declarations it refers to) instantiated at closed type arguments.  For
// every variant of the top-level declaration one *case* is emitted: a value of that variant with a
// DISTINCT `Gc` / `GcWeak` in every pointer position, the description line the Lean model driver
// (`derivemodel`) expects, and a complete Rust snippet for replay.
//
// Only shapes that must compile are generated here (rejections are probed separately, one rustc
// invocation each, by lib/eng_collect.py).

use std::collections::BTreeMap;
use std::fmt::Write as _;

pub struct Rng(u64);

impl Rng {
    pub fn new(seed: u64) -> Rng {
        Rng(seed ^ 0x9E37_79B9_7F4A_7C15)
    }
    pub fn next(&mut self) -> u64 {
        // splitmix64
        self.0 = self.0.wrapping_add(0x9E37_79B9_7F4A_7C15);
        let mut z = self.0;
        z = (z ^ (z >> 30)).wrapping_mul(0xBF58_476D_1CE4_E5B9);
        z = (z ^ (z >> 27)).wrapping_mul(0x94D0_49BB_1331_11EB);
        z ^ (z >> 31)
    }
    pub fn below(&mut self, n: usize) -> usize {
        (self.next() % (n as u64)) as usize
    }
    pub fn chance(&mut self, pct: usize) -> bool {
        self.below(100) < pct
    }
    /// weighted choice: returns the index
    pub fn weighted(&mut self, w: &[usize]) -> usize {
        let total: usize = w.iter().sum();
        let mut x = self.below(total.max(1));
        for (i, wi) in w.iter().enumerate() {
            if x < *wi {
                return i;
            }
            x -= wi;
        }
        w.len() - 1
    }
}

#[derive(Clone, Copy, PartialEq, Debug)]
pub enum Leaf {
    U8,
    I32,
    Bool,
    F64,
    Str,
    StaticStr,
    Unit,
    Phantom,  // PhantomData<u8>
    PhantomA, // PhantomData<&'a ()> (carrier of a second lifetime parameter)
}

#[derive(Clone, Copy, PartialEq, Debug)]
pub enum Con {
    Option,
    Box,
    Rc,
    RefLock,
    Lock,
    Vec,
    VecDeque,
    Array(usize),
    Tuple,
    Result,
    BTreeMap,
}

#[derive(Clone, Debug)]
pub enum Ty {
    Leaf(Leaf),
    Gc,
    Weak,
    NoImpl,
    Param(usize),
    Con(Con, Vec<Ty>),
    Adt(usize, Vec<Ty>),
    /// `Gc<'gc, Self>` (false) / `Gc<'gc, RefLock<Self>>` (true): only inside a declaration body
    GcSelf(bool),
    /// `GcWeak<'gc, Self>`: only inside a declaration body
    WeakSelf,
    /// after substitution (value generation only): a pointer to a value of the closed type
    GcTo(Box<Ty>, bool),
    WeakTo(Box<Ty>),
    /// `&'static T` with a closed `'static` referent (`T` need not be `Collect`): a legal reference
    /// field, `Collect`, never traced
    RefStatic(Box<Ty>),
    /// `DropTok`: a `'static` payload without `Collect` impl that records its own destruction
    Tok,
}

#[derive(Clone, Copy, PartialEq, Debug)]
pub enum Mode {
    NoDrop,
    UnsafeDrop,
    RequireStatic,
}

#[derive(Clone, Copy, PartialEq, Debug)]
pub enum Style {
    Named,
    Tuple,
    Unit,
}

#[derive(Clone, Debug)]
pub struct Field {
    pub name: String,
    pub stat: bool,
    pub ty: Ty,
}

#[derive(Clone, Debug)]
pub struct Variant {
    pub name: String,
    pub style: Style,
    pub fields: Vec<Field>,
}

#[derive(Clone, Debug)]
pub struct Decl {
    pub name: String,
    pub is_enum: bool,
    pub mode: Mode,
    pub has_drop: bool,
    pub lifetimes: usize,
    pub tparams: usize,
    pub param_static: Vec<bool>,
    pub bound: Option<Vec<usize>>,
    pub variants: Vec<Variant>,
}

#[derive(Clone, Copy, PartialEq)]
enum Want {
    Traced,
    Static { nocollect_ok: bool },
}

struct Scope {
    param_static: Vec<bool>,
    /// field types may be spelled with `Self` (inside the body of a tracing declaration)
    allow_self: bool,
}

/// One member of the systematic recursive family (see `family_specs`).
#[derive(Clone, Debug)]
pub struct FamSpec {
    /// 0 `Gc<'gc, Self>`, 1 `GcWeak<'gc, Self>`, 2 `Option<Gc<'gc, Self>>`, 3 `Vec<Gc<'gc, Self>>`,
    /// 4 `[Option<Gc<'gc, Self>>; 2]`, 5 `Option<Gc<'gc, RefLock<Self>>>`
    pub link: usize,
    /// 0 named struct, 1 tuple struct, 2 enum (link inside a variant)
    pub kind: usize,
    /// companions of the link: 0 plain (`i32`), 1 `require_static` drop token, 2 another pointer
    pub comps: Vec<usize>,
    /// index of the link among the fields
    pub pos: usize,
    pub generic: bool,
}

/// Self-typed pointer fields at every field position of named structs, tuple structs and enum
/// variants, alone and combined with plain / require_static / other-pointer fields, with and
/// without a type parameter.
pub fn family_specs() -> Vec<FamSpec> {
    let comp_sets: [&[usize]; 5] = [&[], &[0], &[1], &[2], &[0, 1]];
    let mut v = vec![];
    for link in 0..6 {
        for kind in 0..3 {
            for comps in comp_sets.iter() {
                for pos in 0..=comps.len() {
                    for generic in [false, true] {
                        v.push(FamSpec { link, kind, comps: comps.to_vec(), pos, generic });
                    }
                }
            }
        }
    }
    v
}

const FIELD_NAMES: &[&str] = &[
    "a", "b", "next", "cache", "data", "value", "key", "left", "right", "items", "state", "id",
    "name", "parent", "children", "meta", "head", "tail",
];

pub struct Case {
    pub name: String,
    pub desc_ty: String,
    pub desc_val: String,
    pub rust_ty: String,
    pub rust_expr: String,
    pub group: usize,
    pub variant: usize,
    pub nptrs: usize,
    pub nweak: usize,
    /// per top-level field of the active variant: (is require_static, number of pointers held)
    pub field_ptrs: Vec<(bool, usize)>,
    /// no value of this variant can be built (e.g. a struct with a bare `Gc<'gc, Self>` field):
    /// only the NEEDS_TRACE constant is compared
    pub nt_only: bool,
}

pub struct Group {
    pub index: usize,
    pub decls: Vec<Decl>,
    pub top: usize,
    pub args: Vec<Ty>,
    pub decl_src: String,
}

#[derive(Default)]
pub struct Stats {
    pub counters: BTreeMap<String, usize>,
}

impl Stats {
    fn bump(&mut self, k: &str) {
        *self.counters.entry(k.to_string()).or_insert(0) += 1;
    }
    fn add(&mut self, k: &str, n: usize) {
        *self.counters.entry(k.to_string()).or_insert(0) += n;
    }
}

pub struct Gen {
    rng: Rng,
    decls: Vec<Decl>,
    group: usize,
    next_id: usize,
    pub stats: Stats,
}

impl Gen {
    pub fn new(seed: u64) -> Gen {
        Gen { rng: Rng::new(seed), decls: vec![], group: 0, next_id: 0, stats: Stats::default() }
    }

    // ---------------------------------------------------------------- which params must be Collect
    fn required_params(&self, d: &Decl) -> Vec<usize> {
        match (&d.mode, &d.bound) {
            (Mode::RequireStatic, _) => vec![],
            (_, None) => (0..d.tparams).collect(),
            (_, Some(ps)) => ps.clone(),
        }
    }

    /// parameters of the enclosing declaration that must be `Collect` for `ty: Collect` to hold
    fn collect_needs(&self, ty: &Ty, out: &mut Vec<usize>) {
        match ty {
            Ty::Param(i) => {
                if !out.contains(i) {
                    out.push(*i)
                }
            }
            Ty::Con(_, args) => args.iter().for_each(|a| self.collect_needs(a, out)),
            Ty::Adt(idx, args) => {
                let req = self.required_params(&self.decls[*idx]);
                for j in req {
                    self.collect_needs(&args[j], out)
                }
            }
            _ => {}
        }
    }

    fn uses_gc(&self, ty: &Ty) -> bool {
        match ty {
            Ty::Gc | Ty::Weak | Ty::GcSelf(_) | Ty::WeakSelf => true,
            Ty::Con(_, args) => args.iter().any(|a| self.uses_gc(a)),
            Ty::Adt(idx, args) => self.decls[*idx].lifetimes > 0 || args.iter().any(|a| self.uses_gc(a)),
            _ => false,
        }
    }

    fn mentions_param(ty: &Ty, i: usize) -> bool {
        match ty {
            Ty::Param(j) => *j == i,
            Ty::Con(_, args) | Ty::Adt(_, args) => args.iter().any(|a| Self::mentions_param(a, i)),
            _ => false,
        }
    }

    // ---------------------------------------------------------------- types
    fn gen_leaf(&mut self) -> Ty {
        let k = [Leaf::U8, Leaf::I32, Leaf::Bool, Leaf::F64, Leaf::Str, Leaf::StaticStr, Leaf::Unit, Leaf::Phantom];
        Ty::Leaf(k[self.rng.weighted(&[20, 20, 10, 8, 18, 8, 6, 6])])
    }

    fn gen_ty(&mut self, scope: &Scope, want: Want, depth: usize, adt_depth: usize) -> Ty {
        match want {
            Want::Traced => {
                let params: Vec<usize> =
                    (0..scope.param_static.len()).filter(|i| !scope.param_static[*i]).collect();
                let w = [
                    18,
                    24,
                    13,
                    if params.is_empty() { 0 } else { 14 },
                    if depth < 3 { 26 } else { 0 },
                    if adt_depth < 2 && depth < 3 { 10 } else { 0 },
                    if scope.allow_self && depth == 0 { 10 } else { 0 },
                    7,
                ];
                match self.rng.weighted(&w) {
                    0 => self.gen_leaf(),
                    1 => Ty::Gc,
                    2 => Ty::Weak,
                    3 => Ty::Param(params[self.rng.below(params.len())]),
                    4 => self.gen_con(scope, want, depth, adt_depth),
                    6 => self.gen_self_link(),
                    7 => self.gen_ref_static(),
                    _ => {
                        let idx = self.gen_decl(adt_depth + 1, false);
                        let args = self.gen_args(idx, scope, depth + 1, adt_depth + 1);
                        Ty::Adt(idx, args)
                    }
                }
            }
            Want::Static { nocollect_ok } => {
                let params: Vec<usize> =
                    (0..scope.param_static.len()).filter(|i| scope.param_static[*i]).collect();
                let w = [
                    45,
                    if nocollect_ok { 20 } else { 0 },
                    if params.is_empty() { 0 } else { 18 },
                    if depth < 2 { 15 } else { 0 },
                    if adt_depth < 2 && depth < 2 { 6 } else { 0 },
                    8,
                ];
                match self.rng.weighted(&w) {
                    0 => self.gen_leaf(),
                    5 => self.gen_ref_static(),
                    1 => Ty::NoImpl,
                    2 => Ty::Param(params[self.rng.below(params.len())]),
                    3 => self.gen_con(scope, want, depth, adt_depth),
                    _ => {
                        let idx = self.gen_decl(adt_depth + 1, true);
                        let args = self.gen_args(idx, scope, depth + 1, adt_depth + 1);
                        Ty::Adt(idx, args)
                    }
                }
            }
        }
    }

    /// `&'static T`: the only references that are `Collect` (`T: ?Sized + 'static`, not necessarily
    /// `Collect`).
    fn gen_ref_static(&mut self) -> Ty {
        let inner = match self.rng.below(5) {
            0 => Ty::Leaf(Leaf::U8),
            1 => Ty::Leaf(Leaf::Str),
            2 => Ty::Leaf(Leaf::I32),
            3 => Ty::Con(Con::Vec, vec![Ty::Leaf(Leaf::U8)]),
            _ => Ty::NoImpl,
        };
        Ty::RefStatic(Box::new(inner))
    }

    /// A field type spelled with `Self` behind a pointer, in a form that has an "empty" value so
    /// that a finite structure can always be built (bare `Gc<'gc, Self>` links are covered by the
    /// systematic family).
    fn gen_self_link(&mut self) -> Ty {
        let g = Ty::GcSelf(self.rng.chance(20));
        match self.rng.below(10) {
            0 | 1 | 2 => Ty::Con(Con::Option, vec![g]),
            3 | 4 => Ty::Con(Con::Vec, vec![g]),
            5 => Ty::Con(Con::Array(2), vec![Ty::Con(Con::Option, vec![g])]),
            6 => Ty::Con(Con::Option, vec![Ty::WeakSelf]),
            7 => Ty::Con(Con::RefLock, vec![Ty::Con(Con::Option, vec![g])]),
            8 => Ty::Con(Con::Lock, vec![Ty::Con(Con::Option, vec![Ty::GcSelf(false)])]),
            _ => Ty::Con(Con::Tuple, vec![Ty::Leaf(Leaf::U8), Ty::Con(Con::Vec, vec![Ty::WeakSelf])]),
        }
    }

    fn gen_con(&mut self, scope: &Scope, want: Want, depth: usize, adt_depth: usize) -> Ty {
        let cons = [
            Con::Option, Con::Box, Con::Rc, Con::RefLock, Con::Lock, Con::Vec, Con::VecDeque,
            Con::Array(0), Con::Tuple, Con::Result, Con::BTreeMap,
        ];
        let c = cons[self.rng.weighted(&[16, 8, 5, 9, 7, 16, 5, 9, 12, 7, 6])];
        let d = depth + 1;
        match c {
            Con::Lock => {
                // Lock<T> needs T: Copy
                let arg = match want {
                    Want::Traced => match self.rng.below(5) {
                        0 => Ty::Gc,
                        1 => Ty::Weak,
                        2 => Ty::Con(Con::Option, vec![Ty::Gc]),
                        3 => Ty::Con(Con::Option, vec![Ty::Weak]),
                        _ => Ty::Leaf(Leaf::U8),
                    },
                    Want::Static { .. } => Ty::Leaf(if self.rng.chance(50) { Leaf::I32 } else { Leaf::Bool }),
                };
                Ty::Con(Con::Lock, vec![arg])
            }
            Con::Array(_) => {
                let n = self.rng.weighted(&[1, 3, 3, 2]);
                Ty::Con(Con::Array(n), vec![self.gen_ty(scope, want, d, adt_depth)])
            }
            Con::Tuple => {
                let n = if self.rng.chance(6) { 5 + self.rng.below(8) } else { 1 + self.rng.below(4) };
                let args = (0..n).map(|_| self.gen_ty(scope, want, if n > 4 { 3 } else { d }, adt_depth)).collect();
                Ty::Con(Con::Tuple, args)
            }
            Con::Result => {
                let a = self.gen_ty(scope, want, d, adt_depth);
                let b = self.gen_ty(scope, want, d, adt_depth);
                Ty::Con(Con::Result, vec![a, b])
            }
            Con::BTreeMap => {
                let k = match (want, self.rng.below(4)) {
                    (Want::Traced, 0) => Ty::Gc,
                    (_, 1) => Ty::Leaf(Leaf::I32),
                    (_, 2) => Ty::Leaf(Leaf::Str),
                    _ => Ty::Leaf(Leaf::U8),
                };
                let v = self.gen_ty(scope, want, d, adt_depth);
                Ty::Con(Con::BTreeMap, vec![k, v])
            }
            _ => Ty::Con(c, vec![self.gen_ty(scope, want, d, adt_depth)]),
        }
    }

    /// type arguments for declaration `idx`, expressed in `scope`
    fn gen_args(&mut self, idx: usize, scope: &Scope, depth: usize, adt_depth: usize) -> Vec<Ty> {
        let d = self.decls[idx].clone();
        let req = self.required_params(&d);
        (0..d.tparams)
            .map(|j| {
                if d.param_static[j] {
                    self.gen_ty(scope, Want::Static { nocollect_ok: !req.contains(&j) }, depth.max(1), adt_depth)
                } else {
                    self.gen_ty(scope, Want::Traced, depth.max(1), adt_depth)
                }
            })
            .collect()
    }

    // ---------------------------------------------------------------- declarations
    fn gen_decl(&mut self, adt_depth: usize, force_static: bool) -> usize {
        let mode = if force_static {
            if self.rng.chance(50) { Mode::RequireStatic } else { Mode::NoDrop }
        } else {
            [Mode::NoDrop, Mode::UnsafeDrop, Mode::RequireStatic][self.rng.weighted(&[74, 16, 10])]
        };
        let all_static = force_static || mode == Mode::RequireStatic;
        let tparams = self.rng.weighted(&[55, 28, 14, 3]);
        let param_static: Vec<bool> = (0..tparams).map(|_| all_static || self.rng.chance(25)).collect();
        let scope = Scope { param_static: param_static.clone(), allow_self: !all_static };
        let kind = self.rng.weighted(&[34, 24, 5, 37]); // named struct, tuple struct, unit struct, enum
        let is_enum = kind == 3;
        let nvariants = if is_enum { 1 + self.rng.weighted(&[2, 4, 3, 2]) } else { 1 };
        let mut variants = vec![];
        for vi in 0..nvariants {
            let style = if is_enum {
                [Style::Named, Style::Tuple, Style::Unit][self.rng.weighted(&[40, 40, 20])]
            } else {
                [Style::Named, Style::Tuple, Style::Unit][kind]
            };
            let nfields = match style {
                Style::Unit => 0,
                Style::Named => self.rng.weighted(&[1, 5, 6, 5, 3, 1]),
                Style::Tuple => 1 + self.rng.weighted(&[6, 5, 3, 1]),
            };
            let mut fields: Vec<Field> = vec![];
            for fi in 0..nfields {
                let stat = self.rng.chance(if mode == Mode::RequireStatic { 10 } else { 22 });
                let want = if all_static {
                    Want::Static { nocollect_ok: stat || mode == Mode::RequireStatic }
                } else if stat {
                    Want::Static { nocollect_ok: true }
                } else {
                    Want::Traced
                };
                let ty = self.gen_ty(&scope, want, 0, adt_depth);
                let mut name = FIELD_NAMES[self.rng.below(FIELD_NAMES.len())].to_string();
                if fields.iter().any(|f| f.name == name) {
                    name = format!("{}{}", name, fi);
                }
                fields.push(Field { name, stat, ty });
            }
            variants.push(Variant { name: format!("V{}", vi), style, fields });
        }
        // every type parameter must be used (E0392 otherwise)
        // and a parameter that is instantiated with `'static` types must be known `'static` inside
        // the impl, i.e. be mentioned by a `require_static` field (E0310 otherwise when it flows
        // into a nested declaration that requires `'static`)
        for i in 0..tparams {
            let need_stat = param_static[i] && mode != Mode::RequireStatic;
            let used = variants
                .iter()
                .any(|v| v.fields.iter().any(|f| Self::mentions_param(&f.ty, i) && (f.stat || !need_stat)));
            if !used {
                let vi = self.rng.below(variants.len());
                let v = &mut variants[vi];
                if v.style == Style::Unit {
                    v.style = Style::Tuple;
                }
                let stat = param_static[i] && mode != Mode::RequireStatic;
                let name = format!("p{}", i);
                let pos = self.rng.below(v.fields.len() + 1);
                v.fields.insert(pos, Field { name, stat, ty: Ty::Param(i) });
            }
        }
        let uses_gc = variants.iter().any(|v| v.fields.iter().any(|f| self.uses_gc(&f.ty)));
        let mut lifetimes = if uses_gc { 1 } else { 0 };
        if uses_gc && mode != Mode::RequireStatic && self.rng.chance(10) {
            lifetimes = 2;
            let v = &mut variants[0];
            if v.style == Style::Unit {
                v.style = Style::Tuple;
            }
            v.fields.push(Field { name: "marker".into(), stat: false, ty: Ty::Leaf(Leaf::PhantomA) });
        }
        let has_drop = match mode {
            Mode::NoDrop => false,
            Mode::UnsafeDrop => self.rng.chance(60),
            Mode::RequireStatic => self.rng.chance(25),
        };
        let name = format!("D{}_{}", self.group, self.decls.len());
        let mut decl = Decl {
            name, is_enum, mode, has_drop, lifetimes, tparams, param_static, bound: None, variants,
        };
        if tparams > 0 && mode != Mode::RequireStatic && self.rng.chance(45) {
            let mut need = vec![];
            for v in &decl.variants {
                for f in &v.fields {
                    if !f.stat {
                        self.collect_needs(&f.ty, &mut need);
                    }
                }
            }
            for i in 0..tparams {
                if !need.contains(&i) && self.rng.chance(30) {
                    need.push(i);
                }
            }
            need.sort();
            decl.bound = Some(need);
        }
        self.decls.push(decl);
        self.decls.len() - 1
    }

    // ---------------------------------------------------------------- printing: Rust
    fn leaf_rust(l: Leaf) -> &'static str {
        match l {
            Leaf::U8 => "u8",
            Leaf::I32 => "i32",
            Leaf::Bool => "bool",
            Leaf::F64 => "f64",
            Leaf::Str => "String",
            Leaf::StaticStr => "&'static str",
            Leaf::Unit => "()",
            Leaf::Phantom => "PhantomData<u8>",
            Leaf::PhantomA => "PhantomData<&'a ()>",
        }
    }

    /// `in_decl`: print inside a declaration body (second lifetime is `'a`) or as a closed type
    fn rust_ty(&self, ty: &Ty, in_decl: bool) -> String {
        match ty {
            Ty::Leaf(Leaf::PhantomA) if !in_decl => "PhantomData<&'static ()>".into(),
            Ty::Leaf(l) => Self::leaf_rust(*l).into(),
            Ty::Gc => "Gc<'gc, u32>".into(),
            Ty::Weak => "GcWeak<'gc, u32>".into(),
            Ty::NoImpl => "NoImpl".into(),
            Ty::Param(i) => format!("T{}", i),
            Ty::GcSelf(false) => "Gc<'gc, Self>".into(),
            Ty::GcSelf(true) => "Gc<'gc, RefLock<Self>>".into(),
            Ty::WeakSelf => "GcWeak<'gc, Self>".into(),
            Ty::GcTo(t, false) => format!("Gc<'gc, {}>", self.rust_ty(t, in_decl)),
            Ty::GcTo(t, true) => format!("Gc<'gc, RefLock<{}>>", self.rust_ty(t, in_decl)),
            Ty::WeakTo(t) => format!("GcWeak<'gc, {}>", self.rust_ty(t, in_decl)),
            Ty::Tok => "DropTok".into(),
            Ty::RefStatic(t) => format!("&'static {}", self.rust_ty(t, in_decl)),
            Ty::Con(c, args) => {
                let a: Vec<String> = args.iter().map(|x| self.rust_ty(x, in_decl)).collect();
                match c {
                    Con::Option => format!("Option<{}>", a[0]),
                    Con::Box => format!("Box<{}>", a[0]),
                    Con::Rc => format!("Rc<{}>", a[0]),
                    Con::RefLock => format!("RefLock<{}>", a[0]),
                    Con::Lock => format!("Lock<{}>", a[0]),
                    Con::Vec => format!("Vec<{}>", a[0]),
                    Con::VecDeque => format!("VecDeque<{}>", a[0]),
                    Con::Array(n) => format!("[{}; {}]", a[0], n),
                    Con::Tuple => format!("({},)", a.join(", ")),
                    Con::Result => format!("Result<{}, {}>", a[0], a[1]),
                    Con::BTreeMap => format!("BTreeMap<{}, {}>", a[0], a[1]),
                }
            }
            Ty::Adt(idx, args) => {
                let d = &self.decls[*idx];
                let mut g: Vec<String> = vec![];
                if d.lifetimes >= 1 {
                    g.push("'gc".into());
                }
                if d.lifetimes >= 2 {
                    g.push("'static".into());
                }
                g.extend(args.iter().map(|x| self.rust_ty(x, in_decl)));
                if g.is_empty() { d.name.clone() } else { format!("{}<{}>", d.name, g.join(", ")) }
            }
        }
    }

    fn generics_decl(d: &Decl) -> String {
        let mut g: Vec<String> = vec![];
        if d.lifetimes >= 1 {
            g.push("'gc".into());
        }
        if d.lifetimes >= 2 {
            g.push("'a".into());
        }
        g.extend((0..d.tparams).map(|i| format!("T{}", i)));
        if g.is_empty() { String::new() } else { format!("<{}>", g.join(", ")) }
    }

    fn decl_rust(&self, d: &Decl) -> String {
        let mut s = String::new();
        let mut opts: Vec<String> = vec![match d.mode {
            Mode::NoDrop => "no_drop".into(),
            Mode::UnsafeDrop => "unsafe_drop".into(),
            Mode::RequireStatic => "require_static".into(),
        }];
        if let Some(b) = &d.bound {
            if b.is_empty() {
                opts.push("bound = \"\"".into());
            } else {
                let preds: Vec<String> = b.iter().map(|i| format!("T{}: Collect<'gc>", i)).collect();
                opts.push(format!("bound = \"where {}\"", preds.join(", ")));
            }
        }
        if d.lifetimes >= 2 {
            opts.push("gc_lifetime = 'gc".into());
        }
        // option order is irrelevant to the macro; shuffle it a little
        if opts.len() > 1 && self.decls.len() % 2 == 1 {
            opts.rotate_left(1);
        }
        let _ = writeln!(s, "#[derive(Collect)]");
        let _ = writeln!(s, "#[collect({})]", opts.join(", "));
        let g = Self::generics_decl(d);
        let field_src = |f: &Field, named: bool| -> String {
            let attr = if f.stat { "#[collect(require_static)] " } else { "" };
            if named {
                format!("{}pub {}: {}", attr, f.name, self.rust_ty(&f.ty, true))
            } else {
                format!("{}pub {}", attr, self.rust_ty(&f.ty, true))
            }
        };
        if !d.is_enum {
            let v = &d.variants[0];
            match v.style {
                Style::Named => {
                    let fs: Vec<String> = v.fields.iter().map(|f| field_src(f, true)).collect();
                    let _ = writeln!(s, "pub struct {}{} {{ {} }}", d.name, g, fs.join(", "));
                }
                Style::Tuple => {
                    let fs: Vec<String> = v.fields.iter().map(|f| field_src(f, false)).collect();
                    let _ = writeln!(s, "pub struct {}{}({});", d.name, g, fs.join(", "));
                }
                Style::Unit => {
                    let _ = writeln!(s, "pub struct {}{};", d.name, g);
                }
            }
        } else {
            let _ = writeln!(s, "pub enum {}{} {{", d.name, g);
            for v in &d.variants {
                let field_src_e = |f: &Field, named: bool| -> String {
                    let attr = if f.stat { "#[collect(require_static)] " } else { "" };
                    if named {
                        format!("{}{}: {}", attr, f.name, self.rust_ty(&f.ty, true))
                    } else {
                        format!("{}{}", attr, self.rust_ty(&f.ty, true))
                    }
                };
                match v.style {
                    Style::Named => {
                        let fs: Vec<String> = v.fields.iter().map(|f| field_src_e(f, true)).collect();
                        let _ = writeln!(s, "    {} {{ {} }},", v.name, fs.join(", "));
                    }
                    Style::Tuple => {
                        let fs: Vec<String> = v.fields.iter().map(|f| field_src_e(f, false)).collect();
                        let _ = writeln!(s, "    {}({}),", v.name, fs.join(", "));
                    }
                    Style::Unit => {
                        let _ = writeln!(s, "    {},", v.name);
                    }
                }
            }
            let _ = writeln!(s, "}}");
        }
        if d.has_drop {
            let _ = writeln!(s, "impl{} Drop for {}{} {{ fn drop(&mut self) {{}} }}", g, d.name, g);
        }
        s
    }

    // ---------------------------------------------------------------- printing: model description
    fn desc_ty(&self, ty: &Ty) -> String {
        match ty {
            Ty::Leaf(Leaf::StaticStr) => "(R s L)".into(),
            Ty::RefStatic(t) => format!("(R s {})", self.desc_ty(t)),
            Ty::Leaf(_) => "L".into(),
            Ty::Gc => "G".into(),
            Ty::Weak => "W".into(),
            Ty::NoImpl => "OS".into(),
            Ty::Param(i) => format!("(P {})", i),
            // a pointer to `Self` is a pointer leaf: `Gc::trace` reports the pointer and never looks
            // at the pointee, NEEDS_TRACE is the default `true` whatever the pointee is
            Ty::GcSelf(_) => "GS".into(),
            Ty::WeakSelf => "WS".into(),
            Ty::GcTo(..) => "G".into(),
            Ty::WeakTo(_) => "W".into(),
            Ty::Tok => "OS".into(),
            Ty::Con(c, args) => {
                let name = match c {
                    Con::Option => "option".to_string(),
                    Con::Box | Con::Rc => "box".to_string(),
                    Con::RefLock => "reflock".to_string(),
                    Con::Lock => "lock".to_string(),
                    Con::Vec | Con::VecDeque => "vec".to_string(),
                    Con::Array(n) => format!("array{}", n),
                    Con::Tuple => "tuple".to_string(),
                    Con::Result => "result".to_string(),
                    Con::BTreeMap => "map".to_string(),
                };
                let a: Vec<String> = args.iter().map(|x| self.desc_ty(x)).collect();
                if a.is_empty() { format!("(C {})", name) } else { format!("(C {} {})", name, a.join(" ")) }
            }
            Ty::Adt(idx, args) => {
                let a: Vec<String> = args.iter().map(|x| self.desc_ty(x)).collect();
                let d = self.desc_decl(&self.decls[*idx]);
                if a.is_empty() { format!("(A {})", d) } else { format!("(A {} {})", d, a.join(" ")) }
            }
        }
    }

    fn desc_decl(&self, d: &Decl) -> String {
        let mut opts: Vec<String> = vec![match d.mode {
            Mode::NoDrop => "no_drop".into(),
            Mode::UnsafeDrop => "unsafe_drop".into(),
            Mode::RequireStatic => "require_static".into(),
        }];
        if let Some(b) = &d.bound {
            let is: Vec<String> = b.iter().map(|i| i.to_string()).collect();
            opts.push(if is.is_empty() { "(bound)".into() } else { format!("(bound {})", is.join(" ")) });
        }
        if d.lifetimes >= 2 {
            opts.push("(gc_lifetime 0)".into());
        }
        let vs: Vec<String> = d
            .variants
            .iter()
            .map(|v| {
                let st = match v.style {
                    Style::Named => "named",
                    Style::Tuple => "tuple",
                    Style::Unit => "unit",
                };
                let fs: Vec<String> = v
                    .fields
                    .iter()
                    .map(|f| {
                        format!("(F {} {})", if f.stat { "((require_static))" } else { "()" }, self.desc_ty(&f.ty))
                    })
                    .collect();
                if fs.is_empty() { format!("(V {} ())", st) } else { format!("(V {} () {})", st, fs.join(" ")) }
            })
            .collect();
        format!(
            "(D {} (({})) {} {} {} {})",
            if d.is_enum { "enum" } else { "struct" },
            opts.join(" "),
            d.lifetimes,
            d.tparams,
            if d.has_drop { "drop" } else { "nodrop" },
            vs.join(" ")
        )
    }

    // ---------------------------------------------------------------- values
    /// Close a field type of `self_ty = D<args>`: parameters by `args`, `Self` by `self_ty`.
    fn subst(ty: &Ty, args: &[Ty], self_ty: &Ty) -> Ty {
        match ty {
            Ty::Param(i) => args[*i].clone(),
            Ty::GcSelf(w) => Ty::GcTo(Box::new(self_ty.clone()), *w),
            Ty::WeakSelf => Ty::WeakTo(Box::new(self_ty.clone())),
            Ty::Con(c, a) => Ty::Con(*c, a.iter().map(|x| Self::subst(x, args, self_ty)).collect()),
            Ty::Adt(i, a) => Ty::Adt(*i, a.iter().map(|x| Self::subst(x, args, self_ty)).collect()),
            t => t.clone(),
        }
    }

    /// Can a value of the closed type be built with at most `budget` further levels of `Self`
    /// pointees?  (Bare `Gc<'gc, Self>` fields of a struct never can.)
    fn buildable(&self, ty: &Ty, budget: usize) -> bool {
        match ty {
            Ty::GcTo(t, _) | Ty::WeakTo(t) => budget > 0 && self.buildable(t, budget - 1),
            Ty::Con(c, args) => match c {
                Con::Option | Con::Vec | Con::VecDeque => true,
                Con::BTreeMap => true,
                Con::Array(n) => *n == 0 || self.buildable(&args[0], budget),
                Con::Result => args.iter().any(|a| self.buildable(a, budget)),
                _ => args.iter().all(|a| self.buildable(a, budget)),
            },
            Ty::Adt(idx, args) => {
                let d = &self.decls[*idx];
                d.variants.iter().any(|v| v.fields.iter().all(|f| self.buildable(&Self::subst(&f.ty, args, ty), budget)))
            }
            _ => true,
        }
    }

    fn variant_buildable(&self, ty: &Ty, k: usize, budget: usize) -> bool {
        if let Ty::Adt(idx, args) = ty {
            self.decls[*idx].variants[k].fields.iter().all(|f| self.buildable(&Self::subst(&f.ty, args, ty), budget))
        } else {
            true
        }
    }

    fn mentions_self(ty: &Ty) -> bool {
        match ty {
            Ty::GcSelf(_) | Ty::WeakSelf => true,
            Ty::Con(_, a) | Ty::Adt(_, a) => a.iter().any(Self::mentions_self),
            _ => false,
        }
    }

    /// where a pointer sits: 1 = inside a provided container, 2 = inside a nested derived ADT,
    /// 4 = in a position whose declared type mentions a type parameter
    fn ptr_path(&mut self, ctx: u8) {
        if ctx & !16 == 0 {
            self.stats.bump("ptr_path.direct_field_of_top_decl");
        }
        if ctx & 1 != 0 {
            self.stats.bump("ptr_path.inside_provided_container");
        }
        if ctx & 2 != 0 {
            self.stats.bump("ptr_path.inside_nested_derived_adt");
        }
        if ctx & 4 != 0 {
            self.stats.bump("ptr_path.through_type_parameter");
        }
        if ctx & 16 != 0 {
            self.stats.bump("ptr_path.self_typed_link");
        }
    }

    fn fresh(&mut self) -> usize {
        self.next_id += 1;
        self.next_id
    }

    fn leaf_val(&mut self, l: Leaf) -> String {
        match l {
            Leaf::U8 => format!("{}u8", self.rng.below(200)),
            Leaf::I32 => format!("{}i32", self.rng.below(1000) as i64 - 500),
            Leaf::Bool => (if self.rng.chance(50) { "true" } else { "false" }).into(),
            Leaf::F64 => format!("{}.5f64", self.rng.below(9)),
            Leaf::Str => format!("String::from(\"s{}\")", self.rng.below(99)),
            Leaf::StaticStr => format!("\"t{}\"", self.rng.below(99)),
            Leaf::Unit => "()".into(),
            Leaf::Phantom | Leaf::PhantomA => "PhantomData".into(),
        }
    }

    /// (rust expression, model description, #pointers, #weak) of a fresh value of closed type `ty`
    /// ctx bits: 1 inside a provided container, 2 inside a nested derived ADT, 4 through a type
    /// parameter, 8 below a node that is only weakly reachable (not expected to survive a
    /// collection), 16 (statistics only) the pointer is a `Self`-typed link.
    /// `budget`: how many further levels of `Self` pointees may be allocated.
    fn gen_val(&mut self, ty: &Ty, force_variant: Option<usize>, top: Option<&mut Vec<(bool, usize)>>, ctx: u8, budget: usize) -> (String, String, usize, usize) {
        match ty {
            Ty::Leaf(Leaf::StaticStr) => (self.leaf_val(Leaf::StaticStr), "(o)".into(), 0, 0),
            Ty::RefStatic(t) => {
                let (e, _, _, _) = self.gen_val(t, None, None, ctx, budget);
                (format!("&*Box::leak(Box::new({}))", e), "(o)".into(), 0, 0)
            }
            Ty::Leaf(l) => (self.leaf_val(*l), "l".into(), 0, 0),
            Ty::Gc => {
                let id = self.fresh();
                self.ptr_path(ctx);
                (format!("p.g{}({})", if ctx & 8 != 0 { "0" } else { "" }, id), format!("(g {})", id), 1, 0)
            }
            Ty::GcTo(t, wrap) => {
                let id = self.fresh();
                self.ptr_path(ctx | 16);
                assert!(budget > 0, "self link without budget");
                let (inner, _, _, _) = self.gen_val(t, None, None, (ctx | 2) & !4, budget - 1);
                let inner = if *wrap { format!("RefLock::new({})", inner) } else { inner };
                (format!("{{ let n = {}; p.adopt{}({}, n) }}", inner, if ctx & 8 != 0 { "0" } else { "" }, id), format!("(g {})", id), 1, 0)
            }
            Ty::WeakTo(t) => {
                let id = self.fresh();
                self.ptr_path(ctx | 16);
                assert!(budget > 0, "self link without budget");
                let (inner, _, _, _) = self.gen_val(t, None, None, ((ctx | 2) & !4) | 8, budget - 1);
                (format!("{{ let n = {}; Gc::downgrade(p.adopt0({}, n)) }}", inner, id), format!("(w {})", id), 1, 1)
            }
            Ty::Tok => ((if ctx & 8 != 0 { "p.tok0()" } else { "p.tok()" }).to_string(), "(o)".into(), 0, 0),
            Ty::GcSelf(_) | Ty::WeakSelf => unreachable!("closed types only"),
            Ty::Weak => {
                let id = self.fresh();
                self.ptr_path(ctx);
                (format!("p.w({})", id), format!("(w {})", id), 1, 1)
            }
            Ty::NoImpl => (format!("NoImpl({})", self.rng.below(9)), "(o)".into(), 0, 0),
            Ty::Param(_) => unreachable!("closed types only"),
            Ty::Con(c, args) => {
                let mut n = 0;
                let mut w = 0;
                let mut elems: Vec<(usize, String)> = vec![]; // (position, expr)
                let mut descs: Vec<String> = vec![];
                let mut push = |this: &mut Gen, pos: usize, t: &Ty, elems: &mut Vec<(usize, String)>, descs: &mut Vec<String>, n: &mut usize, w: &mut usize| {
                    let (e, d, k, kw) = this.gen_val(t, None, None, ctx | 1, budget);
                    elems.push((pos, e));
                    descs.push(format!("({} {})", pos, d));
                    *n += k;
                    *w += kw;
                };
                let ok: Vec<bool> = args.iter().map(|a| self.buildable(a, budget)).collect();
                let expr = match c {
                    Con::Option => {
                        if ok[0] && self.rng.chance(85) {
                            push(self, 0, &args[0], &mut elems, &mut descs, &mut n, &mut w);
                            format!("Some({})", elems[0].1)
                        } else {
                            "None".into()
                        }
                    }
                    Con::Box | Con::Rc | Con::RefLock | Con::Lock => {
                        push(self, 0, &args[0], &mut elems, &mut descs, &mut n, &mut w);
                        let f = match c {
                            Con::Box => "Box::new",
                            Con::Rc => "Rc::new",
                            Con::RefLock => "RefLock::new",
                            _ => "Lock::new",
                        };
                        format!("{}({})", f, elems[0].1)
                    }
                    Con::Vec | Con::VecDeque => {
                        let len = if ok[0] { self.rng.weighted(&[1, 4, 4, 3]) } else { 0 };
                        for _ in 0..len {
                            push(self, 0, &args[0], &mut elems, &mut descs, &mut n, &mut w);
                        }
                        let items: Vec<String> = elems.iter().map(|e| e.1.clone()).collect();
                        if len == 0 {
                            (if *c == Con::Vec { "Vec::new()" } else { "VecDeque::new()" }).into()
                        } else if *c == Con::Vec {
                            format!("vec![{}]", items.join(", "))
                        } else {
                            format!("VecDeque::from(vec![{}])", items.join(", "))
                        }
                    }
                    Con::Array(len) => {
                        for _ in 0..*len {
                            push(self, 0, &args[0], &mut elems, &mut descs, &mut n, &mut w);
                        }
                        let items: Vec<String> = elems.iter().map(|e| e.1.clone()).collect();
                        format!("[{}]", items.join(", "))
                    }
                    Con::Tuple => {
                        for (i, a) in args.iter().enumerate() {
                            push(self, i, a, &mut elems, &mut descs, &mut n, &mut w);
                        }
                        let items: Vec<String> = elems.iter().map(|e| e.1.clone()).collect();
                        format!("({},)", items.join(", "))
                    }
                    Con::Result => {
                        if ok[0] && (!ok[1] || self.rng.chance(50)) {
                            push(self, 0, &args[0], &mut elems, &mut descs, &mut n, &mut w);
                            format!("Ok({})", elems[0].1)
                        } else {
                            push(self, 1, &args[1], &mut elems, &mut descs, &mut n, &mut w);
                            format!("Err({})", elems[0].1)
                        }
                    }
                    Con::BTreeMap => {
                        let len = if ok[1] { self.rng.weighted(&[2, 4, 4, 2]) } else { 0 };
                        let mut pairs = vec![];
                        for i in 0..len {
                            // distinct keys: pointer keys are distinct by id, leaf keys by index
                            let kexpr = match &args[0] {
                                Ty::Gc => {
                                    let id = self.fresh();
                                    self.ptr_path(ctx | 1);
                                    n += 1;
                                    descs.push(format!("(0 (g {}))", id));
                                    // a map KEY below a weakly held node is itself only weakly reachable
                                    format!("p.g{}({})", if ctx & 8 != 0 { "0" } else { "" }, id)
                                }
                                Ty::Leaf(Leaf::Str) => {
                                    descs.push("(0 l)".into());
                                    format!("String::from(\"k{}\")", i)
                                }
                                _ => {
                                    descs.push("(0 l)".into());
                                    format!("{}", i)
                                }
                            };
                            let (e, d, k, kw) = self.gen_val(&args[1], None, None, ctx | 1, budget);
                            descs.push(format!("(1 {})", d));
                            n += k;
                            w += kw;
                            pairs.push(format!("({}, {})", kexpr, e));
                        }
                        if len == 0 { "BTreeMap::new()".into() } else { format!("BTreeMap::from([{}])", pairs.join(", ")) }
                    }
                };
                let desc = if descs.is_empty() { "(c)".into() } else { format!("(c {})", descs.join(" ")) };
                (expr, desc, n, w)
            }
            Ty::Adt(idx, args) => {
                let d = self.decls[*idx].clone();
                let k = force_variant.unwrap_or_else(|| {
                    let cands: Vec<usize> = (0..d.variants.len()).filter(|k| self.variant_buildable(ty, *k, budget)).collect();
                    assert!(!cands.is_empty(), "no buildable variant");
                    cands[self.rng.below(cands.len())]
                });
                let v = &d.variants[k];
                let mut n = 0;
                let mut w = 0;
                let mut exprs = vec![];
                let mut descs = vec![];
                let mut per_field = vec![];
                for f in &v.fields {
                    let ft = Self::subst(&f.ty, args, ty);
                    let via_param = (0..d.tparams).any(|i| Self::mentions_param(&f.ty, i));
                    let nested = if top.is_some() { 0 } else { 2 };
                    let (e, ds, kn, kw) = self.gen_val(&ft, None, None, ctx | nested | if via_param { 4 } else { 0 }, budget);
                    n += kn;
                    w += kw;
                    per_field.push((f.stat, kn));
                    exprs.push(if v.style == Style::Named { format!("{}: {}", f.name, e) } else { e });
                    descs.push(ds);
                }
                if let Some(t) = top {
                    *t = per_field;
                }
                let path = if d.is_enum { format!("{}::{}", d.name, v.name) } else { d.name.clone() };
                let expr = match v.style {
                    Style::Named => format!("{} {{ {} }}", path, exprs.join(", ")),
                    Style::Tuple => format!("{}({})", path, exprs.join(", ")),
                    Style::Unit => path,
                };
                let desc = if descs.is_empty() { format!("(a {})", k) } else { format!("(a {} {})", k, descs.join(" ")) };
                (expr, desc, n, w)
            }
        }
    }

    // ---------------------------------------------------------------- statistics
    fn record_ty_stats(&mut self, ty: &Ty, depth: usize) {
        let key = match ty {
            Ty::Leaf(Leaf::StaticStr) => "tynode.ref_static".to_string(),
            Ty::Leaf(_) => "tynode.leaf".to_string(),
            Ty::Gc => "tynode.gc".into(),
            Ty::Weak => "tynode.gcweak".into(),
            Ty::NoImpl => "tynode.opaque_static".into(),
            Ty::Param(_) => "tynode.param".into(),
            Ty::GcSelf(false) => "tynode.gc_self".into(),
            Ty::GcSelf(true) => "tynode.gc_reflock_self".into(),
            Ty::WeakSelf => "tynode.gcweak_self".into(),
            Ty::GcTo(..) | Ty::WeakTo(_) => "tynode.closed_self_ptr".into(),
            Ty::Tok => "tynode.drop_token".into(),
            Ty::RefStatic(_) => "tynode.ref_static".into(),
            Ty::Con(c, _) => format!("con.{:?}", c).split('(').next().unwrap().to_string(),
            Ty::Adt(..) => "tynode.nested_adt".into(),
        };
        self.stats.bump(&key);
        self.stats.bump(&format!("ty_depth.{}", depth.min(4)));
        if let Ty::Con(_, a) | Ty::Adt(_, a) = ty {
            for x in a.clone() {
                self.record_ty_stats(&x, depth + 1);
            }
        }
    }

    fn record_decl_stats(&mut self, d: &Decl, top: bool) {
        let pre = if top { "top" } else { "nested" };
        self.stats.bump(&format!("decl.{}", pre));
        let kind = if d.is_enum {
            "enum"
        } else {
            match d.variants[0].style {
                Style::Named => "named_struct",
                Style::Tuple => "tuple_struct",
                Style::Unit => "unit_struct",
            }
        };
        self.stats.bump(&format!("kind.{}", kind));
        self.stats.bump(&format!("mode.{:?}", d.mode));
        if d.variants.iter().any(|v| v.fields.iter().any(|f| Self::mentions_self(&f.ty))) {
            self.stats.bump("decl.recursive_through_self");
            let only_self = !d.variants.iter().any(|v| {
                v.fields.iter().any(|f| !f.stat && !Self::mentions_self(&f.ty) && !matches!(f.ty, Ty::Leaf(_)))
            });
            if only_self {
                self.stats.bump("decl.recursive_only_self_fields_may_need_trace");
            }
        }
        if d.has_drop {
            self.stats.bump(&format!("drop_impl.{:?}", d.mode));
        }
        self.stats.bump(&format!("lifetimes.{}", d.lifetimes));
        self.stats.bump(&format!("tparams.{}", d.tparams));
        if d.tparams > 0 {
            self.stats.bump(match &d.bound {
                None => "generic.default_bounds",
                Some(b) if b.is_empty() => "generic.bound_override_empty",
                Some(_) => "generic.bound_override",
            });
        }
        if d.is_enum {
            self.stats.bump(&format!("enum_variants.{}", d.variants.len()));
            let styles: Vec<Style> = d.variants.iter().map(|v| v.style).collect();
            let mixed = styles.iter().any(|s| *s != styles[0]);
            if mixed {
                self.stats.bump("enum.mixed_styles");
            }
        }
        for v in &d.variants {
            self.stats.bump(&format!("variant_fields.{}", v.fields.len().min(6)));
            let n = v.fields.len();
            for (i, f) in v.fields.iter().enumerate() {
                self.stats.bump("fields.total");
                if f.stat {
                    self.stats.bump("fields.require_static");
                    let pos = if n == 1 { "only" } else if i == 0 { "first" } else if i + 1 == n { "last" } else { "middle" };
                    self.stats.bump(&format!("require_static_pos.{}", pos));
                }
                if f.name == "cache" {
                    self.stats.bump("fields.named_cache");
                }
                let t = f.ty.clone();
                self.record_ty_stats(&t, 0);
            }
        }
    }

    // ---------------------------------------------------------------- one group
    pub fn gen_group(&mut self, index: usize) -> (Group, Vec<Case>) {
        self.group = index;
        self.decls.clear();
        let top = self.gen_decl(0, false);
        let closed = Scope { param_static: vec![], allow_self: false };
        let args = self.gen_args(top, &closed, 1, 1);
        // gen_args may have pushed further declarations (inside the arguments); `top` stays valid
        self.finish_group(index, top, args, "g")
    }

    /// One member of the systematic recursive family.
    pub fn gen_family(&mut self, index: usize, serial: usize, s: &FamSpec) -> (Group, Vec<Case>) {
        self.group = index;
        self.decls.clear();
        let g = Ty::GcSelf(false);
        let opt = |t: Ty| Ty::Con(Con::Option, vec![t]);
        let (link_ty, link_name) = match s.link {
            0 => (g.clone(), "next"),
            1 => (Ty::WeakSelf, "parent"),
            2 => (opt(g.clone()), "next"),
            3 => (Ty::Con(Con::Vec, vec![g.clone()]), "children"),
            4 => (Ty::Con(Con::Array(2), vec![opt(g.clone())]), "children"),
            _ => (opt(Ty::GcSelf(true)), "next"),
        };
        let mut fields: Vec<Field> = s
            .comps
            .iter()
            .map(|c| match c {
                0 => Field { name: "value".into(), stat: false, ty: Ty::Leaf(Leaf::I32) },
                1 => Field { name: "token".into(), stat: true, ty: Ty::Tok },
                _ => Field { name: "other".into(), stat: false, ty: Ty::Gc },
            })
            .collect();
        fields.insert(s.pos, Field { name: link_name.into(), stat: false, ty: link_ty });
        if s.generic {
            let f = Field { name: "p0".into(), stat: false, ty: Ty::Param(0) };
            if serial % 4 < 2 { fields.push(f) } else { fields.insert(0, f) }
        }
        let style = |named: bool| if named { Style::Named } else { Style::Tuple };
        let variants = match s.kind {
            0 => vec![Variant { name: "V0".into(), style: Style::Named, fields }],
            1 => vec![Variant { name: "V0".into(), style: Style::Tuple, fields }],
            _ => {
                let link = Variant { name: "Link".into(), style: style((serial / 2) % 2 == 0), fields };
                let nil = Variant { name: "Nil".into(), style: Style::Unit, fields: vec![] };
                let other = Variant {
                    name: "Other".into(),
                    style: Style::Tuple,
                    fields: vec![Field { name: "x".into(), stat: false, ty: Ty::Leaf(Leaf::I32) }],
                };
                match serial % 3 {
                    0 => vec![nil, link, other],
                    1 => vec![link, nil],
                    _ => vec![other, nil, link],
                }
            }
        };
        let mode = if serial % 5 == 4 { Mode::UnsafeDrop } else { Mode::NoDrop };
        let decl = Decl {
            name: format!("R{}_0", index),
            is_enum: s.kind == 2,
            mode,
            has_drop: mode == Mode::UnsafeDrop && serial % 2 == 0,
            lifetimes: 1,
            tparams: if s.generic { 1 } else { 0 },
            param_static: if s.generic { vec![false] } else { vec![] },
            bound: if s.generic && serial % 3 == 0 { Some(vec![0]) } else { None },
            variants,
        };
        self.decls.push(decl);
        let args = if s.generic { vec![if serial % 8 == 7 { Ty::Gc } else { Ty::Leaf(Leaf::U8) }] } else { vec![] };
        self.stats.bump("family.groups");
        self.finish_group(index, 0, args, "r")
    }

    fn finish_group(&mut self, index: usize, top: usize, args: Vec<Ty>, prefix: &str) -> (Group, Vec<Case>) {
        let mut src = String::new();
        for d in &self.decls {
            src.push_str(&self.decl_rust(d));
        }
        let decls = self.decls.clone();
        for (i, d) in decls.iter().enumerate() {
            self.record_decl_stats(d, i == top);
        }
        let top_ty = Ty::Adt(top, args.clone());
        let rust_ty = self.rust_ty(&top_ty, false);
        let desc_ty = self.desc_ty(&top_ty);
        let mut cases = vec![];
        let nv = self.decls[top].variants.len();
        let recursive = self.decls.iter().any(|d| d.variants.iter().any(|v| v.fields.iter().any(|f| Self::mentions_self(&f.ty))));
        for k in 0..nv {
            self.next_id = 0;
            if !self.variant_buildable(&top_ty, k, 2) {
                // e.g. a struct with a bare `Gc<'gc, Self>` field: no finite value exists in safe
                // code; the NEEDS_TRACE constant is still compared with the model
                self.stats.bump("cases.needs_trace_only(no finite value)");
                cases.push(Case {
                    name: format!("{}{:04}v{}", prefix, index, k),
                    desc_ty: desc_ty.clone(),
                    desc_val: "-".into(),
                    rust_ty: rust_ty.clone(),
                    rust_expr: String::new(),
                    group: index,
                    variant: k,
                    nptrs: 0,
                    nweak: 0,
                    field_ptrs: vec![],
                    nt_only: true,
                });
                continue;
            }
            let mut per_field = vec![];
            let (expr, dv, n, w) = self.gen_val(&top_ty, Some(k), Some(&mut per_field), 0, 2);
            self.stats.bump("cases.total");
            if recursive {
                self.stats.bump("cases.in_recursive_group");
            }
            self.stats.bump(&format!("case_ptrs.{}", if n >= 8 { "8+".to_string() } else { n.to_string() }));
            self.stats.add("ptrs.total", n);
            self.stats.add("ptrs.weak", w);
            let nf = per_field.len();
            for (i, (stat, cnt)) in per_field.iter().enumerate() {
                if *cnt > 0 {
                    let pos = if nf == 1 { "only" } else if i == 0 { "first" } else if i + 1 == nf { "last" } else { "middle" };
                    self.stats.bump(&format!("ptr_in_field_pos.{}", pos));
                    self.stats.bump(&format!("ptr_in_field_index.{}", i.min(5)));
                    if *stat {
                        self.stats.bump("ptr_in_require_static_field(bug)");
                    }
                }
            }
            if k > 0 && n > 0 {
                self.stats.bump("cases.ptr_in_non_first_variant");
            }
            cases.push(Case {
                name: format!("{}{:04}v{}", prefix, index, k),
                desc_ty: desc_ty.clone(),
                desc_val: dv,
                rust_ty: rust_ty.clone(),
                rust_expr: expr,
                group: index,
                variant: k,
                nptrs: n,
                nweak: w,
                field_ptrs: per_field,
                nt_only: false,
            });
        }
        (Group { index, decls, top, args, decl_src: src }, cases)
    }
}

pub const PRELUDE: &str = r#"#[allow(unused_imports)]
use gc_arena::{Collect, Gc, GcWeak, Mutation, Rootable, lock::{Lock, RefLock}};
#[allow(unused_imports)]
use std::{collections::{BTreeMap, VecDeque}, marker::PhantomData, rc::Rc};
/// A `'static` type without a `Collect` impl.
#[allow(dead_code)]
pub struct NoImpl(pub u8);
"#;

/// Writes the module source: returns (module text, stats text).  `n` random groups from the seed,
/// followed (when `family`) by the systematic recursive family (independent of the seed).
pub fn generate(seed: u64, n: usize, family: bool) -> (String, String) {
    let mut g = Gen::new(seed);
    let mut out = String::new();
    out.push_str("// @generated by gen/shapes.rs — do not edit\n");
    let specs = if family { family_specs() } else { vec![] };
    let _ = writeln!(out, "pub const SEED: u64 = {};\npub const GROUPS: usize = {};\npub const FAMILY: usize = {};", seed, n, specs.len());
    let mut table = String::new();
    for i in 0..n + specs.len() {
        let (grp, cases) = if i < n { g.gen_group(i) } else { g.gen_family(i, i - n, &specs[i - n]) };
        let modname = format!("{}{:04}", if i < n { "g" } else { "r" }, i);
        let _ = writeln!(out, "#[allow(dead_code, non_camel_case_types, unused_variables, unused_mut, unused_imports)]\npub mod {} {{", modname);
        out.push_str("use crate::rec::*;\n");
        out.push_str(PRELUDE);
        out.push_str(&grp.decl_src);
        for c in &cases {
            if c.nt_only {
                let _ = writeln!(
                    out,
                    "pub fn nt_v{}<'gc>(_mc: &'gc Mutation<'gc>) -> bool {{\n    <{} as Collect<'gc>>::NEEDS_TRACE\n}}",
                    c.variant, c.rust_ty
                );
                let replay = format!(
                    "{}{}\n// no finite value of this variant exists in safe code; only the constant is observed\nfn needs_trace<'gc>() -> bool {{\n    <{} as Collect<'gc>>::NEEDS_TRACE\n}}\n",
                    PRELUDE, grp.decl_src, c.rust_ty
                );
                let _ = writeln!(
                    table,
                    "    Case {{ name: {:?}, ty: {:?}, val: {:?}, src: {:?}, nptrs: 0, run: None, survive: None, nt: Some({}::nt_v{}) }},",
                    c.name, c.desc_ty, c.desc_val, replay, modname, c.variant
                );
                continue;
            }
            let root_ty = c.rust_ty.replace("'gc", "'_");
            let _ = writeln!(
                out,
                "pub fn build_v{k}<'gc>(p: &mut Ptrs<'gc>) -> {ty} {{\n    {expr}\n}}\n\
                 pub fn run_v{k}<'gc>(mc: &'gc Mutation<'gc>) -> Obs {{\n    let mut p = Ptrs::new(mc);\n    let v: {ty} = build_v{k}(&mut p);\n    observe::<{ty}>(&p, &v)\n}}\n\
                 pub fn survive_v{k}() -> Surv {{\n    survive::<Rootable![({root}, Vec<GcWeak<'_, ()>>)]>(|mc| {{\n        let mut p = Ptrs::new(mc);\n        let v = build_v{k}(&mut p);\n        (v, p.take_observers())\n    }})\n}}",
                k = c.variant, ty = c.rust_ty, expr = c.rust_expr, root = root_ty
            );
            let replay = format!(
                "{}{}\n// `p.g(id)` / `p.w(id)`: a distinct Gc<u32> / GcWeak<u32> with that id; `p.adopt(id, v)`: `Gc::new(mc, v)` registered\n// with that id (a `Self`-typed link); `p.tok()`: a DropTok payload; a trailing `0` = below a weakly held node\n// (harness_collect/src/rec.rs).  The value is traced with the recording tracer (Trace::trace), then built\n// again as an arena root and checked after two finish_cycle()s.\nfn build<'gc>(p: &mut Ptrs<'gc>) -> {} {{\n    {}\n}}\n",
                PRELUDE, grp.decl_src, c.rust_ty, c.rust_expr
            );
            let _ = writeln!(
                table,
                "    Case {{ name: {:?}, ty: {:?}, val: {:?}, src: {:?}, nptrs: {}, run: Some({m}::run_v{k}), survive: Some({m}::survive_v{k}), nt: None }},",
                c.name, c.desc_ty, c.desc_val, replay, c.nptrs, m = modname, k = c.variant
            );
        }
        out.push_str("}\n");
    }
    let _ = writeln!(out, "pub static CASES: &[Case] = &[\n{}];", table);
    let mut stats = String::new();
    for (k, v) in &g.stats.counters {
        let _ = writeln!(stats, "{} {}", k, v);
    }
    let _ = writeln!(out, "pub const STATS: &str = {:?};", stats);
    (out, stats)
}
