// Code generators. Shape generator (C15 differential): writes $OUT_DIR/shapes.rs, a module of SHAPES_N random
// `#[derive(Collect)]` groups generated from SHAPES_SEED (see gen/shapes.rs).
#[path = "gen/shapes.rs"]
mod shapes;
#[path = "gen/tuples.rs"]
mod tuples;

fn main() {
    println!("cargo:rerun-if-env-changed=SHAPES_SEED");
    println!("cargo:rerun-if-env-changed=SHAPES_N");
    println!("cargo:rerun-if-env-changed=SHAPES_FAMILY");
    println!("cargo:rerun-if-changed=gen/shapes.rs");
    println!("cargo:rerun-if-changed=gen/tuples.rs");
    println!("cargo:rerun-if-changed=build.rs");
    let seed: u64 = std::env::var("SHAPES_SEED").ok().and_then(|s| s.parse().ok()).unwrap_or(1);
    let n: usize = std::env::var("SHAPES_N").ok().and_then(|s| s.parse().ok()).unwrap_or(60);
    // the systematic recursive (`Self`-typed link) family is appended unless SHAPES_FAMILY=0
    let family = std::env::var("SHAPES_FAMILY").map(|s| s != "0").unwrap_or(true);
    let (src, _stats) = shapes::generate(seed, n, family);
    let out = std::path::Path::new(&std::env::var("OUT_DIR").unwrap()).join("shapes.rs");
    std::fs::write(out, src).unwrap();
    let out = std::path::Path::new(&std::env::var("OUT_DIR").unwrap()).join("tuples.rs");
    std::fs::write(out, tuples::generate()).unwrap();
}
