//! extract-brand — the C12 translator (DESIGN.md §2.3, §5 `BrandTable` row).
//!
//!     extract-brand [--repo /repo] [--lean OUT.lean] [--json OUT.json]
//!
//! Parses `<repo>/src/*.rs` with `syn` on every run and regenerates
//! `lean/GcArena/Generated/BrandTable.lean` (plain Lean data in the grammar of
//! `GcArena.Brand`) plus a JSON copy for the probe generator.  Items under
//! `#[cfg(gc_arena_verif)]` / `#[cfg(test)]` / `#[cfg(doc)]` and `src/verif.rs` are ignored
//! (verification hooks).  Anything that cannot be classified is emitted as
//! `unclassified "<item>"` so that the table theorems fail (fail closed).

mod ir;
mod emit;

use ir::{Lt, Ty};
use quote::ToTokens;
use std::collections::{HashMap, HashSet};
use syn::visit::Visit;

// ------------------------------------------------------------------------------------------
// table records
// ------------------------------------------------------------------------------------------

pub struct FieldRec {
    pub name: String,
    pub ty: Ty,
    pub cfg: String,
}

pub struct ParamRec {
    pub name: String,
    /// names of the traits bounding the parameter (last path segment), for probe instantiation
    pub bounds: Vec<String>,
    pub has_default: bool,
    pub maybe_unsized: bool,
}

pub struct AdtRec {
    pub name: String,
    pub file: String,
    pub vis: &'static str,
    pub kind: &'static str,
    pub lts: Vec<String>,
    pub tys: Vec<ParamRec>,
    pub consts: Vec<String>,
    pub fields: Vec<FieldRec>,
    pub pub_path: String,
    pub cfg: String,
}

pub struct AliasRec {
    pub name: String,
    pub file: String,
    pub lts: Vec<String>,
    pub tys: Vec<String>,
    pub body: Ty,
    pub pub_path: String,
}

pub struct CallbackRec {
    pub name: String,
    pub file: String,
    pub outer_lts: Vec<String>,
    pub outer_tys: Vec<String>,
    pub cb_param: String,
    pub fn_trait: String,
    pub binder: Vec<String>,
    pub args: Vec<Ty>,
    pub ret: Ty,
    pub fn_ret: Ty,
    pub receiver: String,
    pub fn_pub: bool,
    pub fn_unsafe: bool,
}

/// A place where a brand is created out of nothing: a call of a *brand source* (an `unsafe fn`
/// whose result is a `Mutation` / `Finalization` with a lifetime the caller picks), or – in
/// `arena.rs` – a reference produced by dereferencing a pointer cast (`&*(e as *const _)`).
#[derive(Clone)]
pub struct BrandSiteRec {
    pub file: String,
    pub fn_: String,
    pub fn_last: String,
    pub fn_unsafe: bool,
    pub fn_pub: bool,
    pub kind: String,
    pub text: String,
}

/// What an identity-check function (`contains`) compares: the tail expression of its body.
pub struct IdentityFnRec {
    pub file: String,
    pub name: String,
    pub qual: String,
    pub params: Vec<String>,
    /// "==" | "ptr::eq" | "" (the tail is not a comparison)
    pub cmp: String,
    /// parameters each side of the comparison is computed from (through `let` bindings)
    pub lhs_deps: Vec<String>,
    pub rhs_deps: Vec<String>,
    pub ret_bool: bool,
}

pub struct CollectRec {
    pub file: String,
    pub self_ty: Ty,
    pub lts: Vec<String>,
    pub tys: Vec<(String, bool)>,
    pub self_static: bool,
    pub cfg: String,
}

pub struct TransmuteRec {
    pub file: String,
    pub fn_: String,
    pub fn_unsafe: bool,
    pub fn_pub: bool,
    pub src: Option<Ty>,
    pub dst: Option<Ty>,
    pub guards: Vec<(String, bool)>,
    pub cast_to_raw: bool,
    pub operand: String,
    pub operand_base: String,
    pub fn_ret: Ty,
    /// last path segment of `fn_` and the fn's parameter names (`self` first when it has a receiver)
    pub fn_last: String,
    pub fn_params: Vec<String>,
}

/// A place where a crate function is called (or merely mentioned, `is_call == false`).  Emitted
/// only for callees through which a re-branding site has to be lifted (private `unsafe fn`s).
#[derive(Clone)]
pub struct CallSiteRec {
    pub file: String,
    pub caller: String,
    pub caller_last: String,
    pub caller_unsafe: bool,
    pub caller_pub: bool,
    pub caller_params: Vec<String>,
    pub callee: String,
    pub callee_path: String,
    pub args: Vec<String>,
    pub arg_bases: Vec<String>,
    pub guards: Vec<(String, bool)>,
    pub is_call: bool,
}

/// A safe method (inherent `pub`, or of a trait impl) of a public ADT that takes a value whose type
/// mentions a type parameter: the raw material of the builder rule (`Brand.Table.builderRows`).
pub struct MethodRec {
    pub adt: String,
    pub file: String,
    pub method: String,
    pub trait_: String,
    /// the type arguments of the impl's self type, in the order of the ADT's type parameters
    pub self_args: Vec<Ty>,
    /// result type of the method
    pub ret: Ty,
    /// types of the non-receiver parameters, plus what a callback / iterator parameter supplies
    /// (`impl FnMut(usize) -> E` supplies `E`, `impl IntoIterator<Item = E>` supplies `E`)
    pub params: Vec<Ty>,
    /// impl / method type parameters bounded by `Collect` or `'static` at this method
    pub bounded: Vec<String>,
}

pub struct AutoImplRec {
    pub trait_: String,
    pub negative: bool,
    pub target: String,
    pub file: String,
    pub cfg: String,
}

#[derive(Default)]
pub struct Table {
    pub adts: Vec<AdtRec>,
    pub aliases: Vec<AliasRec>,
    pub callbacks: Vec<CallbackRec>,
    pub collect_impls: Vec<CollectRec>,
    pub transmutes: Vec<TransmuteRec>,
    /// all call sites seen (pass 2); filtered to the relevant callees before emission
    pub all_sites: Vec<CallSiteRec>,
    pub call_sites: Vec<CallSiteRec>,
    pub methods: Vec<MethodRec>,
    pub brand_sites: Vec<BrandSiteRec>,
    pub brand_sources: Vec<(String, String, String)>,
    pub identity_fns: Vec<IdentityFnRec>,
    pub auto_impls: Vec<AutoImplRec>,
    pub unclassified: Vec<String>,
    /// informational: item-level macro invocations / definitions that were not expanded
    pub item_macros: Vec<(String, String)>,
    pub files: Vec<String>,
}

// ------------------------------------------------------------------------------------------
// crate index (pass 1)
// ------------------------------------------------------------------------------------------

struct RawAdt {
    file: usize,
    vis: &'static str,
    kind: &'static str,
    generics: syn::Generics,
    fields: Vec<(String, syn::Type, String)>,
    cfg: String,
}

struct RawAlias {
    file: usize,
    vis: &'static str,
    generics: syn::Generics,
    ty: syn::Type,
}

struct RawTrait {
    file: usize,
    generics: syn::Generics,
    supertraits: Vec<syn::TypeParamBound>,
    assocs: Vec<String>,
}

struct FileInfo {
    name: String,
    module: String,
    imports: HashMap<String, String>,
    local_names: HashSet<String>,
    /// names of all functions / methods defined in the file (for classifying unsafe regions)
    fn_names: HashSet<String>,
}

#[derive(Clone, Debug)]
struct TraitRef {
    name: String,
    lts: Vec<Lt>,
    tys: Vec<Ty>,
}

#[derive(Clone, Default)]
struct Scope {
    file: usize,
    lts: Vec<String>,
    tys: Vec<String>,
    consts: Vec<String>,
    bounds: Vec<(String, TraitRef)>,
    static_params: HashSet<String>,
    self_ty: Option<Ty>,
}

struct Krate {
    files: Vec<FileInfo>,
    adts: HashMap<String, RawAdt>,
    aliases: HashMap<String, RawAlias>,
    traits: HashMap<String, RawTrait>,
    pub_mods: HashSet<String>,
    root_reexports: HashSet<String>,
    unclassified: Vec<String>,
}

enum Cfg {
    Skip,
    Keep(String),
}

fn squash(ts: impl ToTokens) -> String {
    ts.to_token_stream().to_string().split_whitespace().collect::<String>()
}

fn cfg_of(attrs: &[syn::Attribute]) -> Cfg {
    let mut keep = Vec::new();
    for a in attrs {
        if a.path().is_ident("cfg") {
            let s = match &a.meta {
                syn::Meta::List(l) => squash(&l.tokens),
                m => squash(m),
            };
            if s == "gc_arena_verif" || s == "test" || s == "doc" {
                return Cfg::Skip;
            }
            if s.contains("gc_arena_verif") && !s.starts_with("not(") {
                return Cfg::Skip;
            }
            if s == "not(gc_arena_verif)" {
                continue;
            }
            keep.push(s);
        }
    }
    Cfg::Keep(keep.join(" && "))
}

fn vis_of(v: &syn::Visibility) -> &'static str {
    match v {
        syn::Visibility::Public(_) => "pub",
        syn::Visibility::Restricted(_) => "crate",
        syn::Visibility::Inherited => "priv",
    }
}

fn flatten_use(prefix: &str, tree: &syn::UseTree, out: &mut Vec<(String, String)>) {
    let join = |a: &str, b: &str| if a.is_empty() { b.to_string() } else { format!("{}::{}", a, b) };
    match tree {
        syn::UseTree::Path(p) => flatten_use(&join(prefix, &p.ident.to_string()), &p.tree, out),
        syn::UseTree::Name(n) => {
            let id = n.ident.to_string();
            if id == "self" {
                let last = prefix.rsplit("::").next().unwrap_or("").to_string();
                out.push((last, prefix.to_string()));
            } else {
                out.push((id.clone(), join(prefix, &id)));
            }
        }
        syn::UseTree::Rename(r) => out.push((r.rename.to_string(), join(prefix, &r.ident.to_string()))),
        syn::UseTree::Glob(_) => {}
        syn::UseTree::Group(g) => {
            for t in &g.items {
                flatten_use(prefix, t, out);
            }
        }
    }
}

const PRIMS: &[&str] = &[
    "bool", "char", "u8", "u16", "u32", "u64", "u128", "usize", "i8", "i16", "i32", "i64", "i128", "isize", "f32",
    "f64", "str",
];

fn std_ctor(full: &str) -> Option<&'static str> {
    let segs: Vec<&str> = full.split("::").collect();
    let last = *segs.last().unwrap();
    let root_ok = segs.len() == 1 || matches!(segs[0], "core" | "alloc" | "std");
    if !root_ok {
        return None;
    }
    let in_sync = segs.iter().any(|s| *s == "sync");
    Some(match last {
        "PhantomData" => "phantomData",
        "Cell" => "cell",
        "UnsafeCell" => "unsafeCell",
        "RefCell" => "refCell",
        "Rc" => "rc",
        "Weak" if in_sync => "arcWeak",
        "Weak" if segs.iter().any(|s| *s == "rc") => "rcWeak",
        "Arc" => "arc",
        "Box" => "box",
        "Vec" => "vec",
        "Option" => "option",
        "Result" if segs.len() == 1 || segs.iter().any(|s| *s == "result") => "result",
        "NonNull" => "nonNull",
        "ManuallyDrop" => "manuallyDrop",
        "MaybeUninit" => "maybeUninit",
        _ => return None,
    })
}

impl Krate {
    fn file(&self, i: usize) -> &FileInfo {
        &self.files[i]
    }

    /// Resolve a (possibly multi-segment) path written in file `fi` to either a crate-local item
    /// name or an external full path.
    fn resolve(&self, fi: usize, segs: &[String]) -> (bool, String) {
        let f = self.file(fi);
        let first = &segs[0];
        let last = segs.last().unwrap().clone();
        if matches!(first.as_str(), "crate" | "self" | "super") {
            return (true, last);
        }
        if segs.len() == 1 {
            if let Some(p) = f.imports.get(first) {
                let root = p.split("::").next().unwrap_or("");
                if matches!(root, "crate" | "self" | "super") {
                    return (true, p.rsplit("::").next().unwrap().to_string());
                }
                return (false, p.clone());
            }
            if f.local_names.contains(first) {
                return (true, last);
            }
            if matches!(first.as_str(), "Option" | "Result") {
                return (false, format!("core::{}::{}", first.to_lowercase(), first));
            }
            if self.adts.contains_key(first) || self.aliases.contains_key(first) {
                // glob import / macro-provided path: assume the crate-level item
                return (true, last);
            }
            return (false, last);
        }
        // multi-segment external path; expand an imported first segment (`ptr::NonNull`)
        let mut full: Vec<String> = Vec::new();
        if let Some(p) = f.imports.get(first) {
            let root = p.split("::").next().unwrap_or("");
            if matches!(root, "crate" | "self" | "super") {
                return (true, last);
            }
            full.extend(p.split("::").map(|s| s.to_string()));
        } else {
            full.push(first.clone());
        }
        full.extend(segs[1..].iter().cloned());
        (false, full.join("::"))
    }

    fn lt(&self, l: &syn::Lifetime) -> Lt {
        let n = l.ident.to_string();
        match n.as_str() {
            "static" => Lt::Static,
            "_" => Lt::Erased,
            _ => Lt::Named(n),
        }
    }

    fn generic_args(&self, args: &syn::PathArguments, sc: &Scope) -> (Vec<Lt>, Vec<Ty>) {
        let mut lts = Vec::new();
        let mut tys = Vec::new();
        if let syn::PathArguments::AngleBracketed(ab) = args {
            for a in &ab.args {
                match a {
                    syn::GenericArgument::Lifetime(l) => lts.push(self.lt(l)),
                    syn::GenericArgument::Type(t) => {
                        // a bare identifier that is a const parameter parses as a type
                        if let syn::Type::Path(tp) = t {
                            if tp.qself.is_none() && tp.path.segments.len() == 1 {
                                let id = tp.path.segments[0].ident.to_string();
                                if sc.consts.contains(&id) {
                                    continue;
                                }
                            }
                        }
                        tys.push(self.ty(t, sc))
                    }
                    // const arguments and associated-type bindings carry no lifetimes of interest
                    syn::GenericArgument::Const(_) => {}
                    syn::GenericArgument::AssocType(_) | syn::GenericArgument::AssocConst(_) => {}
                    syn::GenericArgument::Constraint(_) => {}
                    _ => {}
                }
            }
        }
        (lts, tys)
    }

    fn trait_ref(&self, tb: &syn::TraitBound, sc: &Scope) -> TraitRef {
        let seg = tb.path.segments.last().unwrap();
        let (lts, tys) = self.generic_args(&seg.arguments, sc);
        TraitRef { name: seg.ident.to_string(), lts, tys }
    }

    fn scope_for(&self, file: usize, base: Option<&Scope>, g: &syn::Generics) -> Scope {
        let mut sc = base.cloned().unwrap_or_default();
        sc.file = file;
        for p in &g.params {
            match p {
                syn::GenericParam::Lifetime(l) => sc.lts.push(l.lifetime.ident.to_string()),
                syn::GenericParam::Type(t) => sc.tys.push(t.ident.to_string()),
                syn::GenericParam::Const(c) => sc.consts.push(c.ident.to_string()),
            }
        }
        let snapshot = sc.clone();
        let add = |sc: &mut Scope, who: String, bounds: &syn::punctuated::Punctuated<syn::TypeParamBound, syn::Token![+]>| {
            for b in bounds {
                match b {
                    syn::TypeParamBound::Trait(tb) => {
                        if matches!(tb.modifier, syn::TraitBoundModifier::Maybe(_)) {
                            continue;
                        }
                        let tr = self.trait_ref(tb, &snapshot);
                        sc.bounds.push((who.clone(), tr));
                    }
                    syn::TypeParamBound::Lifetime(l) => {
                        if l.ident == "static" {
                            sc.static_params.insert(who.clone());
                        }
                    }
                    _ => {}
                }
            }
        };
        for p in &g.params {
            if let syn::GenericParam::Type(t) = p {
                add(&mut sc, t.ident.to_string(), &t.bounds);
            }
        }
        if let Some(w) = &g.where_clause {
            for pr in &w.predicates {
                if let syn::WherePredicate::Type(pt) = pr {
                    if let syn::Type::Path(tp) = &pt.bounded_ty {
                        if tp.qself.is_none() && tp.path.segments.len() == 1 {
                            let id = tp.path.segments[0].ident.to_string();
                            if sc.tys.contains(&id) {
                                add(&mut sc, id, &pt.bounds);
                            }
                        }
                    }
                }
            }
        }
        sc
    }

    /// `P::Assoc` with `P` a type parameter: find the trait through P's bounds (and their
    /// supertraits).
    fn resolve_assoc(&self, param: &str, assoc: &str, sc: &Scope) -> Ty {
        fn search(k: &Krate, tr: &TraitRef, assoc: &str, depth: usize) -> Option<TraitRef> {
            let rt = k.traits.get(&tr.name)?;
            if rt.assocs.iter().any(|a| a == assoc) {
                return Some(tr.clone());
            }
            if depth == 0 {
                return None;
            }
            // substitute the trait's own parameters by the arguments of `tr`
            let mut lm = HashMap::new();
            let mut tm = HashMap::new();
            let mut li = 0;
            let mut ti = 0;
            for p in &rt.generics.params {
                match p {
                    syn::GenericParam::Lifetime(l) => {
                        if let Some(a) = tr.lts.get(li) {
                            lm.insert(l.lifetime.ident.to_string(), a.clone());
                        }
                        li += 1;
                    }
                    syn::GenericParam::Type(t) => {
                        if let Some(a) = tr.tys.get(ti) {
                            tm.insert(t.ident.to_string(), a.clone());
                        }
                        ti += 1;
                    }
                    _ => {}
                }
            }
            let tsc = k.scope_for(rt.file, None, &rt.generics);
            for sb in &rt.supertraits {
                if let syn::TypeParamBound::Trait(tb) = sb {
                    let st = k.trait_ref(tb, &tsc);
                    let st = TraitRef {
                        name: st.name,
                        lts: st
                            .lts
                            .iter()
                            .map(|l| match l {
                                Lt::Named(n) => lm.get(n).cloned().unwrap_or(l.clone()),
                                _ => l.clone(),
                            })
                            .collect(),
                        tys: st.tys.iter().map(|t| t.subst(&lm, &tm)).collect(),
                    };
                    if let Some(r) = search(k, &st, assoc, depth - 1) {
                        return Some(r);
                    }
                }
            }
            None
        }
        for (who, tr) in &sc.bounds {
            if who == param {
                if let Some(r) = search(self, tr, assoc, 4) {
                    return Ty::Proj {
                        self_: Box::new(Ty::Param(param.to_string())),
                        trait_: r.name,
                        lts: r.lts,
                        tys: r.tys,
                        assoc: assoc.to_string(),
                    };
                }
            }
        }
        // external trait (e.g. `Deref::Target`) or unresolved: keep it as a projection with an
        // unknown trait; the model treats projections conservatively.
        let tr = sc.bounds.iter().find(|(w, _)| w == param).map(|(_, t)| t.name.clone()).unwrap_or_else(|| "?".into());
        Ty::Proj { self_: Box::new(Ty::Param(param.to_string())), trait_: format!("?{}", tr), lts: vec![], tys: vec![], assoc: assoc.to_string() }
    }

    fn named(&self, local: bool, name: &str, lts: Vec<Lt>, tys: Vec<Ty>, depth: usize) -> Ty {
        if depth > 16 {
            return Ty::Unclassified(format!("alias recursion at {}", name));
        }
        if local {
            if let Some(al) = self.aliases.get(name) {
                let asc = self.scope_for(al.file, None, &al.generics);
                let body = self.ty_d(&al.ty, &asc, depth + 1);
                let (lm, tm) = self.bind_params(&al.generics, al.file, lts, tys, depth);
                return body.subst(&lm, &tm);
            }
            if let Some(ad) = self.adts.get(name) {
                let (lm, tm) = self.bind_params(&ad.generics, ad.file, lts, tys, depth);
                let mut ls = Vec::new();
                let mut ts = Vec::new();
                for p in &ad.generics.params {
                    match p {
                        syn::GenericParam::Lifetime(l) => ls.push(lm.get(&l.lifetime.ident.to_string()).cloned().unwrap_or(Lt::Erased)),
                        syn::GenericParam::Type(t) => ts.push(
                            tm.get(&t.ident.to_string())
                                .cloned()
                                .unwrap_or_else(|| Ty::Unclassified(format!("missing argument {} of {}", t.ident, name))),
                        ),
                        _ => {}
                    }
                }
                return Ty::Adt { name: name.to_string(), lts: ls, tys: ts };
            }
            // crate-local but unknown to the index (macro-defined type such as `Lock`)
            return Ty::Adt { name: format!("crate::{}", name), lts, tys };
        }
        if let Some(c) = std_ctor(name) {
            return Ty::Std(c, tys);
        }
        let last = name.rsplit("::").next().unwrap();
        if tys.is_empty() && lts.is_empty() && (last == "String" || last == "Layout") {
            return Ty::Prim(last.to_string());
        }
        Ty::Adt { name: name.to_string(), lts, tys }
    }

    /// Bind the generic parameters of an alias / ADT to the given arguments, filling defaults.
    fn bind_params(
        &self,
        g: &syn::Generics,
        file: usize,
        lts: Vec<Lt>,
        tys: Vec<Ty>,
        depth: usize,
    ) -> (HashMap<String, Lt>, HashMap<String, Ty>) {
        let mut lm = HashMap::new();
        let mut tm: HashMap<String, Ty> = HashMap::new();
        let mut li = 0;
        let mut ti = 0;
        let dsc = self.scope_for(file, None, g);
        for p in &g.params {
            match p {
                syn::GenericParam::Lifetime(l) => {
                    lm.insert(l.lifetime.ident.to_string(), lts.get(li).cloned().unwrap_or(Lt::Erased));
                    li += 1;
                }
                syn::GenericParam::Type(t) => {
                    let v = if let Some(a) = tys.get(ti) {
                        Some(a.clone())
                    } else if let Some(d) = &t.default {
                        Some(self.ty_d(d, &dsc, depth + 1).subst(&lm, &tm))
                    } else {
                        None
                    };
                    if let Some(v) = v {
                        tm.insert(t.ident.to_string(), v);
                    }
                    ti += 1;
                }
                _ => {}
            }
        }
        (lm, tm)
    }

    fn ty(&self, t: &syn::Type, sc: &Scope) -> Ty {
        self.ty_d(t, sc, 0)
    }

    fn ty_d(&self, t: &syn::Type, sc: &Scope, depth: usize) -> Ty {
        match t {
            syn::Type::Paren(p) => self.ty_d(&p.elem, sc, depth),
            syn::Type::Group(p) => self.ty_d(&p.elem, sc, depth),
            syn::Type::Never(_) => Ty::Prim("!".into()),
            syn::Type::Tuple(tt) => Ty::Tuple(tt.elems.iter().map(|e| self.ty_d(e, sc, depth)).collect()),
            syn::Type::Slice(s) => Ty::Slice(Box::new(self.ty_d(&s.elem, sc, depth))),
            syn::Type::Array(a) => Ty::Slice(Box::new(self.ty_d(&a.elem, sc, depth))),
            syn::Type::Reference(r) => {
                let l = r.lifetime.as_ref().map(|l| self.lt(l)).unwrap_or(Lt::Erased);
                let inner = Box::new(self.ty_d(&r.elem, sc, depth));
                if r.mutability.is_some() { Ty::RefMut(l, inner) } else { Ty::Ref(l, inner) }
            }
            syn::Type::Ptr(p) => {
                let inner = Box::new(self.ty_d(&p.elem, sc, depth));
                if p.mutability.is_some() { Ty::RawMut(inner) } else { Ty::RawConst(inner) }
            }
            syn::Type::BareFn(f) => {
                let bound: Vec<String> = f
                    .lifetimes
                    .as_ref()
                    .map(|b| {
                        b.lifetimes
                            .iter()
                            .filter_map(|p| if let syn::GenericParam::Lifetime(l) = p { Some(l.lifetime.ident.to_string()) } else { None })
                            .collect()
                    })
                    .unwrap_or_default();
                let args = f.inputs.iter().map(|a| self.ty_d(&a.ty, sc, depth)).collect();
                let ret = match &f.output {
                    syn::ReturnType::Default => Ty::unit(),
                    syn::ReturnType::Type(_, t) => self.ty_d(t, sc, depth),
                };
                Ty::FnPtr { bound, args, ret: Box::new(ret) }
            }
            syn::Type::Path(tp) => self.ty_path(tp, sc, depth),
            other => Ty::Unclassified(squash(other)),
        }
    }

    fn ty_path(&self, tp: &syn::TypePath, sc: &Scope, depth: usize) -> Ty {
        let segs: Vec<String> = tp.path.segments.iter().map(|s| s.ident.to_string()).collect();
        if let Some(q) = &tp.qself {
            // <S as Trait<..>>::Assoc
            let self_ = self.ty_d(&q.ty, sc, depth);
            if q.position == 0 || q.position + 1 != segs.len() {
                return Ty::Unclassified(squash(tp));
            }
            let tseg = &tp.path.segments[q.position - 1];
            let (lts, tys) = self.generic_args(&tseg.arguments, sc);
            return Ty::Proj { self_: Box::new(self_), trait_: tseg.ident.to_string(), lts, tys, assoc: segs.last().unwrap().clone() };
        }
        let last_seg = tp.path.segments.last().unwrap();
        // no generic arguments allowed on non-final segments
        for s in tp.path.segments.iter().take(segs.len() - 1) {
            if !matches!(s.arguments, syn::PathArguments::None) {
                return Ty::Unclassified(squash(tp));
            }
        }
        if segs.len() == 1 {
            let id = &segs[0];
            if sc.tys.contains(id) && matches!(last_seg.arguments, syn::PathArguments::None) {
                return Ty::Param(id.clone());
            }
            if id == "Self" {
                return sc.self_ty.clone().unwrap_or_else(|| Ty::Adt { name: "Self".into(), lts: vec![], tys: vec![] });
            }
            if PRIMS.contains(&id.as_str()) && matches!(last_seg.arguments, syn::PathArguments::None) {
                // a crate type could shadow a primitive name; none does (would be a duplicate)
                return Ty::Prim(id.clone());
            }
        }
        if segs.len() == 2 && (sc.tys.contains(&segs[0])) {
            return self.resolve_assoc(&segs[0], &segs[1], sc);
        }
        if segs.len() == 2 && segs[0] == "Self" {
            return Ty::Proj {
                self_: Box::new(sc.self_ty.clone().unwrap_or_else(|| Ty::Adt { name: "Self".into(), lts: vec![], tys: vec![] })),
                trait_: "?".into(),
                lts: vec![],
                tys: vec![],
                assoc: segs[1].clone(),
            };
        }
        if let syn::PathArguments::Parenthesized(_) = last_seg.arguments {
            return Ty::Unclassified(squash(tp));
        }
        let (lts, tys) = self.generic_args(&last_seg.arguments, sc);
        let (local, name) = self.resolve(sc.file, &segs);
        self.named(local, &name, lts, tys, depth)
    }
}

// ------------------------------------------------------------------------------------------
// pass 1: index
// ------------------------------------------------------------------------------------------

fn index_items(k: &mut Krate, fi: usize, items: &[syn::Item]) {
    for it in items {
        match it {
            syn::Item::Fn(f) => {
                k.files[fi].fn_names.insert(f.sig.ident.to_string());
            }
            syn::Item::Impl(im) => {
                for ii in &im.items {
                    if let syn::ImplItem::Fn(m) = ii {
                        k.files[fi].fn_names.insert(m.sig.ident.to_string());
                    }
                }
            }
            syn::Item::Use(u) => {
                let mut v = Vec::new();
                flatten_use("", &u.tree, &mut v);
                for (id, p) in v {
                    k.files[fi].imports.insert(id, p);
                }
            }
            syn::Item::Struct(s) => {
                let cfg = match cfg_of(&s.attrs) { Cfg::Skip => continue, Cfg::Keep(c) => c };
                let mut fields = Vec::new();
                for (i, f) in s.fields.iter().enumerate() {
                    let fc = match cfg_of(&f.attrs) { Cfg::Skip => continue, Cfg::Keep(c) => c };
                    fields.push((f.ident.as_ref().map(|x| x.to_string()).unwrap_or_else(|| i.to_string()), f.ty.clone(), fc));
                }
                add_adt(k, fi, s.ident.to_string(), RawAdt { file: fi, vis: vis_of(&s.vis), kind: "struct", generics: s.generics.clone(), fields, cfg });
            }
            syn::Item::Enum(e) => {
                let cfg = match cfg_of(&e.attrs) { Cfg::Skip => continue, Cfg::Keep(c) => c };
                let mut fields = Vec::new();
                for v in &e.variants {
                    let vc = match cfg_of(&v.attrs) { Cfg::Skip => continue, Cfg::Keep(c) => c };
                    for (i, f) in v.fields.iter().enumerate() {
                        let fc = match cfg_of(&f.attrs) { Cfg::Skip => continue, Cfg::Keep(c) => c };
                        let nm = format!("{}.{}", v.ident, f.ident.as_ref().map(|x| x.to_string()).unwrap_or_else(|| i.to_string()));
                        let c = [vc.clone(), fc].iter().filter(|s| !s.is_empty()).cloned().collect::<Vec<_>>().join(" && ");
                        fields.push((nm, f.ty.clone(), c));
                    }
                }
                add_adt(k, fi, e.ident.to_string(), RawAdt { file: fi, vis: vis_of(&e.vis), kind: "enum", generics: e.generics.clone(), fields, cfg });
            }
            syn::Item::Union(u) => {
                let cfg = match cfg_of(&u.attrs) { Cfg::Skip => continue, Cfg::Keep(c) => c };
                let fields = u.fields.named.iter().map(|f| (f.ident.as_ref().unwrap().to_string(), f.ty.clone(), String::new())).collect();
                add_adt(k, fi, u.ident.to_string(), RawAdt { file: fi, vis: vis_of(&u.vis), kind: "union", generics: u.generics.clone(), fields, cfg });
            }
            syn::Item::Type(t) => {
                if let Cfg::Skip = cfg_of(&t.attrs) { continue; }
                let name = t.ident.to_string();
                k.files[fi].local_names.insert(name.clone());
                if k.aliases.contains_key(&name) || k.adts.contains_key(&name) {
                    k.unclassified.push(format!("duplicate type name {} ({})", name, k.files[fi].name));
                }
                k.aliases.insert(name, RawAlias { file: fi, vis: vis_of(&t.vis), generics: t.generics.clone(), ty: (*t.ty).clone() });
            }
            syn::Item::Trait(t) => {
                if let Cfg::Skip = cfg_of(&t.attrs) { continue; }
                let assocs = t.items.iter().filter_map(|i| if let syn::TraitItem::Type(a) = i { Some(a.ident.to_string()) } else { None }).collect();
                k.files[fi].local_names.insert(t.ident.to_string());
                k.traits.insert(t.ident.to_string(), RawTrait { file: fi, generics: t.generics.clone(), supertraits: t.supertraits.iter().cloned().collect(), assocs });
            }
            syn::Item::Mod(m) => {
                if let Cfg::Skip = cfg_of(&m.attrs) { continue; }
                if let Some((_, items)) = &m.content {
                    // inline module: same file, same import table (approximation; none in the crate)
                    index_items(k, fi, items);
                }
            }
            _ => {}
        }
    }
}

fn add_adt(k: &mut Krate, fi: usize, name: String, a: RawAdt) {
    k.files[fi].local_names.insert(name.clone());
    if k.adts.contains_key(&name) || k.aliases.contains_key(&name) {
        k.unclassified.push(format!("duplicate type name {} ({})", name, k.files[fi].name));
        return;
    }
    k.adts.insert(name, a);
}

// ------------------------------------------------------------------------------------------
// pass 2: facts
// ------------------------------------------------------------------------------------------

fn pub_path(k: &Krate, fi: usize, name: &str, vis: &str) -> String {
    if vis != "pub" {
        return String::new();
    }
    if k.root_reexports.contains(name) {
        return format!("gc_arena::{}", name);
    }
    let m = &k.files[fi].module;
    if m.is_empty() {
        return format!("gc_arena::{}", name);
    }
    if k.pub_mods.contains(m) {
        return format!("gc_arena::{}::{}", m, name);
    }
    String::new()
}

fn param_recs(g: &syn::Generics) -> (Vec<String>, Vec<ParamRec>, Vec<String>) {
    let mut lts = Vec::new();
    let mut tys = Vec::new();
    let mut consts = Vec::new();
    for p in &g.params {
        match p {
            syn::GenericParam::Lifetime(l) => lts.push(l.lifetime.ident.to_string()),
            syn::GenericParam::Const(c) => consts.push(c.ident.to_string()),
            syn::GenericParam::Type(t) => {
                let mut bounds = Vec::new();
                let mut maybe = false;
                let mut scan = |bs: &syn::punctuated::Punctuated<syn::TypeParamBound, syn::Token![+]>| {
                    for b in bs {
                        if let syn::TypeParamBound::Trait(tb) = b {
                            if matches!(tb.modifier, syn::TraitBoundModifier::Maybe(_)) {
                                maybe = true;
                            } else {
                                bounds.push(tb.path.segments.last().unwrap().ident.to_string());
                            }
                        }
                    }
                };
                scan(&t.bounds);
                if let Some(w) = &g.where_clause {
                    for pr in &w.predicates {
                        if let syn::WherePredicate::Type(pt) = pr {
                            if squash(&pt.bounded_ty) == t.ident.to_string() {
                                scan(&pt.bounds);
                            }
                        }
                    }
                }
                tys.push(ParamRec { name: t.ident.to_string(), bounds, has_default: t.default.is_some(), maybe_unsized: maybe });
            }
        }
    }
    (lts, tys, consts)
}

struct FnCtx<'a> {
    k: &'a Krate,
    file: usize,
    qual: String,
    sc: Scope,
    outer_lts: Vec<String>,
    outer_tys: Vec<String>,
    fn_unsafe: bool,
    fn_pub: bool,
    fn_ret: Ty,
    receiver: String,
    fn_last: String,
    fn_params: Vec<String>,
}

fn fn_family(name: &str) -> bool {
    matches!(name, "FnOnce" | "FnMut" | "Fn")
}

fn binder_names(b: &Option<syn::BoundLifetimes>) -> Vec<String> {
    b.as_ref()
        .map(|b| b.lifetimes.iter().filter_map(|p| if let syn::GenericParam::Lifetime(l) = p { Some(l.lifetime.ident.to_string()) } else { None }).collect())
        .unwrap_or_default()
}

fn callback_from_bound(cx: &FnCtx, who: &str, outer_binder: &[String], tb: &syn::TraitBound, out: &mut Vec<CallbackRec>) {
    let seg = tb.path.segments.last().unwrap();
    if !fn_family(&seg.ident.to_string()) {
        return;
    }
    let syn::PathArguments::Parenthesized(pa) = &seg.arguments else { return };
    let mut binder: Vec<String> = outer_binder.to_vec();
    binder.extend(binder_names(&tb.lifetimes));
    let mut sc = cx.sc.clone();
    sc.lts.extend(binder.iter().cloned());
    let args: Vec<Ty> = pa.inputs.iter().map(|t| cx.k.ty(t, &sc)).collect();
    let ret = match &pa.output {
        syn::ReturnType::Default => Ty::unit(),
        syn::ReturnType::Type(_, t) => cx.k.ty(t, &sc),
    };
    let ctxs = ["Mutation", "Finalization"];
    if !(args.iter().any(|a| a.mentions_adt(&ctxs)) || ret.mentions_adt(&ctxs)) {
        return;
    }
    out.push(CallbackRec {
        name: cx.qual.clone(),
        file: cx.k.files[cx.file].name.clone(),
        outer_lts: cx.outer_lts.clone(),
        outer_tys: cx.outer_tys.clone(),
        cb_param: who.to_string(),
        fn_trait: seg.ident.to_string(),
        binder,
        args,
        ret,
        fn_ret: cx.fn_ret.clone(),
        receiver: cx.receiver.clone(),
        fn_pub: cx.fn_pub,
        fn_unsafe: cx.fn_unsafe,
    });
}

fn callbacks_of_fn(cx: &mut FnCtx, sig: &syn::Signature, out: &mut Vec<CallbackRec>) {
    // anonymous `impl Trait` parameters are outer type parameters too
    let mut anon = 0;
    for inp in &sig.inputs {
        if let syn::FnArg::Typed(pt) = inp {
            if let syn::Type::ImplTrait(_) = &*pt.ty {
                cx.outer_tys.push(format!("impl#{}", anon));
                anon += 1;
            }
        }
    }
    for p in &sig.generics.params {
        if let syn::GenericParam::Type(t) = p {
            for b in &t.bounds {
                if let syn::TypeParamBound::Trait(tb) = b {
                    callback_from_bound(cx, &t.ident.to_string(), &[], tb, out);
                }
            }
        }
    }
    if let Some(w) = &sig.generics.where_clause {
        for pr in &w.predicates {
            if let syn::WherePredicate::Type(pt) = pr {
                let who = squash(&pt.bounded_ty);
                let ob = binder_names(&pt.lifetimes);
                for b in &pt.bounds {
                    if let syn::TypeParamBound::Trait(tb) = b {
                        callback_from_bound(cx, &who, &ob, tb, out);
                    }
                }
            }
        }
    }
    let mut anon = 0;
    for inp in &sig.inputs {
        if let syn::FnArg::Typed(pt) = inp {
            if let syn::Type::ImplTrait(it) = &*pt.ty {
                for b in &it.bounds {
                    if let syn::TypeParamBound::Trait(tb) = b {
                        callback_from_bound(cx, &format!("impl#{}", anon), &[], tb, out);
                    }
                }
                anon += 1;
            }
        }
    }
}

struct TransmuteVisitor<'a, 'b> {
    cx: &'a FnCtx<'b>,
    guards: Vec<(String, bool)>,
    cast_next: Option<(*const syn::ExprCall, bool)>,
    out: Vec<TransmuteRec>,
    sites: Vec<CallSiteRec>,
    unclassified: Vec<String>,
    brand_sites: Vec<BrandSiteRec>,
    nested: Vec<syn::Item>,
}

/// Files whose `unsafe` regions must consist of recognised re-branding operations only.
const REBRAND_FILES: &[&str] = &["dynamic_roots.rs"];
/// Files in which every reference made from a pointer cast is recorded as a brand-creating site.
const BRAND_CAST_FILES: &[&str] = &["arena.rs"];

impl<'a, 'b> TransmuteVisitor<'a, 'b> {
    fn site(&self, callee: String, callee_path: String, args: Vec<&syn::Expr>, is_call: bool) -> CallSiteRec {
        CallSiteRec {
            file: self.cx.k.files[self.cx.file].name.clone(),
            caller: self.cx.qual.clone(),
            caller_last: self.cx.fn_last.clone(),
            caller_unsafe: self.cx.fn_unsafe,
            caller_pub: self.cx.fn_pub,
            caller_params: self.cx.fn_params.clone(),
            callee,
            callee_path,
            args: args.iter().map(|a| squash(a)).collect(),
            arg_bases: args.iter().map(|a| operand_base(a)).collect(),
            guards: self.guards.clone(),
            is_call,
        }
    }

    /// Is `e` one recognised operation: a transmute (possibly cast to a raw pointer) or a call of
    /// a function defined in the same file (a helper the analysis follows)?
    fn recognised_op(&self, e: &syn::Expr) -> bool {
        let names = &self.cx.k.files[self.cx.file].fn_names;
        match strip_expr(e) {
            syn::Expr::Cast(c) => self.recognised_op(&c.expr),
            syn::Expr::Call(c) => {
                if is_transmute_call(c).is_some() {
                    return true;
                }
                // a helper of this file: `Self::helper(..)`, `<own type>::helper(..)` or a bare name
                match strip_expr(&c.func) {
                    syn::Expr::Path(p) if p.qself.is_none() => {
                        let segs: Vec<String> = p.path.segments.iter().map(|s| s.ident.to_string()).collect();
                        let own = self.cx.qual.split("::").next().unwrap_or("").to_string();
                        let head_ok = segs.len() == 1 || (segs.len() == 2 && (segs[0] == "Self" || segs[0] == own));
                        head_ok && names.contains(segs.last().unwrap())
                    }
                    _ => false,
                }
            }
            syn::Expr::MethodCall(m) => {
                matches!(strip_expr(&m.receiver), syn::Expr::Path(p) if p.path.is_ident("self")) && names.contains(&m.method.to_string())
            }
            syn::Expr::Unsafe(u) => self.single_op_block(&u.block),
            _ => false,
        }
    }

    fn single_op_block(&self, b: &syn::Block) -> bool {
        b.stmts.len() == 1 && matches!(&b.stmts[0], syn::Stmt::Expr(e, None) if self.recognised_op(e))
    }
}

fn strip_expr(e: &syn::Expr) -> &syn::Expr {
    match e {
        syn::Expr::Paren(p) => strip_expr(&p.expr),
        syn::Expr::Group(g) => strip_expr(&g.expr),
        _ => e,
    }
}

fn is_transmute_call(c: &syn::ExprCall) -> Option<&syn::PathSegment> {
    if let syn::Expr::Path(p) = strip_expr(&c.func) {
        let last = p.path.segments.last()?;
        if last.ident == "transmute" || last.ident == "transmute_copy" {
            return Some(last);
        }
    }
    None
}

fn operand_base(e: &syn::Expr) -> String {
    match strip_expr(e) {
        syn::Expr::Path(p) if p.path.segments.len() == 1 => p.path.segments[0].ident.to_string(),
        syn::Expr::Field(f) => operand_base(&f.base),
        syn::Expr::Reference(r) => operand_base(&r.expr),
        syn::Expr::Unary(u) if matches!(u.op, syn::UnOp::Deref(_)) => operand_base(&u.expr),
        _ => String::new(),
    }
}

impl<'ast, 'a, 'b> Visit<'ast> for TransmuteVisitor<'a, 'b> {
    fn visit_expr_if(&mut self, node: &'ast syn::ExprIf) {
        self.visit_expr(&node.cond);
        let c = squash(&node.cond);
        self.guards.push((c.clone(), true));
        self.visit_block(&node.then_branch);
        self.guards.pop();
        if let Some((_, e)) = &node.else_branch {
            self.guards.push((c, false));
            self.visit_expr(e);
            self.guards.pop();
        }
    }
    fn visit_expr_cast(&mut self, node: &'ast syn::ExprCast) {
        if let syn::Expr::Call(c) = strip_expr(&node.expr) {
            if is_transmute_call(c).is_some() {
                self.cast_next = Some((c as *const _, matches!(&*node.ty, syn::Type::Ptr(_))));
            }
        }
        syn::visit::visit_expr_cast(self, node);
    }
    fn visit_expr_unsafe(&mut self, node: &'ast syn::ExprUnsafe) {
        let fname = &self.cx.k.files[self.cx.file].name;
        if REBRAND_FILES.contains(&fname.as_str()) && !self.single_op_block(&node.block) {
            self.unclassified.push(format!("unsafe block in {} ({}) is not a single transmute / helper call: {}", self.cx.qual, fname, squash(&node.block)));
        }
        syn::visit::visit_expr_unsafe(self, node);
    }
    fn visit_expr_unary(&mut self, node: &'ast syn::ExprUnary) {
        // `*(e as *const _)` / `*(e as *mut _)`: a reference conjured from a pointer cast
        if matches!(node.op, syn::UnOp::Deref(_)) {
            if let syn::Expr::Cast(c) = strip_expr(&node.expr) {
                let fname = &self.cx.k.files[self.cx.file].name;
                if matches!(&*c.ty, syn::Type::Ptr(_)) && BRAND_CAST_FILES.contains(&fname.as_str()) {
                    self.brand_sites.push(BrandSiteRec {
                        file: fname.clone(),
                        fn_: self.cx.qual.clone(),
                        fn_last: self.cx.fn_last.clone(),
                        fn_unsafe: self.cx.fn_unsafe,
                        fn_pub: self.cx.fn_pub,
                        kind: "cast".into(),
                        text: squash(node),
                    });
                }
            }
        }
        syn::visit::visit_expr_unary(self, node);
    }
    fn visit_expr_method_call(&mut self, node: &'ast syn::ExprMethodCall) {
        let mut args: Vec<&syn::Expr> = vec![&*node.receiver];
        args.extend(node.args.iter());
        let s = self.site(node.method.to_string(), format!(".{}", node.method), args, true);
        self.sites.push(s);
        syn::visit::visit_expr_method_call(self, node);
    }
    fn visit_expr_path(&mut self, node: &'ast syn::ExprPath) {
        // a function named as a value (not in call position): cannot be followed
        if let Some(l) = node.path.segments.last() {
            let s = self.site(l.ident.to_string(), squash(&node.path), vec![], false);
            self.sites.push(s);
        }
    }
    fn visit_expr_call(&mut self, node: &'ast syn::ExprCall) {
        if is_transmute_call(node).is_none() {
            if let syn::Expr::Path(p) = strip_expr(&node.func) {
                if let Some(l) = p.path.segments.last() {
                    let s = self.site(l.ident.to_string(), squash(&p.path), node.args.iter().collect(), true);
                    self.sites.push(s);
                }
                // the callee path is in call position: only the arguments are visited
                for a in &node.args {
                    self.visit_expr(a);
                }
                return;
            }
        }
        if let Some(seg) = is_transmute_call(node) {
            let (src, dst) = match &seg.arguments {
                syn::PathArguments::AngleBracketed(ab) => {
                    let tys: Vec<&syn::Type> = ab.args.iter().filter_map(|a| if let syn::GenericArgument::Type(t) = a { Some(t) } else { None }).collect();
                    if tys.len() == 2 {
                        (Some(self.cx.k.ty(tys[0], &self.cx.sc)), Some(self.cx.k.ty(tys[1], &self.cx.sc)))
                    } else {
                        (None, None)
                    }
                }
                _ => (None, None),
            };
            let cast_to_raw = match self.cast_next.take() {
                Some((p, raw)) if p == node as *const _ => raw,
                _ => false,
            };
            let operand = node.args.first().map(|a| squash(a)).unwrap_or_default();
            let base = node.args.first().map(operand_base).unwrap_or_default();
            self.out.push(TransmuteRec {
                file: self.cx.k.files[self.cx.file].name.clone(),
                fn_: self.cx.qual.clone(),
                fn_unsafe: self.cx.fn_unsafe,
                fn_pub: self.cx.fn_pub,
                src,
                dst,
                guards: self.guards.clone(),
                cast_to_raw,
                operand,
                operand_base: base,
                fn_ret: self.cx.fn_ret.clone(),
                fn_last: self.cx.fn_last.clone(),
                fn_params: self.cx.fn_params.clone(),
            });
            // `transmute` itself is in call position; visit the operand only
            for a in &node.args {
                self.visit_expr(a);
            }
            return;
        }
        syn::visit::visit_expr_call(self, node);
    }
    fn visit_macro(&mut self, node: &'ast syn::Macro) {
        // a transmute hidden inside a macro call in a function body cannot be analysed
        let s = squash(&node.tokens);
        let fname = self.cx.k.files[self.cx.file].name.clone();
        if (REBRAND_FILES.contains(&fname.as_str()) || BRAND_CAST_FILES.contains(&fname.as_str())) && node.tokens.clone().into_iter().any(|t| contains_ident(&t, "unsafe")) {
            self.unclassified.push(format!("macro {}! in {} ({}) contains `unsafe` code that is not expanded", squash(&node.path), self.cx.qual, fname));
        }
        if s.contains("transmute") {
            self.out.push(TransmuteRec {
                file: self.cx.k.files[self.cx.file].name.clone(),
                fn_: self.cx.qual.clone(),
                fn_unsafe: self.cx.fn_unsafe,
                fn_pub: self.cx.fn_pub,
                src: None,
                dst: None,
                guards: self.guards.clone(),
                cast_to_raw: false,
                operand: format!("{}!(..)", squash(&node.path)),
                operand_base: String::new(),
                fn_ret: self.cx.fn_ret.clone(),
                fn_last: self.cx.fn_last.clone(),
                fn_params: self.cx.fn_params.clone(),
            });
        }
        // identifiers inside macro arguments may name a helper: recorded as unanalysable mentions
        fn idents(ts: proc_macro2::TokenStream, out: &mut Vec<String>) {
            for t in ts {
                match t {
                    proc_macro2::TokenTree::Group(g) => idents(g.stream(), out),
                    proc_macro2::TokenTree::Ident(i) => out.push(i.to_string()),
                    _ => {}
                }
            }
        }
        let mut ids = Vec::new();
        idents(node.tokens.clone(), &mut ids);
        let mp = format!("{}!(..)", squash(&node.path));
        for id in ids {
            let s = self.site(id, mp.clone(), vec![], false);
            self.sites.push(s);
        }
    }
    fn visit_item(&mut self, node: &'ast syn::Item) {
        // nested items are separate functions: analysed like module-level ones (after this body)
        self.nested.push(node.clone());
    }
}

fn contains_ident(t: &proc_macro2::TokenTree, id: &str) -> bool {
    match t {
        proc_macro2::TokenTree::Ident(i) => i == id,
        proc_macro2::TokenTree::Group(g) => g.stream().into_iter().any(|t| contains_ident(&t, id)),
        _ => false,
    }
}

fn expr_idents(e: &syn::Expr) -> Vec<String> {
    fn walk(ts: proc_macro2::TokenStream, out: &mut Vec<String>) {
        for t in ts {
            match t {
                proc_macro2::TokenTree::Group(g) => walk(g.stream(), out),
                proc_macro2::TokenTree::Ident(i) => out.push(i.to_string()),
                _ => {}
            }
        }
    }
    let mut v = Vec::new();
    walk(e.to_token_stream(), &mut v);
    v
}

/// Structural summary of an identity-check function: which parameters the two sides of the final
/// comparison are computed from.
fn identity_fn(file: &str, qual: &str, sig: &syn::Signature, params: &[String], block: &syn::Block) -> IdentityFnRec {
    let mut deps: HashMap<String, Vec<String>> = HashMap::new();
    for p in params {
        deps.insert(p.clone(), vec![p.clone()]);
    }
    let deps_of = |e: &syn::Expr, deps: &HashMap<String, Vec<String>>| -> Vec<String> {
        let mut out: Vec<String> = Vec::new();
        for id in expr_idents(e) {
            if let Some(ds) = deps.get(&id) {
                for d in ds {
                    if !out.contains(d) {
                        out.push(d.clone());
                    }
                }
            }
        }
        out.sort();
        out
    };
    let mut cmp = String::new();
    let mut l = Vec::new();
    let mut r = Vec::new();
    let n = block.stmts.len();
    for (i, st) in block.stmts.iter().enumerate() {
        match st {
            syn::Stmt::Local(loc) => {
                let name = match &loc.pat {
                    syn::Pat::Ident(pi) => Some(pi.ident.to_string()),
                    syn::Pat::Type(pt) => match &*pt.pat {
                        syn::Pat::Ident(pi) => Some(pi.ident.to_string()),
                        _ => None,
                    },
                    _ => None,
                };
                if let (Some(name), Some(init)) = (name, &loc.init) {
                    let d = deps_of(&init.expr, &deps);
                    deps.insert(name, d);
                }
            }
            syn::Stmt::Expr(e, None) if i + 1 == n => match strip_expr(e) {
                syn::Expr::Binary(b) if matches!(b.op, syn::BinOp::Eq(_)) => {
                    cmp = "==".into();
                    l = deps_of(&b.left, &deps);
                    r = deps_of(&b.right, &deps);
                }
                syn::Expr::Call(c) if c.args.len() == 2 => {
                    if let syn::Expr::Path(p) = strip_expr(&c.func) {
                        let segs: Vec<String> = p.path.segments.iter().map(|s| s.ident.to_string()).collect();
                        if segs.last().map(|s| s == "eq").unwrap_or(false) && segs.iter().any(|s| s == "ptr" || s == "Rc" || s == "Weak") {
                            cmp = "ptr::eq".into();
                            l = deps_of(&c.args[0], &deps);
                            r = deps_of(&c.args[1], &deps);
                        }
                    }
                }
                _ => {}
            },
            _ => {}
        }
    }
    IdentityFnRec {
        file: file.to_string(),
        name: sig.ident.to_string(),
        qual: qual.to_string(),
        params: params.to_vec(),
        cmp,
        lhs_deps: l,
        rhs_deps: r,
        ret_bool: matches!(&sig.output, syn::ReturnType::Type(_, t) if squash(t) == "bool"),
    }
}

fn head_name(t: &Ty) -> String {
    match t {
        Ty::Adt { name, .. } => name.clone(),
        other => other.rust(),
    }
}

fn do_fn(
    k: &Krate,
    fi: usize,
    base: &Scope,
    self_name: &str,
    vis: &syn::Visibility,
    sig: &syn::Signature,
    block: Option<&syn::Block>,
    inherent: bool,
    tbl: &mut Table,
) {
    let sc = k.scope_for(fi, Some(base), &sig.generics);
    let qual = if self_name.is_empty() { sig.ident.to_string() } else { format!("{}::{}", self_name, sig.ident) };
    let fn_ret = match &sig.output {
        syn::ReturnType::Default => Ty::unit(),
        syn::ReturnType::Type(_, t) => k.ty(t, &sc),
    };
    let receiver = sig
        .inputs
        .first()
        .and_then(|a| if let syn::FnArg::Receiver(r) = a { Some(squash(r)) } else { None })
        .unwrap_or_default();
    let mut cx = FnCtx {
        k,
        file: fi,
        qual,
        outer_lts: sc.lts.clone(),
        outer_tys: sc.tys.clone(),
        sc,
        fn_unsafe: sig.unsafety.is_some(),
        fn_pub: matches!(vis, syn::Visibility::Public(_)),
        fn_ret,
        receiver,
        fn_last: sig.ident.to_string(),
        fn_params: sig
            .inputs
            .iter()
            .map(|a| match a {
                syn::FnArg::Receiver(_) => "self".to_string(),
                syn::FnArg::Typed(pt) => match &*pt.pat {
                    syn::Pat::Ident(pi) => pi.ident.to_string(),
                    _ => "_".to_string(),
                },
            })
            .collect(),
    };
    {
        let own_lts: Vec<String> = sig.generics.params.iter().filter_map(|p| if let syn::GenericParam::Lifetime(l) = p { Some(l.lifetime.ident.to_string()) } else { None }).collect();
        let ctxs = ["Mutation", "Finalization"];
        if cx.fn_ret.mentions_adt(&ctxs) && !own_lts.is_empty() {
            let inputs: String = sig.inputs.iter().map(|a| squash(a)).collect::<Vec<_>>().join(",");
            let ret = squash(&sig.output);
            let free = own_lts.iter().any(|l| ret.contains(&format!("'{}", l)) && !inputs.contains(&format!("'{}", l)));
            if free {
                tbl.brand_sources.push((cx.fn_last.clone(), cx.qual.clone(), k.files[fi].name.clone()));
            }
        }
    }
    if inherent {
        let mut cbs = Vec::new();
        callbacks_of_fn(&mut cx, sig, &mut cbs);
        tbl.callbacks.extend(cbs);
    }
    if let Some(b) = block {
        let mut v = TransmuteVisitor { cx: &cx, guards: vec![], cast_next: None, out: vec![], sites: vec![], unclassified: vec![], brand_sites: vec![], nested: vec![] };
        v.visit_block(b);
        if REBRAND_FILES.contains(&k.files[fi].name.as_str()) && cx.fn_ret == Ty::Prim("bool".into()) {
            tbl.identity_fns.push(identity_fn(&k.files[fi].name, &cx.qual, sig, &cx.fn_params, b));
        }
        let fname = &k.files[fi].name;
        if cx.fn_unsafe && REBRAND_FILES.contains(&fname.as_str()) && !v.single_op_block(b) {
            // the whole body of an `unsafe fn` is an unsafe region
            v.unclassified.push(format!("body of unsafe fn {} ({}) is not a single transmute / helper call", cx.qual, fname));
        }
        tbl.transmutes.extend(v.out);
        tbl.all_sites.extend(v.sites);
        tbl.unclassified.extend(v.unclassified);
        tbl.brand_sites.extend(v.brand_sites);
        let nested = std::mem::take(&mut v.nested);
        if !nested.is_empty() {
            facts_items(k, fi, &nested, tbl);
        }
    }
}

/// Types a bound lets the caller supply: the output of an `Fn*(..) -> R` bound, the types bound to
/// associated types (`IntoIterator<Item = E>`).
fn supplied_by_bounds<'x>(bounds: impl Iterator<Item = &'x syn::TypeParamBound>, k: &Krate, sc: &Scope, out: &mut Vec<Ty>) {
    for b in bounds {
        if let syn::TypeParamBound::Trait(tb) = b {
            if let Some(seg) = tb.path.segments.last() {
                match &seg.arguments {
                    syn::PathArguments::Parenthesized(pa) => {
                        if let syn::ReturnType::Type(_, t) = &pa.output {
                            out.push(k.ty(t, sc));
                        }
                    }
                    syn::PathArguments::AngleBracketed(ab) => {
                        for a in &ab.args {
                            if let syn::GenericArgument::AssocType(at) = a {
                                out.push(k.ty(&at.ty, sc));
                            }
                        }
                    }
                    _ => {}
                }
            }
        }
    }
}

fn ty_mentions_param(t: &Ty) -> bool {
    match t {
        Ty::Param(_) => true,
        Ty::Prim(_) | Ty::Unclassified(_) => false,
        Ty::Ref(_, t) | Ty::RefMut(_, t) | Ty::RawConst(t) | Ty::RawMut(t) | Ty::Slice(t) => ty_mentions_param(t),
        Ty::Std(_, ts) | Ty::Tuple(ts) => ts.iter().any(ty_mentions_param),
        Ty::Proj { self_, tys, .. } => ty_mentions_param(self_) || tys.iter().any(ty_mentions_param),
        Ty::FnPtr { args, ret, .. } => args.iter().any(ty_mentions_param) || ty_mentions_param(ret),
        Ty::Adt { tys, .. } => tys.iter().any(ty_mentions_param),
    }
}

fn strip_refs(t: &Ty) -> &Ty {
    match t {
        Ty::Ref(_, t) | Ty::RefMut(_, t) => strip_refs(t),
        t => t,
    }
}

/// `&mut X` / `&mut MaybeUninit<X>` handed *to* the client (callback argument, result): a channel
/// through which the client can write an `X`.
fn mut_channel(t: &Ty, out: &mut Vec<Ty>) {
    match t {
        Ty::RefMut(_, inner) => match &**inner {
            Ty::Std("maybeUninit", a) if a.len() == 1 => out.push(a[0].clone()),
            Ty::Slice(e) => match &**e {
                Ty::Std("maybeUninit", a) if a.len() == 1 => out.push(a[0].clone()),
                other => out.push(other.clone()),
            },
            other => out.push(other.clone()),
        },
        Ty::Std(_, ts) | Ty::Tuple(ts) => ts.iter().for_each(|t| mut_channel(t, out)),
        _ => {}
    }
}

fn mut_channels_of_bounds<'x>(bounds: impl Iterator<Item = &'x syn::TypeParamBound>, k: &Krate, sc: &Scope, out: &mut Vec<Ty>) {
    for b in bounds {
        if let syn::TypeParamBound::Trait(tb) = b {
            if let Some(seg) = tb.path.segments.last() {
                if let syn::PathArguments::Parenthesized(pa) = &seg.arguments {
                    for i in &pa.inputs {
                        mut_channel(&k.ty(i, sc), out);
                    }
                }
            }
        }
    }
}

/// Record a safe, client-callable function as a potential store into every public ADT it receives
/// (the receiver, or any parameter of ADT type – free functions included).
fn record_store_fns(k: &Krate, fi: usize, base_sc: &Scope, self_ty: Option<&Ty>, trait_name: &str, callable: bool, sig: &syn::Signature, tbl: &mut Table) {
    if !callable || sig.unsafety.is_some() {
        return;
    }
    let sc = k.scope_for(fi, Some(base_sc), &sig.generics);
    // (index of the parameter that is the target, its type) – the receiver has index usize::MAX
    let mut typed: Vec<(usize, Ty, bool)> = Vec::new(); // (idx, type, is_impl_trait)
    let mut has_receiver = false;
    let mut from_bounds: Vec<Ty> = Vec::new();
    for (i, inp) in sig.inputs.iter().enumerate() {
        match inp {
            syn::FnArg::Receiver(_) => has_receiver = true,
            syn::FnArg::Typed(pt) => match &*pt.ty {
                syn::Type::ImplTrait(it) => {
                    supplied_by_bounds(it.bounds.iter(), k, &sc, &mut from_bounds);
                    mut_channels_of_bounds(it.bounds.iter(), k, &sc, &mut from_bounds);
                }
                t => typed.push((i, k.ty(t, &sc), false)),
            },
        }
    }
    for p in &sig.generics.params {
        if let syn::GenericParam::Type(t) = p {
            supplied_by_bounds(t.bounds.iter(), k, &sc, &mut from_bounds);
            mut_channels_of_bounds(t.bounds.iter(), k, &sc, &mut from_bounds);
        }
    }
    if let Some(w) = &sig.generics.where_clause {
        for pr in &w.predicates {
            if let syn::WherePredicate::Type(pt) = pr {
                supplied_by_bounds(pt.bounds.iter(), k, &sc, &mut from_bounds);
                mut_channels_of_bounds(pt.bounds.iter(), k, &sc, &mut from_bounds);
            }
        }
    }
    let ret = match &sig.output {
        syn::ReturnType::Default => Ty::unit(),
        syn::ReturnType::Type(_, t) => k.ty(t, &sc),
    };
    mut_channel(&ret, &mut from_bounds);
    let mut bounded: Vec<String> = Vec::new();
    for p in &sc.tys {
        let b = sc.static_params.contains(p) || sc.bounds.iter().any(|(w, tr)| w == p && tr.name == "Collect");
        if b && !bounded.contains(p) {
            bounded.push(p.clone());
        }
    }
    let mut targets: Vec<(usize, Ty)> = Vec::new();
    if has_receiver || self_ty.is_some() {
        if let (true, Some(st)) = (has_receiver, self_ty) {
            targets.push((usize::MAX, st.clone()));
        }
    }
    for (i, t, _) in &typed {
        targets.push((*i, strip_refs(t).clone()));
    }
    let ret_head = match &ret {
        Ty::Std(c, a) if (*c == "option" || *c == "result") && !a.is_empty() => a[0].clone(),
        r => r.clone(),
    };
    let ret_is_adt = matches!(&ret_head, Ty::Adt { name, .. } if k.adts.contains_key(name)) && ty_mentions_param(&ret_head);
    for (ti, tt) in targets {
        let Ty::Adt { name, tys, .. } = &tt else { continue };
        let Some(raw) = k.adts.get(name) else { continue };
        if raw.vis != "pub" || !tys.iter().any(ty_mentions_param) {
            continue;
        }
        let mut params: Vec<Ty> = typed.iter().filter(|(i, _, _)| *i != ti).map(|(_, t, _)| t.clone()).collect();
        params.extend(from_bounds.iter().cloned());
        let params: Vec<Ty> = params.into_iter().filter(ty_mentions_param).collect();
        if params.is_empty() && !ret_is_adt {
            continue;
        }
        tbl.methods.push(MethodRec {
            adt: name.clone(),
            file: k.files[fi].name.clone(),
            method: sig.ident.to_string(),
            trait_: trait_name.to_string(),
            self_args: tys.clone(),
            ret: ret.clone(),
            params,
            bounded: bounded.clone(),
        });
    }
}

fn collect_impl_fact(k: &Krate, fi: usize, sc: &Scope, self_ty: &Ty, im: &syn::ItemImpl, cfg: String, tbl: &mut Table) {
    let (lts, prs, _) = param_recs(&im.generics);
    let tys = prs.iter().map(|p| (p.name.clone(), sc.static_params.contains(&p.name))).collect();
    let mut self_static = false;
    if let Some(w) = &im.generics.where_clause {
        for pr in &w.predicates {
            if let syn::WherePredicate::Type(pt) = pr {
                let is_self = squash(&pt.bounded_ty) == squash(&im.self_ty) || squash(&pt.bounded_ty) == "Self";
                if is_self && pt.bounds.iter().any(|b| matches!(b, syn::TypeParamBound::Lifetime(l) if l.ident == "static")) {
                    self_static = true;
                }
            }
        }
    }
    tbl.collect_impls.push(CollectRec { file: k.files[fi].name.clone(), self_ty: self_ty.clone(), lts, tys, self_static, cfg });
}

fn macro_tokens_flag(tokens: &proc_macro2::TokenStream) -> Vec<&'static str> {
    // identifiers that matter for C12 and cannot be analysed inside an unexpanded macro
    fn walk(ts: proc_macro2::TokenStream, prev_impl: &mut bool, found: &mut Vec<&'static str>) {
        for t in ts {
            match t {
                proc_macro2::TokenTree::Group(g) => walk(g.stream(), prev_impl, found),
                proc_macro2::TokenTree::Ident(i) => {
                    let s = i.to_string();
                    if s == "impl" {
                        *prev_impl = true;
                    }
                    if *prev_impl && (s == "Send" || s == "Sync") {
                        found.push("auto-trait impl");
                    }
                    if s == "transmute" {
                        found.push("transmute");
                    }
                }
                _ => {}
            }
        }
    }
    let mut f = Vec::new();
    let mut p = false;
    walk(tokens.clone(), &mut p, &mut f);
    f
}

fn facts_items(k: &Krate, fi: usize, items: &[syn::Item], tbl: &mut Table) {
    let fname = k.files[fi].name.clone();
    for it in items {
        match it {
            syn::Item::Fn(f) => {
                if let Cfg::Skip = cfg_of(&f.attrs) { continue; }
                let base = Scope { file: fi, ..Default::default() };
                record_store_fns(k, fi, &base, None, "", matches!(f.vis, syn::Visibility::Public(_)), &f.sig, tbl);
                do_fn(k, fi, &base, "", &f.vis, &f.sig, Some(&f.block), true, tbl);
            }
            syn::Item::Impl(im) => {
                let cfg = match cfg_of(&im.attrs) { Cfg::Skip => continue, Cfg::Keep(c) => c };
                let mut sc = k.scope_for(fi, None, &im.generics);
                let self_ty = k.ty(&im.self_ty, &sc);
                sc.self_ty = Some(self_ty.clone());
                let self_name = head_name(&self_ty);
                if let Some((neg, path, _)) = &im.trait_ {
                    let tname = path.segments.last().unwrap().ident.to_string();
                    if tname == "Send" || tname == "Sync" {
                        tbl.auto_impls.push(AutoImplRec { trait_: tname.clone(), negative: neg.is_some(), target: self_name.clone(), file: fname.clone(), cfg: cfg.clone() });
                    }
                    if tname == "Collect" {
                        collect_impl_fact(k, fi, &sc, &self_ty, im, cfg.clone(), tbl);
                    }
                }
                for ii in &im.items {
                    if let syn::ImplItem::Fn(m) = ii {
                        if let Cfg::Skip = cfg_of(&m.attrs) { continue; }
                        let callable = im.trait_.is_some() || matches!(m.vis, syn::Visibility::Public(_));
                        let tn = im.trait_.as_ref().map(|(_, p, _)| p.segments.last().unwrap().ident.to_string()).unwrap_or_default();
                        record_store_fns(k, fi, &sc, Some(&self_ty), &tn, callable, &m.sig, tbl);
                        do_fn(k, fi, &sc, &self_name, &m.vis, &m.sig, Some(&m.block), im.trait_.is_none(), tbl);
                    }
                }
            }
            syn::Item::Trait(t) => {
                if let Cfg::Skip = cfg_of(&t.attrs) { continue; }
                let mut sc = k.scope_for(fi, None, &t.generics);
                sc.self_ty = Some(Ty::Param("Self".into()));
                for ti in &t.items {
                    if let syn::TraitItem::Fn(m) = ti {
                        do_fn(k, fi, &sc, &t.ident.to_string(), &syn::Visibility::Inherited, &m.sig, m.default.as_ref(), false, tbl);
                    }
                }
            }
            syn::Item::Macro(m) => {
                if let Cfg::Skip = cfg_of(&m.attrs) { continue; }
                let name = m.ident.as_ref().map(|i| format!("macro_rules! {}", i)).unwrap_or_else(|| format!("{}!", squash(&m.mac.path)));
                for what in macro_tokens_flag(&m.mac.tokens) {
                    // only dynamic_roots.rs transmutes are in scope; auto-trait impls anywhere
                    if what == "auto-trait impl" || fname == "dynamic_roots.rs" {
                        tbl.unclassified.push(format!("{} inside unexpanded {} ({})", what, name, fname));
                    }
                }
                tbl.item_macros.push((fname.clone(), name));
            }
            syn::Item::Mod(m) => {
                if let Cfg::Skip = cfg_of(&m.attrs) { continue; }
                if let Some((_, items)) = &m.content {
                    facts_items(k, fi, items, tbl);
                }
            }
            syn::Item::Static(s) => {
                if let Cfg::Skip = cfg_of(&s.attrs) { continue; }
                tbl.item_macros.push((fname.clone(), format!("static {}", s.ident)));
            }
            _ => {}
        }
    }
}

fn main() {
    let mut repo = String::from("/repo");
    let mut lean_out = String::from("/verif/lean/GcArena/Generated/BrandTable.lean");
    let mut json_out = String::new();
    // macro-expanded crate (`cargo +nightly rustc -- -Zunpretty=expanded`): when given, the `Collect`
    // impls are read from it, so impls generated by the crate's own `macro_rules!` are seen
    let mut expanded = String::new();
    let mut args = std::env::args().skip(1);
    while let Some(a) = args.next() {
        match a.as_str() {
            "--repo" => repo = args.next().expect("--repo PATH"),
            "--lean" => lean_out = args.next().expect("--lean FILE"),
            "--json" => json_out = args.next().expect("--json FILE"),
            "--expanded" => expanded = args.next().expect("--expanded FILE"),
            other => {
                eprintln!("unknown argument {}", other);
                std::process::exit(2);
            }
        }
    }
    let src = std::path::Path::new(&repo).join("src");
    let mut names: Vec<String> = match std::fs::read_dir(&src) {
        Ok(rd) => rd.filter_map(|e| e.ok()).map(|e| e.file_name().to_string_lossy().to_string()).filter(|n| n.ends_with(".rs") && n != "verif.rs").collect(),
        Err(e) => {
            eprintln!("cannot read {}: {}", src.display(), e);
            std::process::exit(2);
        }
    };
    names.sort();
    let mut k = Krate {
        files: vec![],
        adts: HashMap::new(),
        aliases: HashMap::new(),
        traits: HashMap::new(),
        pub_mods: HashSet::new(),
        root_reexports: HashSet::new(),
        unclassified: vec![],
    };
    let mut asts = Vec::new();
    for n in &names {
        let text = std::fs::read_to_string(src.join(n)).unwrap_or_default();
        match syn::parse_file(&text) {
            Ok(ast) => {
                let module = if n == "lib.rs" { String::new() } else { n.trim_end_matches(".rs").to_string() };
                k.files.push(FileInfo { name: n.clone(), module, imports: HashMap::new(), local_names: HashSet::new(), fn_names: HashSet::new() });
                asts.push(ast);
            }
            Err(e) => {
                k.unclassified.push(format!("{} does not parse: {}", n, e));
            }
        }
    }
    // lib.rs: public modules and root re-exports
    for (fi, ast) in asts.iter().enumerate() {
        if k.files[fi].name != "lib.rs" {
            continue;
        }
        for it in &ast.items {
            match it {
                syn::Item::Mod(m) => {
                    if let Cfg::Skip = cfg_of(&m.attrs) { continue; }
                    if matches!(m.vis, syn::Visibility::Public(_)) {
                        k.pub_mods.insert(m.ident.to_string());
                    }
                }
                syn::Item::Use(u) if matches!(u.vis, syn::Visibility::Public(_)) => {
                    let mut v = Vec::new();
                    flatten_use("", &u.tree, &mut v);
                    for (id, _) in v {
                        k.root_reexports.insert(id);
                    }
                }
                _ => {}
            }
        }
    }
    for (fi, ast) in asts.iter().enumerate() {
        index_items(&mut k, fi, &ast.items);
    }
    // pseudo files for the modules of the macro-expanded crate (imports only; their types are the
    // crate's own, already indexed from the raw sources)
    let mut expanded_mods: Vec<(usize, Vec<syn::Item>)> = Vec::new();
    let mut expanded_ok = false;
    if !expanded.is_empty() {
        match std::fs::read_to_string(&expanded).ok().and_then(|t| syn::parse_file(&t).ok()) {
            Some(ast) => {
                expanded_ok = true;
                for it in ast.items {
                    if let syn::Item::Mod(m) = it {
                        if m.ident == "verif" {
                            continue;
                        }
                        if let Some((_, items)) = m.content {
                            let fi = k.files.len();
                            k.files.push(FileInfo { name: format!("{}.rs", m.ident), module: m.ident.to_string(), imports: HashMap::new(), local_names: HashSet::new(), fn_names: HashSet::new() });
                            for it in &items {
                                if let syn::Item::Use(u) = it {
                                    let mut v = Vec::new();
                                    flatten_use("", &u.tree, &mut v);
                                    for (id, p) in v {
                                        k.files[fi].imports.insert(id, p);
                                    }
                                }
                            }
                            expanded_mods.push((fi, items));
                        }
                    }
                }
            }
            None => k.unclassified.push(format!("the macro-expanded crate {} does not parse", expanded)),
        }
    }
    let mut tbl = Table::default();
    tbl.files = names.clone();
    // ADTs and aliases
    let mut adt_names: Vec<&String> = k.adts.keys().collect();
    adt_names.sort_by_key(|n| (k.adts[*n].file, (*n).clone()));
    for n in adt_names {
        let a = &k.adts[n];
        let sc = k.scope_for(a.file, None, &a.generics);
        let (lts, tys, consts) = param_recs(&a.generics);
        let fields = a.fields.iter().map(|(fname, t, c)| FieldRec { name: fname.clone(), ty: k.ty(t, &sc), cfg: c.clone() }).collect();
        tbl.adts.push(AdtRec {
            name: n.clone(),
            file: k.files[a.file].name.clone(),
            vis: a.vis,
            kind: a.kind,
            lts,
            tys,
            consts,
            fields,
            pub_path: pub_path(&k, a.file, n, a.vis),
            cfg: a.cfg.clone(),
        });
    }
    let mut alias_names: Vec<&String> = k.aliases.keys().collect();
    alias_names.sort_by_key(|n| (k.aliases[*n].file, (*n).clone()));
    for n in alias_names {
        let a = &k.aliases[n];
        let sc = k.scope_for(a.file, None, &a.generics);
        let (lts, tys, _) = param_recs(&a.generics);
        tbl.aliases.push(AliasRec {
            name: n.clone(),
            file: k.files[a.file].name.clone(),
            lts,
            tys: tys.into_iter().map(|p| p.name).collect(),
            body: k.ty(&a.ty, &sc),
            pub_path: pub_path(&k, a.file, n, a.vis),
        });
    }
    for (fi, ast) in asts.iter().enumerate() {
        facts_items(&k, fi, &ast.items, &mut tbl);
    }
    // Call sites through which a re-branding site may have to be lifted: callees that are private
    // `unsafe fn`s holding a transmute in a re-branding file, and (transitively) their private
    // unsafe callers.  Matching is by last path segment, crate-wide (over-approximation: fail closed).
    let mut relevant: Vec<String> = Vec::new();
    // (F2) any `unsafe fn` – public or not – holding a transmute of a re-branding file: its in-crate
    // callers must be covered; only out-of-crate callers are discharged by the unsafe contract
    for t in &tbl.transmutes {
        if REBRAND_FILES.contains(&t.file.as_str()) && t.fn_unsafe && !relevant.contains(&t.fn_last) {
            relevant.push(t.fn_last.clone());
        }
    }
    for _ in 0..8 {
        let mut grew = false;
        for s in &tbl.all_sites {
            if relevant.contains(&s.callee) && s.caller_unsafe && !relevant.contains(&s.caller_last) {
                relevant.push(s.caller_last.clone());
                grew = true;
            }
        }
        if !grew {
            break;
        }
    }
    // brand-creating sites: calls of brand sources, anywhere in the crate
    let source_names: Vec<String> = tbl.brand_sources.iter().map(|(n, _, _)| n.clone()).collect();
    let mut extra_sites: Vec<BrandSiteRec> = Vec::new();
    for s in &tbl.all_sites {
        if source_names.contains(&s.callee) {
            extra_sites.push(BrandSiteRec {
                file: s.file.clone(),
                fn_: s.caller.clone(),
                fn_last: s.caller_last.clone(),
                fn_unsafe: s.caller_unsafe,
                fn_pub: s.caller_pub,
                kind: if s.is_call { "source-call".into() } else { "source-mention".into() },
                text: format!("{}({})", s.callee_path, s.args.join(",")),
            });
        }
    }
    tbl.brand_sites.extend(extra_sites);
    // … and the call sites through which they are lifted: functions holding a brand site that are
    // not themselves client entry points (private or unsafe), transitively
    let mut lift: Vec<String> = Vec::new();
    for b in &tbl.brand_sites {
        if (b.fn_unsafe || !b.fn_pub) && !lift.contains(&b.fn_last) {
            lift.push(b.fn_last.clone());
        }
    }
    for _ in 0..8 {
        let mut grew = false;
        for s in &tbl.all_sites {
            if lift.contains(&s.callee) && (s.caller_unsafe || !s.caller_pub) && !lift.contains(&s.caller_last) {
                lift.push(s.caller_last.clone());
                grew = true;
            }
        }
        if !grew {
            break;
        }
    }
    // a brand source itself is not lifted through (its own body is the unsafe contract)
    lift.retain(|n| !source_names.contains(n));
    tbl.call_sites = tbl.all_sites.iter().filter(|s| relevant.contains(&s.callee) || lift.contains(&s.callee)).cloned().collect();
    if expanded_ok {
        // `Collect` impls: from the expanded crate (replaces what the raw pass found)
        tbl.collect_impls.clear();
        for (fi, items) in &expanded_mods {
            for it in items {
                if let syn::Item::Impl(im) = it {
                    if let Cfg::Skip = cfg_of(&im.attrs) { continue; }
                    if let Some((_, path, _)) = &im.trait_ {
                        if path.segments.last().unwrap().ident == "Collect" {
                            let sc = k.scope_for(*fi, None, &im.generics);
                            let self_ty = k.ty(&im.self_ty, &sc);
                            collect_impl_fact(&k, *fi, &sc, &self_ty, im, String::new(), &mut tbl);
                        }
                    }
                }
            }
        }
    }
    tbl.unclassified.extend(k.unclassified.iter().cloned());
    // unclassified nodes inside recorded facts are surfaced at top level too
    fn scan(t: &Ty, out: &mut Vec<String>, wher: &str) {
        match t {
            Ty::Unclassified(w) => out.push(format!("type `{}` in {}", w, wher)),
            Ty::Prim(_) | Ty::Param(_) => {}
            Ty::Ref(_, t) | Ty::RefMut(_, t) | Ty::RawConst(t) | Ty::RawMut(t) | Ty::Slice(t) => scan(t, out, wher),
            Ty::Std(_, ts) | Ty::Tuple(ts) => ts.iter().for_each(|t| scan(t, out, wher)),
            Ty::Proj { self_, tys, .. } => {
                scan(self_, out, wher);
                tys.iter().for_each(|t| scan(t, out, wher))
            }
            Ty::FnPtr { args, ret, .. } => {
                args.iter().for_each(|t| scan(t, out, wher));
                scan(ret, out, wher)
            }
            Ty::Adt { tys, .. } => tys.iter().for_each(|t| scan(t, out, wher)),
        }
    }
    let mut extra = Vec::new();
    for a in &tbl.adts {
        for f in &a.fields {
            scan(&f.ty, &mut extra, &format!("field {}.{}", a.name, f.name));
        }
    }
    for c in &tbl.callbacks {
        for a in &c.args {
            scan(a, &mut extra, &format!("callback of {}", c.name));
        }
        scan(&c.ret, &mut extra, &format!("callback result of {}", c.name));
    }
    tbl.unclassified.extend(extra);

    let lean = emit::lean(&tbl, &repo);
    if let Some(dir) = std::path::Path::new(&lean_out).parent() {
        let _ = std::fs::create_dir_all(dir);
    }
    // write only when changed, so that lake does not rebuild needlessly
    let old = std::fs::read_to_string(&lean_out).unwrap_or_default();
    if old != lean {
        std::fs::write(&lean_out, &lean).expect("write lean table");
    }
    if !json_out.is_empty() {
        std::fs::write(&json_out, emit::json(&tbl, &repo)).expect("write json table");
    }
    println!(
        "extract-brand: {} files, {} adts, {} aliases, {} callbacks, {} collect impls, {} transmutes, {} auto impls, {} unclassified",
        tbl.files.len(),
        tbl.adts.len(),
        tbl.aliases.len(),
        tbl.callbacks.len(),
        tbl.collect_impls.len(),
        tbl.transmutes.len(),
        tbl.auto_impls.len(),
        tbl.unclassified.len()
    );
}
